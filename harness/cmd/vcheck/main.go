// vcheck is the entry point of the verification machinery: `vcheck Cnn --tier quick|thorough`.
//
// The check itself runs in a child process of this binary. The code under test runs inside
// that child; if it crashes the process (a Go panic in a library goroutine, `fatal error:
// concurrent map writes`, stack overflow ...) the parent turns the crash into a verdict:
// a crash whose stack lies in the library is a violation, anything else a broken check.
package main

import (
	"bytes"
	"encoding/json"
	"flag"
	"fmt"
	"io"
	"os"
	"os/exec"
	"path/filepath"
	"regexp"
	"runtime/debug"
	"strconv"
	"strings"
	"time"

	"github.com/kercylan98/vivid/verifharness/checks"
	"github.com/kercylan98/vivid/verifharness/core"
)

func main() {
	if len(os.Args) < 2 {
		fmt.Println("usage: vcheck <Cnn> [--tier quick|thorough] | vcheck --list | vcheck --replay <file>")
		os.Exit(2)
	}
	if code, ok := checks.Subcommand(os.Args[1:]); ok {
		os.Exit(code)
	}
	id := os.Args[1]
	fs := flag.NewFlagSet("vcheck", flag.ExitOnError)
	tier := fs.String("tier", envOr("VERIF_TIER", "quick"), "quick|thorough")
	_ = fs.Parse(os.Args[2:])
	if id == "--list" {
		fmt.Println(strings.Join(checks.IDs(), "\n"))
		return
	}
	f, ok := checks.Lookup(id)
	if !ok {
		fmt.Printf("unknown property %q\n", id)
		os.Exit(2)
	}
	if *tier != "quick" && *tier != "thorough" {
		*tier = "quick"
	}
	if os.Getenv("VCHECK_CHILD") == "" {
		os.Exit(supervise(id, *tier))
	}
	c, err := core.NewCtx(id, *tier)
	if err != nil {
		fmt.Println("BROKEN-CHECK", err)
		os.Exit(2)
	}
	func() {
		defer func() {
			if r := recover(); r != nil {
				c.Broken("check panicked: %v\n%s", r, debug.Stack())
			}
		}()
		f(c)
	}()
	os.Exit(c.Finish())
}

func envOr(k, d string) string {
	if v := os.Getenv(k); v != "" {
		return v
	}
	return d
}

var reFrame = regexp.MustCompile(`^(\S+)\(.*\)$|^(\S+)\.\S+$`)

// supervise runs the check in a child process and interprets a crash of that process.
func supervise(id, tier string) int {
	start := time.Now()
	ev := filepath.Join(core.VerifDir(), "evidence", id+".json")
	_ = os.Remove(ev)
	cmd := exec.Command(os.Args[0], os.Args[1:]...)
	cmd.Env = append(os.Environ(), "VCHECK_CHILD=1")
	cmd.Stdout = os.Stdout
	var errBuf bytes.Buffer
	cmd.Stderr = io.MultiWriter(&tailWriter{buf: &errBuf, max: 1 << 20})
	err := cmd.Run()
	code := 0
	if err != nil {
		if ee, ok := err.(*exec.ExitError); ok {
			code = ee.ExitCode()
		} else {
			fmt.Println("BROKEN-CHECK cannot run child:", err)
			return 2
		}
	}
	if _, serr := os.Stat(ev); serr == nil {
		// the child finished in an orderly way and wrote its evidence
		if errBuf.Len() > 0 && code != 0 {
			os.Stderr.Write(errBuf.Bytes())
		}
		return code
	}
	log := errBuf.String()
	inLib, where := crashInLibrary(log)
	seed, _ := strconv.ParseInt(envOr("VERIF_SEED", "1"), 10, 64)
	if !inLib {
		os.Stderr.WriteString(log)
		fmt.Printf("BROKEN-CHECK property=%s the check process died (exit %d) outside the library code\n", id, code)
		return 2
	}
	dir := filepath.Join(core.VerifDir(), "replays")
	_ = os.MkdirAll(dir, 0o755)
	p := filepath.Join(dir, fmt.Sprintf("%s-%s-%d-crash.json", id, tier, seed))
	if len(log) > 20000 {
		log = log[:20000]
	}
	b, _ := json.MarshalIndent(map[string]any{"property": id, "tier": tier, "seed": seed, "monitor": "ProcessCrash",
		"detail": "the code under test crashed the process while the check was driving it", "where": where, "log": log}, "", " ")
	_ = os.WriteFile(p, b, 0o644)
	evd := core.Evidence{PropertyID: id, Tier: tier, Seed: seed, Level: "model_checking", WallS: time.Since(start).Seconds(), Violations: 1,
		Coverage: map[string]any{"evaluations": 1, "distinct_nontrivial": 0, "explanation": "the run was cut short: the library crashed the process at " + where,
			"samples": []any{where}}}
	eb, _ := json.MarshalIndent(evd, "", " ")
	_ = os.WriteFile(ev, eb, 0o644)
	fmt.Printf("VIOLATION property=%s replay=%s monitor=ProcessCrash class=process-crash the library crashed the process: %s\n", id, p, where)
	return 1
}

// crashInLibrary looks at the first goroutine of a Go crash dump: a crash is attributed to the library
// if a library frame (github.com/kercylan98/vivid/..., not the harness) appears before any harness frame.
func crashInLibrary(log string) (bool, string) {
	idx := strings.Index(log, "panic:")
	if j := strings.Index(log, "fatal error:"); j >= 0 && (idx < 0 || j < idx) {
		idx = j
	}
	if idx < 0 {
		return false, ""
	}
	lines := strings.Split(log[idx:], "\n")
	headline := strings.TrimSpace(lines[0])
	seenGoroutine := false
	for _, ln := range lines[1:] {
		if strings.HasPrefix(ln, "goroutine ") {
			if seenGoroutine {
				break
			}
			seenGoroutine = true
			continue
		}
		if !seenGoroutine || strings.HasPrefix(ln, "\t") || strings.TrimSpace(ln) == "" {
			continue
		}
		fn := strings.TrimSpace(ln)
		if strings.HasPrefix(fn, "github.com/kercylan98/vivid/verifharness/") {
			return false, headline
		}
		if strings.HasPrefix(fn, "github.com/kercylan98/vivid") {
			return true, headline + " in " + strings.SplitN(fn, "(", 2)[0]
		}
	}
	return false, headline
}

type tailWriter struct {
	buf *bytes.Buffer
	max int
}

func (t *tailWriter) Write(p []byte) (int, error) {
	if t.buf.Len() < t.max {
		t.buf.Write(p)
	}
	return len(p), nil
}
