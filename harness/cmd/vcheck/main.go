// vcheck is the entry point of the verification machinery: `vcheck Cnn --tier quick|thorough`.
package main

import (
	"flag"
	"fmt"
	"os"
	"strings"

	"github.com/kercylan98/vivid/verifharness/checks"
	"github.com/kercylan98/vivid/verifharness/core"
)

func main() {
	if len(os.Args) < 2 {
		fmt.Println("usage: vcheck <Cnn> [--tier quick|thorough] | vcheck --list")
		os.Exit(2)
	}
	if code, ok := checks.Subcommand(os.Args[1:]); ok {
		os.Exit(code)
	}
	id := os.Args[1]
	fs := flag.NewFlagSet("vcheck", flag.ExitOnError)
	tier := fs.String("tier", envOr("VERIF_TIER", "quick"), "quick|thorough")
	_ = fs.Parse(os.Args[2:])
	if id == "--list" {
		fmt.Println(strings.Join(checks.IDs(), "\n"))
		return
	}
	f, ok := checks.Lookup(id)
	if !ok {
		fmt.Printf("unknown property %q\n", id)
		os.Exit(2)
	}
	if *tier != "quick" && *tier != "thorough" {
		*tier = "quick"
	}
	c, err := core.NewCtx(id, *tier)
	if err != nil {
		fmt.Println("BROKEN-CHECK", err)
		os.Exit(2)
	}
	func() {
		defer func() {
			if r := recover(); r != nil {
				c.Broken("check panicked: %v", r)
			}
		}()
		f(c)
	}()
	os.Exit(c.Finish())
}

func envOr(k, d string) string {
	if v := os.Getenv(k); v != "" {
		return v
	}
	return d
}
