// Command pingpong is built WITHOUT the verif tag: the hook call-outs of the instrumented build sit exactly between the
// operations whose hardware-level ordering this run depends on.  Per mailbox one sender plays ping-pong with the handler
// (one message, spin until it was handled, next message at once) while two goroutines poll IsPaused (the pause flag
// shares its cache line with the status word and the counters).  A message that is not handled within a second although
// nothing else happens is a lost wake-up.  Output: one JSON line per mailbox.
package main

import (
	"encoding/json"
	"fmt"
	"os"
	"runtime"
	"sync"
	"sync/atomic"
	"time"

	"github.com/kercylan98/vivid"
	"github.com/kercylan98/vivid/internal/mailbox"
)

type handler struct{ handled atomic.Int64 }

func (h *handler) HandleEnvelop(vivid.Envelop) { h.handled.Add(1) }

func main() {
	d, boxes := 4*time.Second, 4
	if len(os.Args) > 1 {
		if v, err := time.ParseDuration(os.Args[1]); err == nil {
			d = v
		}
	}
	if len(os.Args) > 2 {
		fmt.Sscan(os.Args[2], &boxes)
	}
	var wg sync.WaitGroup
	var mu sync.Mutex
	stop := time.Now().Add(d)
	for b := 0; b < boxes; b++ {
		wg.Add(1)
		go func(b int) {
			defer wg.Done()
			h := &handler{}
			mb := mailbox.NewUnboundedMailbox(8, h)
			quit := make(chan struct{})
			for p := 0; p < 2; p++ {
				go func() {
					for {
						select {
						case <-quit:
							return
						default:
							_ = mb.IsPaused()
						}
					}
				}()
			}
			defer close(quit)
			lost := false
			var n int64
			for time.Now().Before(stop) && !lost {
				n++
				mb.Enqueue(mailbox.NewEnvelop(false, nil, nil, "ping"))
				deadline := time.Time{}
				for spins := 0; h.handled.Load() < n; spins++ {
					if spins < 20000 {
						continue
					}
					if deadline.IsZero() {
						deadline = time.Now().Add(time.Second)
					} else if time.Now().After(deadline) {
						lost = true
						break
					}
					runtime.Gosched()
				}
			}
			line, _ := json.Marshal(map[string]any{"box": b, "n": n, "lost": lost})
			mu.Lock()
			fmt.Println(string(line))
			mu.Unlock()
		}(b)
	}
	wg.Wait()
}
