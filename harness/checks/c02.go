package checks

import (
	"encoding/json"
	"fmt"
	"math/rand"
	"strings"
	"sync"
	"time"

	"github.com/kercylan98/vivid/internal/queues"
	"github.com/kercylan98/vivid/verifharness/core"
	"github.com/kercylan98/vivid/verifharness/tlc"
)

func init() { register("C02", checkC02) }

type ringOp struct {
	Op string `json:"op"`
	N  int    `json:"n"`
	S  []int  `json:"s"`
}

var ringDefaults = map[string]any{"e": "", "x": 0, "n": 0, "ok": 0, "xs": []int{}, "len": 0}

// ringReplay runs an operation word on a real RingQueue and records what it returned.
func ringReplay(word []ringOp) (events []map[string]any, conform, mismatch int) {
	var q *queues.RingQueue
	for _, op := range word {
		switch op.Op {
		case "new":
			q = queues.New(int64(op.N))
			events = append(events, map[string]any{"e": "New", "n": op.N})
		case "push":
			q.Push(op.N)
			events = append(events, map[string]any{"e": "Push", "x": op.N, "len": int(q.Length())})
		case "pop":
			v, ok := q.Pop()
			e := map[string]any{"e": "Pop", "ok": b2i(ok), "len": int(q.Length())}
			if ok {
				if iv, isInt := v.(int); isInt {
					e["x"] = iv
				} else {
					e["x"] = -1 // not a value that was ever pushed (nil slot)
				}
			}
			events = append(events, e)
		case "popmany":
			vs, ok := q.PopMany(int64(op.N))
			xs := []int{}
			for _, v := range vs {
				if iv, isInt := v.(int); isInt {
					xs = append(xs, iv)
				} else {
					xs = append(xs, -1)
				}
			}
			events = append(events, map[string]any{"e": "PopMany", "n": op.N, "ok": b2i(ok), "xs": xs, "len": int(q.Length())})
		}
		if len(op.S) == 4 && q != nil {
			st := q.VerifState()
			if int(st.Head) == op.S[0] && int(st.Tail) == op.S[1] && int(st.Mod) == op.S[2] && int(st.Len) == op.S[3] {
				conform++
			} else {
				mismatch++
			}
		}
	}
	return
}

func b2i(b bool) int {
	if b {
		return 1
	}
	return 0
}

func ringWords(c *core.Ctx, dir, cfg string, extra []string, workers int) ([][]ringOp, error) {
	var words [][]ringOp
	var mu sync.Mutex
	var perr error
	r, err := tlc.Exec(tlc.Run{Dir: dir, Module: "MC_Ring", Config: cfg, Workers: workers, Timeout: 10 * time.Minute, Args: extra,
		OnLine: func(s string) {
			if !strings.HasPrefix(s, "WORD ") {
				return
			}
			var w []ringOp
			if err := json.Unmarshal([]byte(s[5:]), &w); err != nil {
				perr = err
				return
			}
			mu.Lock()
			words = append(words, w)
			mu.Unlock()
		}})
	if err != nil {
		return nil, err
	}
	if r.Violation != "" {
		return nil, fmt.Errorf("%s: %s\n%s", cfg, vio(r), tailOf(r))
	}
	if perr != nil {
		return nil, perr
	}
	if len(extra) == 0 {
		c.MC("MC_Ring(paths)/"+cfg, r)
	}
	return words, nil
}

// mbOrderScenario: many messages per sender, tiny rings (every growth boundary), system/user mixes.
func mbOrderScenario(rng *rand.Rand) *mbScenario {
	sc := &mbScenario{Callers: map[string][][]string{}, MsgScript: map[string][][]string{}}
	n := 0
	for s := 1; s <= 1+rng.Intn(4); s++ {
		var script [][]string
		for k := 0; k < 3+rng.Intn(12); k++ {
			n++
			id := fmt.Sprintf("m%d", n)
			if rng.Intn(3) == 0 {
				id = fmt.Sprintf("y%d", n)
				sc.Sys = append(sc.Sys, id)
			}
			sc.MsgScript[id] = nil
			if rng.Intn(8) == 0 {
				n++
				self := fmt.Sprintf("m%d", n)
				sc.MsgScript[self] = nil
				n++
				self2 := fmt.Sprintf("m%d", n)
				sc.MsgScript[self2] = nil
				sc.MsgScript[id] = [][]string{{"enq", self}, {"enq", self2}}
			}
			script = append(script, []string{"enq", id})
		}
		sc.Callers[fmt.Sprintf("s%d", s)] = script
	}
	if rng.Intn(3) == 0 {
		sc.Callers["p1"] = [][]string{{"pause"}, {"resume"}}
	}
	for i := 1; i <= 64; i++ {
		sc.Pool = append(sc.Pool, fmt.Sprintf("c%d", i))
	}
	sc.RingSize = []int64{1, 1, 2, 3, 4, 8}[rng.Intn(6)]
	return sc
}

func checkC02(c *core.Ctx) {
	dir, err := c.SpecDir("ring")
	if err != nil {
		c.Broken("spec dir: %v", err)
		return
	}
	// 1. the ring algorithm against a ghost FIFO, every word up to MaxOps
	r, err := tlc.Exec(tlc.Run{Dir: dir, Module: "Ring", Config: core.Pick(c, "MC_Ring_quick.cfg", "MC_Ring_thorough.cfg"), Timeout: 10 * time.Minute})
	if err != nil || r.Violation != "" {
		c.Broken("Ring model: %v %s\n%s", err, vio(r), tailOf(r))
		return
	}
	c.MC("Ring", r)
	// 2. every word of the small configuration + simulated long words, replayed on the real RingQueue
	words, err := ringWords(c, dir, core.Pick(c, "Gen_Ring_quick.cfg", "Gen_Ring_thorough.cfg"), nil, 1)
	if err != nil {
		c.Broken("ring word enumeration: %v", err)
		return
	}
	c.Set("ring_words_exhaustive", len(words))
	sim, err := ringWords(c, dir, "Gen_Ring_sim.cfg", []string{"-simulate", fmt.Sprintf("num=%d", core.Pick(c, 500, 5000)), "-depth", "62", "-seed", fmt.Sprint(c.Seed)}, 1)
	if err != nil {
		c.Broken("ring word simulation: %v", err)
		return
	}
	words = append(words, sim...)
	// 3. long random words around the real initial size 256 and its growth boundaries (not enumerable by TLC)
	rng := rand.New(rand.NewSource(c.Seed))
	for i := 0; i < core.Pick(c, 40, 400); i++ {
		size := []int{255, 256, 257, 511, 512, 64}[rng.Intn(6)]
		w := []ringOp{{Op: "new", N: size}}
		x := 0
		burst := 0
		for k := 0; k < 3000; k++ {
			if burst == 0 {
				burst = rng.Intn(700) - 350
			}
			switch {
			case burst > 0:
				x++
				w = append(w, ringOp{Op: "push", N: x})
				burst--
			case rng.Intn(6) == 0:
				w = append(w, ringOp{Op: "popmany", N: 1 + rng.Intn(300)})
				burst++
			default:
				w = append(w, ringOp{Op: "pop"})
				burst++
			}
		}
		words = append(words, w)
	}
	var traces []*Trace
	nontrivial := 0
	for i, w := range words {
		ev, cf, mm := ringReplay(w)
		c.Add("conformance_steps", int64(cf))
		c.Add("conformance_mismatch_steps", int64(mm))
		c.Add("ring_operations", int64(len(w)))
		grew := false
		for _, op := range w {
			if op.Op == "push" && len(op.S) == 4 && op.S[1] == op.S[2]/2 && op.S[0] == 0 && op.S[3] > 1 {
				grew = true
			}
		}
		if grew || len(w) > 1000 {
			nontrivial++
		}
		traces = append(traces, &Trace{Events: ev, Class: "ring", Name: fmt.Sprintf("word#%d", i), Scenario: map[string]any{"word": w}})
	}
	c.Add("evaluations", int64(len(words)))
	res := ValidateTraces(c, "ring", "RingMon", "RingMon.cfg", traces, ringDefaults)
	res.Report(c, "RingMon")
	c.Add("traces_validated_against_impl", int64(res.Validated))
	if len(traces) > 0 {
		c.Sample(map[string]any{"ring_word": head(traces[len(traces)/2].Events, 14)})
	}
	// 4. ordering through the real mailbox: per-sender FIFO and system-before-user under fine-grained schedules
	var mtraces []*Trace
	var mu sync.Mutex
	var wg sync.WaitGroup
	sem := make(chan struct{}, 12)
	for i := 0; i < core.Pick(c, 500, 6000); i++ {
		sc := mbOrderScenario(rng)
		seed := c.Seed*104729 + int64(i)
		wg.Add(1)
		sem <- struct{}{}
		go func(i int, sc *mbScenario, seed int64) {
			defer wg.Done()
			defer func() { <-sem }()
			run := runMailboxScenario(sc, nil, seed)
			mu.Lock()
			defer mu.Unlock()
			if run.Stuck != "" {
				c.Broken("mailbox ordering scenario %d: controller stuck: %s", i, run.Stuck)
				return
			}
			c.Add("evaluations", 1)
			c.Add("messages_handled", int64(run.Handled))
			if len(sc.Sys) > 0 && run.Handled > 6 {
				nontrivial++
			}
			mtraces = append(mtraces, &Trace{Events: run.Events, Class: "mailbox-order", Name: fmt.Sprintf("order#%d", i),
				Scenario: map[string]any{"scenario": sc, "seed": seed}})
		}(i, sc, seed)
	}
	// backlog scenarios: a long user backlog builds up first, then system messages arrive while the consumer is
	// in the middle of it (directed phases, then random)
	for i := 0; i < core.Pick(c, 40, 400); i++ {
		sc := &mbScenario{Callers: map[string][][]string{}, MsgScript: map[string][][]string{}, RingSize: []int64{1, 16, 256}[i%3]}
		nUser := 60 + rng.Intn(90)
		var s1 [][]string
		for k := 1; k <= nUser; k++ {
			id := fmt.Sprintf("m%d", k)
			sc.MsgScript[id] = nil
			s1 = append(s1, []string{"enq", id})
		}
		sc.Callers["s1"] = s1
		var s2 [][]string
		for k := 1; k <= 1+rng.Intn(3); k++ {
			id := fmt.Sprintf("y%d", k)
			sc.MsgScript[id] = nil
			sc.Sys = append(sc.Sys, id)
			s2 = append(s2, []string{"enq", id})
		}
		sc.Callers["s2"] = s2
		for k := 1; k <= 16; k++ {
			sc.Pool = append(sc.Pool, fmt.Sprintf("c%d", k))
		}
		sched := []mbStep{{T: "s1", Pc: "**"}, {T: "c?", Pc: "*", N: 3 + rng.Intn(6*nUser)}, {T: "s2", Pc: "**"}}
		seed := c.Seed*15485863 + int64(i)
		wg.Add(1)
		sem <- struct{}{}
		go func(i int, sc *mbScenario, sched []mbStep, seed int64) {
			defer wg.Done()
			defer func() { <-sem }()
			run := runMailboxScenario(sc, sched, seed)
			mu.Lock()
			defer mu.Unlock()
			if run.Stuck != "" {
				c.Broken("mailbox backlog scenario %d: controller stuck: %s", i, run.Stuck)
				return
			}
			c.Add("evaluations", 1)
			c.Add("messages_handled", int64(run.Handled))
			nontrivial++
			mtraces = append(mtraces, &Trace{Events: run.Events, Class: "mailbox-backlog", Name: fmt.Sprintf("backlog#%d", i),
				Scenario: map[string]any{"scenario": sc, "schedule": sched, "seed": seed}})
		}(i, sc, sched, seed)
	}
	wg.Wait()
	if c.IsBroken() {
		return
	}
	mres := ValidateTraces(c, "mailbox", "MailboxMon", "MailboxMon.cfg", mtraces, mbDefaults)
	mres.Report(c, "MailboxMon")
	c.Add("traces_validated_against_impl", int64(mres.Validated))
	if len(mtraces) > 0 {
		c.Sample(map[string]any{"mailbox_order_trace": head(mtraces[0].Events, 24)})
	}
	c.Set("distinct_nontrivial", int64(nontrivial))
	c.Set("rule", "actor level: ActorSys behaviours and random scenarios with stash/unstash, immediate and poison kills (turn-gated real actor system) judged by OrderMon (SendOrder, ImmediateKillOvertakes, PoisonKillAfterPrior, StashOrder). ring: every operation word over {push,pop,popmany(2),popmany(5)} of the small configuration (all initial sizes x all words of MaxOps operations, printed by TLC), TLC-simulated words of 60 operations over initial sizes 1..8 and random 3000-operation burst words around sizes 64/255/256/257/511/512 are executed on the real RingQueue; results judged by RingMon. mailbox: random scenarios with 1-4 senders x 3-14 messages, system/user mixes, handler self-sends, ring sizes 1..8 under seeded fine-grained schedules; judged by MailboxMon (SenderFIFO, SystemFirst). Non-trivial: the word crosses a growth boundary / the scenario mixes system and user messages with more than 6 deliveries.")
	// 5. kill ordering and stash ordering on the real actor system (turn-gated), judged by OrderMon
	asCheck(c, asPlan{prop: "C02", monitors: []string{"OrderMon"}, mc: []string{"MC_T3_" + asVariant + ".cfg"}, gen: []string{"Gen_T3S_" + asVariant + ".cfg"},
		ops: [][2]string{{"nop", ""}, {"nop", ""}, {"stash", ""}, {"stash", ""}, {"stash", ""}, {"unstash", ""}, {"kill", "@"}, {"pkill", "@"}, {"tell", "@"}, {"fail", ""},
			{"sched-stash", ""}, {"sched-stash", ""}, {"unstash", "1"}, {"unstash", "3"}, {"tellself", ""}},
		directed: asStashBatches})
}

// asStashBatches: k messages are stashed, Unstash(n) gives back a part of them (every n from 1 to k over the runs), more
// messages are stashed on top, the rest comes back in further batches.
func asStashBatches(rng *rand.Rand) (*asScenario, []asStep) {
	par := map[string]string{"t": "root", "a": "t", "b": "t"}
	sc := &asScenario{Parent: par, Names: []string{"a", "b", "t"}, Cfg: asConfig{Decision: map[string]string{}, Strategy: map[string]string{}}}
	for _, n := range sc.Names {
		sc.Cfg.Decision[n] = "resume"
		sc.Cfg.Strategy[n] = "ofo"
	}
	k := 2 + rng.Intn(8)
	steps := []asStep{{A: "spawn", X: "t"}, {A: "settle"}}
	for i := 0; i < k; i++ {
		steps = append(steps, asStep{A: "tell", X: "a", Op: "stash"})
	}
	if rng.Intn(3) == 0 {
		// the actor is restarted (or resumed) with a full stash: the stash belongs to the actor, not to the incarnation
		sc.Cfg.Decision["t"] = []string{"restart", "grestart", "resume"}[rng.Intn(3)]
		steps = append(steps, asStep{A: "settle"}, asStep{A: "tell", X: "a", Op: "fail"})
	}
	steps = append(steps, asStep{A: "settle"}, asStep{A: "tell", X: "a", Op: "unstash", Arg: fmt.Sprint(1 + rng.Intn(k))}, asStep{A: "settle"})
	for i := 0; i < rng.Intn(3); i++ {
		steps = append(steps, asStep{A: "tell", X: "a", Op: "stash"})
	}
	for i := 0; i < 3; i++ {
		steps = append(steps, asStep{A: "tell", X: "a", Op: "unstash", Arg: fmt.Sprint(1 + rng.Intn(k))}, asStep{A: "settle"})
	}
	steps = append(steps, asStep{A: "tell", X: "a", Op: "unstash", Arg: "100"}, asStep{A: "settle"})
	return sc, steps
}
