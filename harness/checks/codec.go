package checks

import (
	"bufio"
	"bytes"
	"encoding/binary"
	"encoding/json"
	"errors"
	"fmt"
	"math"
	"math/rand"
	"net"
	"os"
	"os/exec"
	"path/filepath"
	"reflect"
	"runtime"
	"sort"
	"strings"
	"time"

	"github.com/kercylan98/vivid"
	"github.com/kercylan98/vivid/internal/actor"
	"github.com/kercylan98/vivid/internal/cluster"
	"github.com/kercylan98/vivid/internal/mailbox"
	"github.com/kercylan98/vivid/internal/messages"
	"github.com/kercylan98/vivid/internal/remoting"
	"github.com/kercylan98/vivid/internal/remoting/serialize"
	"github.com/kercylan98/vivid/verifharness/core"
	"github.com/kercylan98/vivid/verifharness/tlc"
)

func init() {
	register("C12", checkC12)
	register("C13", checkC13)
	subcommands["codec-child"] = codecChild
}

var codecDefaults = map[string]any{"e": "", "c": "", "v": 0, "n": 0, "m": 0, "k": 0, "s": "", "a": 1}

type wireCases struct {
	RT []struct {
		Kind      string `json:"kind"`
		Class     string `json:"class"`
		Container string `json:"container"`
		Width     int    `json:"width"`
	} `json:"rt"`
	Variants []struct {
		Name  string `json:"name"`
		Field int    `json:"field"`
	} `json:"variants"`
	Envelopes []struct {
		System   bool   `json:"system"`
		Sender   string `json:"sender"`
		Receiver string `json:"receiver"`
		Msg      string `json:"msg"`
	} `json:"envelopes"`
	Faults []struct {
		Kind string `json:"kind"`
		A    string `json:"a"`
		B    string `json:"b"`
	} `json:"faults"`
	Unsupported []string `json:"unsupported"`
}

func loadWireCases(c *core.Ctx) (*wireCases, bool) {
	dir, err := c.SpecDir("wire")
	if err != nil {
		c.Broken("spec dir: %v", err)
		return nil, false
	}
	r, err := tlc.Exec(tlc.Run{Dir: dir, Module: "Wire", Config: "Wire.cfg", Workers: 1, Timeout: 3 * time.Minute})
	if err != nil || r.Violation != "" {
		c.Broken("Wire.tla: %v %s\n%s", err, vio(r), tailOf(r))
		return nil, false
	}
	c.MC("Wire", r)
	b, err := os.ReadFile(filepath.Join(dir, "cases.json"))
	if err != nil {
		c.Broken("cases.json: %v", err)
		return nil, false
	}
	wc := &wireCases{}
	if err := json.Unmarshal(b, wc); err != nil {
		c.Broken("cases.json: %v", err)
		return nil, false
	}
	return wc, true
}

// ---------------------------------------------------------------- leaf values

var leafTypes = map[string]reflect.Type{
	"u8": reflect.TypeOf(uint8(0)), "i8": reflect.TypeOf(int8(0)), "u16": reflect.TypeOf(uint16(0)), "i16": reflect.TypeOf(int16(0)),
	"u32": reflect.TypeOf(uint32(0)), "i32": reflect.TypeOf(int32(0)), "u64": reflect.TypeOf(uint64(0)), "i64": reflect.TypeOf(int64(0)),
	"f32": reflect.TypeOf(float32(0)), "f64": reflect.TypeOf(float64(0)), "bool": reflect.TypeOf(false),
	"string": reflect.TypeOf(""), "bytes": reflect.TypeOf([]byte(nil)),
}

func leafValue(kind, class string) reflect.Value {
	t := leafTypes[kind]
	v := reflect.New(t).Elem()
	switch kind {
	case "string":
		v.SetString(map[string]string{"empty": "", "one": "a", "long": strings.Repeat("x", 5000), "nonascii": "aé✓b"}[class])
	case "bytes":
		v.SetBytes(map[string][]byte{"empty": {}, "one": {1}, "long": bytes.Repeat([]byte{0xAB}, 5000), "nonascii": {0, 255, 128, 127, 1, 254, 10}}[class])
	case "bool":
		v.SetBool(class == "one")
	case "f32", "f64":
		x := map[string]float64{"zero": 0, "one": 1, "max": math.MaxFloat64, "min": -math.SmallestNonzeroFloat64}[class]
		if kind == "f32" {
			x = map[string]float64{"zero": 0, "one": 1, "max": math.MaxFloat32, "min": -math.SmallestNonzeroFloat32}[class]
		}
		v.SetFloat(x)
	default:
		bits := t.Bits()
		if strings.HasPrefix(kind, "u") {
			x := map[string]uint64{"zero": 0, "one": 1, "max": math.MaxUint64 >> (64 - bits), "min": 0}[class]
			v.SetUint(x)
		} else {
			mx := int64(math.MaxInt64 >> (64 - bits))
			x := map[string]int64{"zero": 0, "one": 1, "max": mx, "min": -mx - 1}[class]
			v.SetInt(x)
		}
	}
	return v
}

// containerValue places a leaf value in the container of the case.
func containerValue(kind, class, cont string) reflect.Value {
	leaf := leafValue(kind, class)
	lt := leaf.Type()
	st := reflect.StructOf([]reflect.StructField{{Name: "A", Type: reflect.TypeOf(uint8(0))}, {Name: "V", Type: lt}, {Name: "S", Type: reflect.TypeOf("")}})
	mkStruct := func() reflect.Value {
		s := reflect.New(st).Elem()
		s.Field(0).SetUint(7)
		s.Field(1).Set(leaf)
		s.Field(2).SetString("xyz")
		return s
	}
	switch cont {
	case "direct":
		return leaf
	case "ptr":
		p := reflect.New(lt)
		p.Elem().Set(leaf)
		return p
	case "slice0", "slice1", "slice3":
		n := map[string]int{"slice0": 0, "slice1": 1, "slice3": 3}[cont]
		s := reflect.MakeSlice(reflect.SliceOf(lt), n, n)
		for i := 0; i < n; i++ {
			s.Index(i).Set(leaf)
		}
		return s
	case "array2":
		a := reflect.New(reflect.ArrayOf(2, lt)).Elem()
		a.Index(0).Set(leaf)
		a.Index(1).Set(leaf)
		return a
	case "field":
		return mkStruct()
	case "nested":
		s := reflect.MakeSlice(reflect.SliceOf(st), 2, 2)
		s.Index(0).Set(mkStruct())
		s.Index(1).Set(mkStruct())
		return s
	case "slices":
		inner := reflect.SliceOf(lt)
		s := reflect.MakeSlice(reflect.SliceOf(inner), 3, 3)
		for i := 0; i < 3; i++ {
			e := reflect.MakeSlice(inner, i, i)
			for k := 0; k < i; k++ {
				e.Index(k).Set(leaf)
			}
			s.Index(i).Set(e)
		}
		return s
	case "inner":
		it := reflect.StructOf([]reflect.StructField{{Name: "A", Type: reflect.TypeOf(uint8(0))}, {Name: "V", Type: reflect.SliceOf(lt)}, {Name: "S", Type: reflect.TypeOf("")}})
		v := reflect.New(it).Elem()
		v.Field(0).SetUint(9)
		e := reflect.MakeSlice(reflect.SliceOf(lt), 2, 2)
		e.Index(0).Set(leaf)
		e.Index(1).Set(leaf)
		v.Field(1).Set(e)
		v.Field(2).SetString("end")
		return v
	case "arrays":
		at := reflect.ArrayOf(2, lt)
		a := reflect.New(reflect.ArrayOf(2, at)).Elem()
		for i := 0; i < 2; i++ {
			for k := 0; k < 2; k++ {
				a.Index(i).Index(k).Set(leaf)
			}
		}
		return a
	case "hidden":
		return hiddenSlice(kind, leaf)
	case "zerow":
		return reflect.ValueOf([]struct{}{{}, {}, {}})
	case "zerowh":
		return reflect.ValueOf([]onlyHidden{{}, {}})
	}
	return leaf
}

// hid is an element type with an unexported field: the writer skips it, so an element is as small on the wire as
// its exported field alone while it is much larger in memory.
type hid[T any] struct {
	V      T
	hidden [4]int64
}
type onlyHidden struct{ hidden int64 }

func hidOf[T any](leaf reflect.Value) reflect.Value {
	x := leaf.Interface().(T)
	return reflect.ValueOf([]hid[T]{{V: x}, {V: x}})
}

func hiddenSlice(kind string, leaf reflect.Value) reflect.Value {
	switch kind {
	case "u8":
		return hidOf[uint8](leaf)
	case "i8":
		return hidOf[int8](leaf)
	case "u16":
		return hidOf[uint16](leaf)
	case "i16":
		return hidOf[int16](leaf)
	case "u32":
		return hidOf[uint32](leaf)
	case "i32":
		return hidOf[int32](leaf)
	case "u64":
		return hidOf[uint64](leaf)
	case "i64":
		return hidOf[int64](leaf)
	case "f32":
		return hidOf[float32](leaf)
	case "f64":
		return hidOf[float64](leaf)
	case "bool":
		return hidOf[bool](leaf)
	case "string":
		return hidOf[string](leaf)
	}
	return hidOf[[]byte](leaf)
}

// semEqual is the semantic equality the property speaks about: nil and empty slices/maps are the same,
// floats compare by bits, times by instant, references by address and path, errors by text.
func semEqual(a, b reflect.Value) bool {
	if !a.IsValid() || !b.IsValid() {
		return a.IsValid() == b.IsValid()
	}
	if a.Type() != b.Type() {
		return false
	}
	if t, ok := a.Interface().(time.Time); a.CanInterface() && ok {
		return t.Equal(b.Interface().(time.Time))
	}
	if vv, ok := a.Interface().(cluster.VersionVector); a.CanInterface() && ok {
		o := b.Interface().(cluster.VersionVector)
		return vv.Compare(o) == cluster.VersionEqual && vv.Size() == o.Size()
	}
	switch a.Kind() {
	case reflect.Float32, reflect.Float64:
		return math.Float64bits(a.Float()) == math.Float64bits(b.Float())
	case reflect.Slice, reflect.Map:
		if a.Len() != b.Len() {
			return false
		}
		if a.Kind() == reflect.Map {
			for _, k := range a.MapKeys() {
				if !semEqual(a.MapIndex(k), b.MapIndex(k)) {
					return false
				}
			}
			return true
		}
		for i := 0; i < a.Len(); i++ {
			if !semEqual(a.Index(i), b.Index(i)) {
				return false
			}
		}
		return true
	case reflect.Array:
		for i := 0; i < a.Len(); i++ {
			if !semEqual(a.Index(i), b.Index(i)) {
				return false
			}
		}
		return true
	case reflect.Struct:
		for i := 0; i < a.NumField(); i++ {
			if a.Type().Field(i).PkgPath != "" {
				continue
			}
			if !semEqual(a.Field(i), b.Field(i)) {
				return false
			}
		}
		return true
	case reflect.Pointer:
		if a.IsNil() || b.IsNil() {
			return a.IsNil() == b.IsNil()
		}
		return semEqual(a.Elem(), b.Elem())
	case reflect.Interface:
		if a.IsNil() || b.IsNil() {
			return a.IsNil() == b.IsNil()
		}
		if ra, ok := a.Interface().(vivid.ActorRef); ok {
			rb, ok2 := b.Interface().(vivid.ActorRef)
			return ok2 && ra.GetAddress() == rb.GetAddress() && ra.GetPath() == rb.GetPath()
		}
		if ea, ok := a.Interface().(error); ok {
			eb, ok2 := b.Interface().(error)
			if !ok2 {
				return false
			}
			var va, vb *vivid.Error
			if errors.As(ea, &va) && errors.As(eb, &vb) {
				return va.GetCode() == vb.GetCode()
			}
			return ea.Error() == eb.Error()
		}
		return semEqual(a.Elem(), b.Elem())
	}
	return a.Interface() == b.Interface()
}

// rtRun executes one primitive round-trip case on the real writer and reader.
func rtRun(kind, class, cont string) (equal, consumed bool, written int, err error) {
	v := containerValue(kind, class, cont)
	w := messages.NewWriter()
	if err = w.WriteFrom(v.Interface()); err != nil {
		return false, false, 0, fmt.Errorf("write: %w", err)
	}
	data := append([]byte{}, w.Bytes()...)
	target := reflect.New(v.Type())
	if cont == "ptr" {
		target = reflect.New(v.Type().Elem())
	}
	r := messages.NewReader(data)
	if err = r.Read(target.Interface()); err != nil {
		return false, false, len(data), fmt.Errorf("read: %w", err)
	}
	got := target.Elem()
	want := v
	if cont == "ptr" {
		want = v.Elem()
	}
	return semEqual(want, got), r.RemainingSize() == 0, len(data), nil
}

// ---------------------------------------------------------------- registered messages

type fillCtx struct {
	variant string     // all-zero | all-one | all-extreme | single-extreme
	field   int        // for single-extreme: which leaf (1-based) is extreme
	n       int        // leaf counter
	ints    int        // fields of Go type int met (they travel as int32)
	rng     *rand.Rand // variant "mixed": the class of every leaf is drawn from it
}

func (f *fillCtx) classFor() string {
	f.n++
	switch f.variant {
	case "all-zero":
		return "zero"
	case "all-one", "int-beyond-int32":
		return "one"
	case "all-extreme":
		return "extreme"
	case "mixed":
		return []string{"zero", "one", "extreme"}[f.rng.Intn(3)]
	}
	if f.n == f.field {
		return "extreme"
	}
	return "one"
}

var errUnsettable = errors.New("message type has fields the harness cannot set")

// fill assigns values to every exported leaf of v according to the variant.
func fill(v reflect.Value, f *fillCtx, depth int) error {
	if depth > 6 {
		return nil
	}
	if !v.CanSet() {
		return errUnsettable
	}
	switch v.Interface().(type) {
	case time.Time:
		cls := f.classFor()
		v.Set(reflect.ValueOf(map[string]time.Time{"zero": time.Unix(0, 0), "one": time.Unix(1, 1), "extreme": time.Unix(0, math.MaxInt64)}[cls]))
		return nil
	case time.Duration:
		cls := f.classFor()
		v.SetInt(map[string]int64{"zero": 0, "one": 1, "extreme": math.MaxInt64}[cls])
		return nil
	case cluster.VersionVector:
		cls := f.classFor()
		vv := cluster.NewVersionVector()
		if cls != "zero" {
			vv = vv.MustIncrement("node-a")
		}
		if cls == "extreme" {
			for i := 0; i < 5; i++ {
				vv = vv.MustIncrement("nöde-b")
			}
		}
		v.Set(reflect.ValueOf(vv))
		return nil
	}
	switch v.Kind() {
	case reflect.Bool:
		v.SetBool(f.classFor() != "zero")
	case reflect.Int, reflect.Int8, reflect.Int16, reflect.Int32, reflect.Int64:
		cls := f.classFor()
		bits := v.Type().Bits()
		if v.Kind() == reflect.Int {
			bits = 32 // int fields travel as int32 on the wire
		}
		if v.Type().Name() == "MemberStatus" {
			bits = 4
		}
		if v.Kind() == reflect.Int && v.Type().Name() == "int" {
			f.ints++
			if f.variant == "int-beyond-int32" {
				v.SetInt(math.MaxInt32 + 1)
				return nil
			}
		}
		v.SetInt(map[string]int64{"zero": 0, "one": 1, "extreme": int64(math.MaxInt64 >> (64 - bits))}[cls])
	case reflect.Uint, reflect.Uint8, reflect.Uint16, reflect.Uint32, reflect.Uint64:
		cls := f.classFor()
		v.SetUint(map[string]uint64{"zero": 0, "one": 1, "extreme": math.MaxUint64 >> (64 - v.Type().Bits())}[cls])
	case reflect.Float32, reflect.Float64:
		v.SetFloat(map[string]float64{"zero": 0, "one": 1, "extreme": math.MaxFloat32}[f.classFor()])
	case reflect.String:
		v.SetString(map[string]string{"zero": "", "one": "a", "extreme": strings.Repeat("ä✓z", 100)}[f.classFor()])
	case reflect.Slice:
		cls := f.classFor()
		n := map[string]int{"zero": 0, "one": 1, "extreme": 3}[cls]
		if v.Type().Elem().Kind() == reflect.Uint8 {
			v.SetBytes(bytes.Repeat([]byte{0xC3}, n*100))
			return nil
		}
		s := reflect.MakeSlice(v.Type(), n, n)
		for i := 0; i < n; i++ {
			sub := &fillCtx{variant: "all-one"}
			if f.variant == "mixed" {
				sub = &fillCtx{variant: "mixed", rng: f.rng}
			}
			if err := fill(s.Index(i), sub, depth+1); err != nil {
				return err
			}
		}
		v.Set(s)
	case reflect.Map:
		cls := f.classFor()
		if cls == "zero" {
			return nil
		}
		m := reflect.MakeMap(v.Type())
		n := map[string]int{"one": 1, "extreme": 3}[cls]
		for i := 0; i < n; i++ {
			k := reflect.New(v.Type().Key()).Elem()
			e := reflect.New(v.Type().Elem()).Elem()
			if k.Kind() != reflect.String {
				return errUnsettable
			}
			k.SetString(fmt.Sprintf("k%dé", i))
			if e.Kind() == reflect.String {
				e.SetString(fmt.Sprintf("v%d", i))
			} else if err := fill(e, &fillCtx{variant: map[string]string{"one": "all-one", "extreme": "all-extreme"}[cls]}, depth+1); err != nil {
				return err
			}
			m.SetMapIndex(k, e)
		}
		v.Set(m)
	case reflect.Pointer:
		cls := f.classFor()
		if cls == "zero" && f.variant == "mixed" {
			cls = "one" // nil fields belong to the all-zero variant (an encoder may refuse them): mixed vectors keep every field set
		}
		if cls == "zero" {
			return nil
		}
		p := reflect.New(v.Type().Elem())
		if err := fill(p.Elem(), f, depth+1); err != nil {
			return err
		}
		v.Set(p)
	case reflect.Struct:
		for i := 0; i < v.NumField(); i++ {
			if v.Type().Field(i).PkgPath != "" {
				continue
			}
			if err := fill(v.Field(i), f, depth+1); err != nil {
				return err
			}
		}
	case reflect.Interface:
		cls := f.classFor()
		if cls == "zero" && f.variant == "mixed" {
			cls = "one"
		}
		if cls == "zero" {
			return nil
		}
		switch v.Type() {
		case reflect.TypeOf((*vivid.ActorRef)(nil)).Elem():
			r, _ := actor.NewRef(map[string]string{"one": "localhost", "extreme": "node-1.example.org:65535"}[cls], map[string]string{"one": "/a", "extreme": "/a/b/c%20d/" + strings.Repeat("x", 200)}[cls])
			v.Set(reflect.ValueOf(r))
		case reflect.TypeOf((*error)(nil)).Elem():
			v.Set(reflect.ValueOf(error(vivid.ErrorFutureTimeout)))
		default:
			// a Message field: a nested registered message
			v.Set(reflect.ValueOf(&vivid.OnKill{Reason: "nested", Poison: cls == "extreme"}))
		}
	default:
		return errUnsettable
	}
	return nil
}

// mixedSeed shifts the draws of the "mixed" variants (set from VERIF_SEED and, in the thorough tier, per repetition)
var mixedSeed int64

type msgCaseResult struct {
	name            string
	leaves          int
	equal, consumed bool
	skipped         string
	panicked        bool
	encodeRefused   bool
	encoded         []byte
}

// msgRoundTrip builds a value of the registered message type, sends it through the real envelope codec and compares.
func msgRoundTrip(reg messages.VerifRegistered, variant string, field int) msgCaseResult {
	return msgRoundTripAfter(reg, variant, field, false)
}

// msgRoundTripAfter is msgRoundTrip; with afterBad the decoder is first given a truncated copy of the same encoding
// (which it must refuse) so that state kept between decodes (pooled readers) is exercised.
func msgRoundTripAfter(reg messages.VerifRegistered, variant string, field int, afterBad bool) msgCaseResult {
	res := msgCaseResult{name: reg.Name}
	p := reflect.New(reg.Type)
	f := &fillCtx{variant: variant, field: field}
	if variant == "mixed" {
		h := int64(field) * 1000003
		for _, ch := range reg.Name {
			h = h*31 + int64(ch)
		}
		f.rng = rand.New(rand.NewSource(h + mixedSeed))
	}
	if reg.Name == "clusterSingletonForwardedMessage" {
		// unexported fields: built through the guarded constructor
		p = reflect.ValueOf(singletonForwardedFor(f))
	} else if err := fill(p.Elem(), f, 0); err != nil {
		res.skipped = err.Error()
		return res
	}
	res.leaves = f.n
	if variant == "int-beyond-int32" && f.ints == 0 {
		res.skipped = "no such leaf"
		return res
	}
	if variant == "single-extreme" && field > f.n {
		res.skipped = "no such leaf"
		return res
	}
	sender, _ := actor.NewRef("10.0.0.1:8000", "/s")
	recv, _ := actor.NewRef("localhost", "/r")
	env := mailbox.NewEnvelop(true, sender, recv, p.Interface())
	data, err := func() (d []byte, e error) {
		defer func() {
			if r := recover(); r != nil {
				e = fmt.Errorf("encode panicked: %v", r)
				res.panicked = true
			}
		}()
		return serialize.EncodeEnvelopWithRemoting(nil, env)
	}()
	if res.panicked {
		res.skipped = err.Error()
		return res
	}
	if err != nil {
		// the zero value has nil fields: an error is the documented answer (C13); every other variant
		// has all fields set to supported values, so a refusal to encode is a round-trip failure
		if variant == "all-zero" {
			res.skipped = "encode: " + err.Error()
			res.encodeRefused = true
		}
		return res
	}
	res.encoded = data
	if afterBad {
		for _, cut := range []int{len(data) / 2, len(data) - 1, 3} {
			if cut > 0 && cut < len(data) {
				_, _, _, _, _, _, _ = serialize.DecodeEnvelopWithRemoting(nil, data[:cut])
			}
		}
	}
	system, sa, sp, ra, rp, inst, err := serialize.DecodeEnvelopWithRemoting(nil, data)
	if err != nil {
		return res
	}
	res.consumed = true // DecodeEnvelopWithRemoting reads the whole envelope; trailing bytes are checked separately below
	res.equal = system && sa == "10.0.0.1:8000" && sp == "/s" && ra == "localhost" && rp == "/r" &&
		inst != nil && msgEqual(p.Interface(), inst)
	// the message writer/reader pair alone must consume exactly what it wrote
	w := messages.NewWriter()
	if err := w.WriteMessage(p.Interface(), nil); err == nil {
		r := messages.NewReader(append([]byte{}, w.Bytes()...))
		if _, err := r.ReadMessage(nil); err != nil || r.RemainingSize() != 0 {
			res.consumed = false
		}
	} else {
		res.consumed = false
	}
	return res
}

func singletonForwardedFor(f *fillCtx) any {
	var sender vivid.ActorRef
	addr, path := "", ""
	var msg vivid.Message
	switch f.classFor() { // sender
	case "one":
		sender, _ = actor.NewRef("localhost", "/a")
	case "extreme":
		addr, path = "node-1.example.org:65535", "/a/"+strings.Repeat("ü", 100)
	}
	mcls := f.classFor()
	if mcls == "zero" && f.variant == "mixed" {
		mcls = "one"
	}
	switch mcls { // message
	case "one":
		msg = &vivid.OnKill{Reason: "x"}
	case "extreme":
		msg = &messages.PingMessage{Time: time.Unix(0, math.MaxInt64)}
	}
	return cluster.VerifNewSingletonForwarded(sender, addr, path, msg)
}

func msgEqual(want, got any) bool {
	if a, p, m, ok := cluster.VerifSingletonForwardedParts(want); ok {
		a2, p2, m2, ok2 := cluster.VerifSingletonForwardedParts(got)
		return ok2 && a == a2 && p == p2 && semEqual(reflect.ValueOf(m), reflect.ValueOf(m2))
	}
	return semEqual(reflect.ValueOf(want), reflect.ValueOf(got))
}

// ---------------------------------------------------------------- C12

func checkC12(c *core.Ctx) {
	c.Ev.Level = "other"
	ensureRmsg()
	wc, ok := loadWireCases(c)
	if !ok {
		return
	}
	var events []map[string]any
	mismatchWidth := 0
	for _, rc := range wc.RT {
		name := fmt.Sprintf("rt:%s/%s/%s", rc.Kind, rc.Class, rc.Container)
		eq, cons, written, err := rtRun(rc.Kind, rc.Class, rc.Container)
		if err != nil {
			eq, cons = false, false
		}
		if written != rc.Width {
			mismatchWidth++
		}
		events = append(events, map[string]any{"e": "RT", "c": name, "v": b2i(eq), "n": b2i(cons), "m": rc.Width, "k": written})
		c.Add("evaluations", 1)
	}
	c.Set("model_width_mismatches", mismatchWidth)
	regs := messages.VerifRegisteredMessages()
	skipped := map[string]string{}
	names := []string{}
	for _, reg := range regs {
		names = append(names, reg.Name)
		for _, v := range wc.Variants {
			if v.Name == "mixed" {
				// each "mixed" variant stands for core.Pick repetitions with different draws
				for rep := 0; rep < core.Pick(c, 1, 200); rep++ {
					mixedSeed = c.Seed*7919 + int64(rep)*104729
					res := msgRoundTrip(reg, v.Name, v.Field)
					if res.skipped != "" || res.panicked {
						continue
					}
					events = append(events, map[string]any{"e": "RT", "c": fmt.Sprintf("msg:%s/mixed/%d.%d", reg.Name, v.Field, rep), "v": b2i(res.equal), "n": b2i(res.consumed), "m": -1, "k": len(res.encoded)})
					c.Add("evaluations", 1)
				}
				continue
			}
			res := msgRoundTrip(reg, v.Name, v.Field)
			if res.panicked {
				c.Add("encode_panics_left_to_C13", 1)
				continue
			}
			if res.encodeRefused {
				c.Add("zero_values_refused_by_encoder", 1)
				continue
			}
			if res.skipped != "" {
				if res.skipped != "no such leaf" {
					skipped[reg.Name] = res.skipped
				}
				continue
			}
			events = append(events, map[string]any{"e": "RT", "c": fmt.Sprintf("msg:%s/%s/%d", reg.Name, v.Name, v.Field), "v": b2i(res.equal), "n": b2i(res.consumed), "m": -1, "k": len(res.encoded)})
			c.Add("evaluations", 1)
			if v.Name == "all-one" || v.Name == "all-extreme" {
				// the same round trip right after the decoder has refused truncated copies of this encoding
				res2 := msgRoundTripAfter(reg, v.Name, v.Field, true)
				events = append(events, map[string]any{"e": "RT", "c": fmt.Sprintf("msg-after-refused-input:%s/%s", reg.Name, v.Name), "v": b2i(res2.equal), "n": b2i(res2.consumed), "m": -1, "k": len(res2.encoded)})
				c.Add("evaluations", 1)
			}
		}
	}
	c.Set("registered_messages", names)
	if len(skipped) > 0 {
		c.Set("messages_not_materialised", skipped)
	}
	// envelopes
	rng := randSrc(c.Seed)
	for _, ec := range wc.Envelopes {
		var sender, recv vivid.ActorRef
		switch ec.Sender {
		case "local":
			sender, _ = actor.NewRef("localhost", "/snd")
		case "remote":
			sender, _ = actor.NewRef("192.168.1.2:9000", "/snd/x")
		}
		if ec.Receiver == "present" {
			recv, _ = actor.NewRef("node.example.org:1", "/rcv")
		}
		var msg vivid.Message = &vivid.OnLaunch{}
		if ec.Msg == "custom" {
			msg = newRmsg(77, "tell", 33, rng)
		}
		data, err := serialize.EncodeEnvelopWithRemoting(nil, mailbox.NewEnvelop(ec.System, sender, recv, msg))
		eq := false
		if err == nil {
			system, sa, sp, ra, rp, inst, derr := serialize.DecodeEnvelopWithRemoting(nil, data)
			wantSA, wantSP, wantRA, wantRP := "", "", "", ""
			if sender != nil {
				wantSA, wantSP = sender.GetAddress(), sender.GetPath()
			}
			if recv != nil {
				wantRA, wantRP = recv.GetAddress(), recv.GetPath()
			}
			eq = derr == nil && system == ec.System && sa == wantSA && sp == wantSP && ra == wantRA && rp == wantRP && semEqual(reflect.ValueOf(msg), reflect.ValueOf(inst))
		}
		events = append(events, map[string]any{"e": "RT", "c": fmt.Sprintf("env:%v/%s/%s/%s", ec.System, ec.Sender, ec.Receiver, ec.Msg), "v": b2i(eq), "n": 1, "m": -1, "k": len(data)})
		c.Add("evaluations", 1)
	}
	// messages nested in messages (PipeResult carrying a PipeResult ...): whatever the encoder accepts comes back equal.
	// (The encoder refuses nesting beyond a limit; a refusal is C13's business, a silent difference would be C12's.)
	for _, depth := range []int{1, 2, 5, 16, 31, 32, 33, 40} {
		var m vivid.Message = newRmsg(5, "tell", 9, rand.New(rand.NewSource(int64(depth))))
		for i := 0; i < depth; i++ {
			m = &vivid.PipeResult{Id: fmt.Sprintf("p%d", i), Message: m}
		}
		snd, _ := actor.NewRef("10.1.1.1:7000", "/s")
		rcv, _ := actor.NewRef("10.1.1.2:7000", "/r")
		data, err := serialize.EncodeEnvelopWithRemoting(nil, mailbox.NewEnvelop(false, snd, rcv, m))
		if err != nil {
			c.Add("nested_messages_refused_by_the_encoder", 1)
			continue
		}
		_, _, _, _, _, inst, derr := serialize.DecodeEnvelopWithRemoting(nil, data)
		eq := derr == nil && semEqual(reflect.ValueOf(m), reflect.ValueOf(inst))
		events = append(events, map[string]any{"e": "RT", "c": fmt.Sprintf("nested:%d", depth), "v": b2i(eq), "n": 1, "m": -1, "k": len(data)})
		c.Add("evaluations", 1)
	}
	var traces []*Trace
	for _, e := range events {
		cls := "roundtrip"
		if strings.Contains(fmt.Sprint(e["c"]), "/int-beyond-int32/") {
			cls = "roundtrip-int-field-beyond-int32"
		}
		traces = append(traces, &Trace{Events: []map[string]any{e}, Class: cls, Name: fmt.Sprint(e["c"]), Scenario: e})
	}
	res := ValidateTraces(c, "wire", "CodecMon", "CodecMon.cfg", traces, codecDefaults)
	res.Report(c, "CodecMon")
	c.Add("traces_validated_against_impl", int64(res.Validated))
	c.Set("distinct_nontrivial", len(events))
	c.Set("exhaustive", true)
	c.Set("explanation", "Wire.tla defines the wire grammar and enumerates (TLC) the case matrix: every primitive/blob kind x value class {zero, one, max, min / empty, one, long, non-ASCII} x container {direct, pointer, empty/1/3-element slice, array, struct field, slice of structs}; value-class vectors {all-zero, all-one, all-extreme, single-field-extreme} for every message type of the real wire registry (materialised by reflection); every envelope combination of system flag x sender {absent, local, remote} x receiver {absent, present} x {built-in, custom message}. Each case is encoded and decoded with the real writer/reader/envelope codec; CodecMon (TLC) requires semantic equality and that the reader consumes exactly the written bytes. The model's token widths are compared with the real encodings (conformance statistic).")
	c.Set("rule", "see explanation; distinct by case name")
	for i := 0; i < len(events) && i < 3; i++ {
		c.Sample(events[i*len(events)/3])
	}
	c.Assume("value classes, not all values: TLC does not reason about Go arithmetic; int fields that travel as int32 are exercised within the int32 range")
}

// ---------------------------------------------------------------- C13 (child processes)

type totCase struct {
	ID    string `json:"id"`
	Group string `json:"group"` // "fault" | "unsupported"
	Base  string `json:"base"`  // "msg:<name>" | "rt:<kind>/<class>/<container>" | "view"
	Fault string `json:"fault"` // "truncate:3", "length:2:65536", "flip:mid", "unknown-name"
	Kind  string `json:"kind"`  // unsupported kind
}

type totResult struct {
	ID      string `json:"id"`
	Outcome string `json:"outcome"`
	Input   int    `json:"input"`
	Alloc   int64  `json:"alloc"`
	Touched int    `json:"touched"`
	After   int    `json:"after"` // 1 = the valid base encoding decodes correctly right after the faulty one
	Detail  string `json:"detail,omitempty"`
}

func regByName(name string) (messages.VerifRegistered, bool) {
	for _, r := range messages.VerifRegisteredMessages() {
		if r.Name == name {
			return r, true
		}
	}
	return messages.VerifRegistered{}, false
}

// lengthOffsets returns the offsets of the first length tokens of an encoded envelope: payload, name, sender address.
func envelopeLengthOffsets(data []byte) []int {
	var offs []int
	if len(data) < 4 {
		return offs
	}
	offs = append(offs, 0)
	pl := int(binary.BigEndian.Uint32(data))
	o := 4 + pl
	if o+4 > len(data) {
		return offs
	}
	offs = append(offs, o)
	nl := int(binary.BigEndian.Uint32(data[o:]))
	o += 4 + nl + 1
	if o+4 <= len(data) {
		offs = append(offs, o)
	}
	return offs
}

func applyFault(data []byte, fault string, lenOffs []int) ([]byte, bool) {
	parts := strings.Split(fault, ":")
	out := append([]byte{}, data...)
	switch parts[0] {
	case "truncate":
		pos := 0
		switch parts[1] {
		case "mid":
			pos = len(data) / 2
		case "last":
			pos = len(data) - 1
		default:
			fmt.Sscan(parts[1], &pos)
		}
		if pos < 0 || pos >= len(data) {
			return nil, false
		}
		return out[:pos], true
	case "length":
		var t int
		fmt.Sscan(parts[1], &t)
		if t < 1 || t > len(lenOffs) {
			return nil, false
		}
		o := lenOffs[t-1]
		cur := binary.BigEndian.Uint32(out[o:])
		var nv uint32
		switch parts[2] {
		case "0":
			nv = 0
		case "minus1":
			nv = cur - 1
		case "plus1":
			nv = cur + 1
		case "65536":
			nv = 65536
		case "2^31":
			nv = 1 << 31
		default:
			nv = math.MaxUint32
		}
		if nv == cur {
			return nil, false
		}
		binary.BigEndian.PutUint32(out[o:], nv)
		return out, true
	case "flip":
		if len(out) == 0 {
			return nil, false
		}
		pos := map[string]int{"first": 0, "mid": len(out) / 2, "last": len(out) - 1}[parts[1]]
		out[pos] ^= 0xFF
		return out, true
	case "length-pad":
		var t int
		fmt.Sscan(parts[1], &t)
		if t < 1 || t > len(lenOffs) {
			return nil, false
		}
		binary.BigEndian.PutUint32(out[lenOffs[t-1]:], 65536)
		return append(out, make([]byte, 70000)...), true
	case "none":
		return out, true
	case "xorat":
		var pos, mask int
		fmt.Sscan(parts[1], &pos)
		fmt.Sscan(parts[2], &mask)
		if pos >= len(out) {
			return nil, false
		}
		out[pos] ^= byte(mask)
		return out, true
	case "u32at":
		var pos int
		fmt.Sscan(parts[1], &pos)
		if pos+4 > len(out) {
			return nil, false
		}
		nv := map[string]uint32{"65536": 65536, "2^31": 1 << 31, "2^32-1": math.MaxUint32, "2^32-4": math.MaxUint32 - 3}[parts[2]]
		if binary.BigEndian.Uint32(out[pos:]) == nv {
			return nil, false
		}
		binary.BigEndian.PutUint32(out[pos:], nv)
		return out, true
	case "unknown-name":
		if len(lenOffs) < 2 {
			return nil, false
		}
		o := lenOffs[1] + 4
		if o >= len(out) {
			return nil, false
		}
		out[o] = '_'
		return out, true
	}
	return nil, false
}

// baseEncoding returns a valid encoding, the offsets of its first length tokens and the decoder to feed it to.
func baseEncoding(base string) (data []byte, lenOffs []int, mode string) {
	variant := "all-one"
	if i := strings.Index(base, "@"); i > 0 {
		base, variant = base[:i], base[i+1:]
	}
	switch {
	case strings.HasPrefix(base, "msg:"):
		reg, ok := regByName(strings.TrimPrefix(base, "msg:"))
		if !ok {
			return nil, nil, ""
		}
		r := msgRoundTrip(reg, variant, 0)
		if r.encoded == nil {
			return nil, nil, ""
		}
		return r.encoded, envelopeLengthOffsets(r.encoded), "envelope"
	case strings.HasPrefix(base, "rt:"):
		p := strings.Split(strings.TrimPrefix(base, "rt:"), "/")
		v := containerValue(p[0], p[1], p[2])
		w := messages.NewWriter()
		if err := w.WriteFrom(v.Interface()); err != nil {
			return nil, nil, ""
		}
		return append([]byte{}, w.Bytes()...), []int{0}, "rt:" + strings.TrimPrefix(base, "rt:")
	case base == "handshake":
		d, err := remoting.VerifHandshakeBytes("node-1.example.org:7001")
		if err != nil {
			return nil, nil, ""
		}
		return d, []int{0}, "handshake"
	case strings.HasPrefix(base, "deep:"):
		// an envelope whose message nests PipeResults n levels deep.  The real encoder refuses to nest deeper than its
		// limit, so the bytes are spliced by hand from what it produces for one level: W(k+1) = len32 ++ prefix ++ W(k)
		// ++ suffix ++ name, with prefix / suffix / name taken from the real encoding of a PipeResult around W(0)
		n := 0
		fmt.Sscan(strings.TrimPrefix(base, "deep:"), &n)
		enc := func(m vivid.Message) []byte {
			w := messages.NewWriter()
			if err := w.WriteMessage(m, nil); err != nil {
				return nil
			}
			return append([]byte{}, w.Bytes()...)
		}
		w0 := enc(&vivid.OnLaunch{})
		w1 := enc(&vivid.PipeResult{Id: "p", Message: &vivid.OnLaunch{}})
		if w0 == nil || len(w1) < 8 {
			return nil, nil, ""
		}
		bodyLen := int(binary.BigEndian.Uint32(w1))
		idx := bytes.Index(w1[4:4+bodyLen], w0)
		if idx < 0 || 4+bodyLen > len(w1) {
			return nil, nil, ""
		}
		prefix := w1[4 : 4+idx]
		suffix := w1[4+idx+len(w0) : 4+bodyLen]
		name := w1[4+bodyLen:]
		wk := w0
		for k := 0; k < n; k++ {
			next := make([]byte, 4, 4+len(prefix)+len(wk)+len(suffix)+len(name))
			binary.BigEndian.PutUint32(next, uint32(len(prefix)+len(wk)+len(suffix)))
			next = append(next, prefix...)
			next = append(next, wk...)
			next = append(next, suffix...)
			next = append(next, name...)
			wk = next
		}
		snd, _ := actor.NewRef("10.1.1.1:7000", "/s")
		rcv, _ := actor.NewRef("10.1.1.2:7000", "/r")
		e1, err := serialize.EncodeEnvelopWithRemoting(nil, mailbox.NewEnvelop(false, snd, rcv, &vivid.PipeResult{Id: "p", Message: &vivid.OnLaunch{}}))
		if err != nil {
			return nil, nil, ""
		}
		at := bytes.Index(e1, w1)
		if at < 0 {
			return nil, nil, ""
		}
		d := append(append(append([]byte{}, e1[:at]...), wk...), e1[at+len(w1):]...)
		return d, []int{0}, "envelope"
	case base == "view":
		v := &cluster.ClusterView{ViewID: "v", Members: map[string]*cluster.NodeState{"a": {ID: "a", Address: "a:1", Generation: 1, LogicalClock: 1, Metadata: map[string]string{"k": "v"}}}, VersionVector: cluster.NewVersionVector().MustIncrement("a")}
		w := messages.NewWriter()
		if err := cluster.VerifWriteClusterView(w, v); err != nil {
			return nil, nil, ""
		}
		// length tokens: the presence flag is not a length; view id string @4, member count after id/epoch/timestamp
		d := append([]byte{}, w.Bytes()...)
		idLen := int(binary.BigEndian.Uint32(d[4:]))
		return d, []int{4, 4 + 4 + idLen + 16}, "view"
	}
	return nil, nil, ""
}

type sentinelT struct {
	A uint32
	B string
	C []uint16
}

// runTotCase executes one totality case in this process (it may panic; the caller recovers).
func runTotCase(tc totCase) (res totResult) {
	res.ID = tc.ID
	res.After = 1
	var ms0, ms1 runtime.MemStats
	defer func() {
		if r := recover(); r != nil {
			res.Outcome = "panic"
			res.Detail = fmt.Sprint(r)
		}
	}()
	if tc.Group == "nilfield" {
		reg, ok := regByName(strings.TrimPrefix(tc.Base, "msg:"))
		if !ok {
			res.Outcome = "error"
			return res
		}
		p := reflect.New(reg.Type)
		if tc.Fault != "all-zero" {
			if err := fill(p.Elem(), &fillCtx{variant: tc.Fault}, 0); err != nil {
				res.Outcome, res.Detail = "error", "fault not applicable"
				return res
			}
		}
		_, err := serialize.EncodeEnvelopWithRemoting(nil, mailbox.NewEnvelop(false, nil, nil, p.Interface()))
		if err != nil {
			res.Outcome = "error"
		} else {
			res.Outcome = "value"
		}
		return res
	}
	if tc.Group == "unsupported" {
		v, direct := unsupportedValue(tc.Kind)
		runtime.ReadMemStats(&ms0)
		var err error
		switch direct {
		case "message":
			_, err = serialize.EncodeEnvelopWithRemoting(nil, mailbox.NewEnvelop(false, nil, nil, v))
		case "write-message":
			err = messages.NewWriter().WriteMessage(v, nil)
		default:
			err = messages.NewWriter().WriteFrom(v)
		}
		runtime.ReadMemStats(&ms1)
		res.Alloc = int64(ms1.TotalAlloc - ms0.TotalAlloc)
		if err != nil {
			res.Outcome = "error"
		} else {
			res.Outcome = "value" // accepted: not an error by itself (e.g. a kind the codec decides to support)
			res.Detail = "accepted"
		}
		return res
	}
	// decoding faults
	data, lenOffs, mode := baseEncoding(tc.Base)
	if data == nil {
		res.Outcome = "error"
		res.Detail = "no base encoding"
		return res
	}
	bad, ok := applyFault(data, tc.Fault, lenOffs)
	if !ok {
		res.Outcome = "error"
		res.Detail = "fault not applicable"
		return res
	}
	res.Input = len(bad)
	runtime.GC()
	runtime.ReadMemStats(&ms0)
	var err error
	res.After = 1
	switch {
	case mode == "envelope":
		_, _, _, _, _, _, err = serialize.DecodeEnvelopWithRemoting(nil, bad)
		if _, _, _, _, _, _, e2 := serialize.DecodeEnvelopWithRemoting(nil, data); e2 != nil {
			res.After = 0
		}
	case mode == "view":
		_, err = cluster.VerifReadClusterView(messages.NewReader(bad))
		if _, e2 := cluster.VerifReadClusterView(messages.NewReader(data)); e2 != nil {
			res.After = 0
		}
	case mode == "handshake":
		h := &remoting.Handshake{}
		err = h.Wait(&bytesConn{r: bytes.NewReader(bad)})
		h2 := &remoting.Handshake{}
		if e2 := h2.Wait(&bytesConn{r: bytes.NewReader(data)}); e2 != nil || h2.AdvertiseAddr != "node-1.example.org:7001" {
			res.After = 0
		}
	default:
		p := strings.Split(strings.TrimPrefix(mode, "rt:"), "/")
		orig := containerValue(p[0], p[1], p[2])
		tt := orig.Type()
		if p[2] == "ptr" {
			tt = tt.Elem()
		}
		target := reflect.New(tt)
		// pre-fill the target with a recognisable value; a failed decode must leave it alone
		pre := containerValue(p[0], map[string]string{"string": "one", "bytes": "one"}[p[0]]+map[bool]string{true: "", false: "one"}[p[0] == "string" || p[0] == "bytes"], p[2])
		if p[2] == "ptr" {
			pre = pre.Elem()
		}
		target.Elem().Set(pre)
		before := fmt.Sprintf("%#v", target.Elem().Interface())
		err = messages.NewReader(bad).Read(target.Interface())
		if err != nil && fmt.Sprintf("%#v", target.Elem().Interface()) != before {
			res.Touched = 1
		}
		// the same target then receives the valid encoding
		want := orig
		if p[2] == "ptr" {
			want = orig.Elem()
		}
		if e2 := messages.NewReader(data).Read(target.Interface()); e2 != nil || !semEqual(want, target.Elem()) {
			res.After = 0
		}
	}
	if tc.Fault == "none" {
		res.After = 1 // the input itself is the case (it may be one the decoder has to refuse): there is no "valid input afterwards"
	}
	runtime.ReadMemStats(&ms1)
	res.Alloc = int64(ms1.TotalAlloc - ms0.TotalAlloc)
	if err != nil {
		res.Outcome = "error"
	} else {
		res.Outcome = "value"
	}
	return res
}

// bytesConn is a net.Conn that delivers a fixed byte string and then reports EOF; like a TCP connection,
// a read into an empty buffer returns at once.
type bytesConn struct {
	r *bytes.Reader
}

func (c *bytesConn) Read(p []byte) (int, error) {
	if len(p) == 0 {
		return 0, nil
	}
	return c.r.Read(p)
}
func (c *bytesConn) Write(p []byte) (int, error)        { return len(p), nil }
func (c *bytesConn) Close() error                       { return nil }
func (c *bytesConn) LocalAddr() net.Addr                { return &net.TCPAddr{} }
func (c *bytesConn) RemoteAddr() net.Addr               { return &net.TCPAddr{} }
func (c *bytesConn) SetDeadline(t time.Time) error      { return nil }
func (c *bytesConn) SetReadDeadline(t time.Time) error  { return nil }
func (c *bytesConn) SetWriteDeadline(t time.Time) error { return nil }

type structWithInt struct {
	A int
	B string
}

type cyclicNode struct {
	V    uint8
	Next *cyclicNode
}

type cyclicHolder struct {
	A uint8
	S []any
}

type structWithIface struct {
	A uint8
	X any
}

func unsupportedValue(kind string) (any, string) {
	switch kind {
	case "int":
		return int(5), ""
	case "uint":
		return uint(5), ""
	case "uintptr":
		return uintptr(5), ""
	case "complex128":
		return complex(1, 2), ""
	case "map":
		return map[string]int{"a": 1}, ""
	case "chan":
		return make(chan int), ""
	case "func":
		return func() {}, ""
	case "nil-interface":
		return nil, ""
	case "duration":
		return time.Second, ""
	case "nil-pointer":
		return (*int32)(nil), ""
	case "nil-bytes-pointer":
		return (*[]byte)(nil), ""
	case "struct-with-int":
		return structWithInt{A: 1, B: "x"}, ""
	case "interface-field":
		return structWithIface{A: 1, X: nil}, ""
	case "cyclic-pointer":
		// a value that refers to itself: the writer follows pointers, so it must notice (an error), not recurse for ever
		n := &cyclicNode{V: 1}
		n.Next = n
		return n, ""
	case "cyclic-slice":
		s := make([]any, 1)
		s[0] = s
		return cyclicHolder{A: 1, S: s}, ""
	case "nil-message":
		return nil, "message"
	case "non-pointer-message":
		return "just a string", "message"
	}
	return nil, ""
}

// codecChild runs the cases of the file given as first argument, one result line per case on stdout,
// preceded by a START line so that the parent knows which case killed the process if it dies.
func codecChild(args []string) int {
	b, err := os.ReadFile(args[0])
	if err != nil {
		return 2
	}
	var cases []totCase
	if err := json.Unmarshal(b, &cases); err != nil {
		return 2
	}
	out := bufio.NewWriter(os.Stdout)
	for _, tc := range cases {
		fmt.Fprintf(out, "START %s\n", tc.ID)
		out.Flush()
		done := make(chan totResult, 1)
		go func() { done <- runTotCase(tc) }()
		var res totResult
		select {
		case res = <-done:
		case <-time.After(3 * time.Second):
			res = totResult{ID: tc.ID, Outcome: "timeout"}
			rb, _ := json.Marshal(res)
			fmt.Fprintf(out, "RESULT %s\n", rb)
			out.Flush()
			return 3 // the stuck goroutine cannot be stopped: the parent restarts the child after this case
		}
		rb, _ := json.Marshal(res)
		fmt.Fprintf(out, "RESULT %s\n", rb)
		out.Flush()
	}
	return 0
}

func runTotCasesInChildren(c *core.Ctx, cases []totCase) map[string]totResult {
	results := map[string]totResult{}
	rest := cases
	for len(rest) > 0 {
		f := filepath.Join(c.Scratch.Dir, fmt.Sprintf("totcases-%d.json", len(rest)))
		b, _ := json.Marshal(rest)
		_ = os.WriteFile(f, b, 0o644)
		// an address-space limit turns an absurd allocation into a crash of the child instead of a sandbox-wide problem
		cmd := exec.Command("sh", "-c", fmt.Sprintf("ulimit -v 6000000; exec %q codec-child %q", os.Args[0], f))
		cmd.Env = append(os.Environ(), "GOMAXPROCS=2")
		var stdout, stderr bytes.Buffer
		cmd.Stdout, cmd.Stderr = &stdout, &stderr
		err := cmd.Run()
		last := ""
		for _, line := range strings.Split(stdout.String(), "\n") {
			switch {
			case strings.HasPrefix(line, "START "):
				last = strings.TrimPrefix(line, "START ")
			case strings.HasPrefix(line, "RESULT "):
				var r totResult
				if json.Unmarshal([]byte(strings.TrimPrefix(line, "RESULT ")), &r) == nil {
					results[r.ID] = r
				}
			}
		}
		if err == nil {
			break
		}
		if last == "" {
			c.Broken("codec child died before its first case: %v\n%s", err, tailStr(stderr.String(), 1500))
			return results
		}
		if _, ok := results[last]; !ok {
			detail := "crash"
			se := stderr.String()
			switch {
			case strings.Contains(se, "stack overflow"):
				detail = "stack overflow"
			case strings.Contains(se, "out of memory") || strings.Contains(se, "cannot allocate"):
				detail = "out of memory"
			}
			results[last] = totResult{ID: last, Outcome: "crash", Detail: detail + ": " + firstLineOf(se)}
		}
		// continue after the case that ended the child
		idx := -1
		for i, tc := range rest {
			if tc.ID == last {
				idx = i
			}
		}
		if idx < 0 {
			break
		}
		rest = rest[idx+1:]
	}
	return results
}

func tailStr(s string, n int) string {
	if len(s) > n {
		return s[len(s)-n:]
	}
	return s
}

func firstLineOf(s string) string {
	for _, l := range strings.Split(s, "\n") {
		if strings.Contains(l, "fatal error") || strings.Contains(l, "panic:") {
			return l
		}
	}
	if i := strings.IndexByte(s, '\n'); i > 0 {
		return s[:i]
	}
	return s
}

func checkC13(c *core.Ctx) {
	c.Ev.Level = "fault_enumeration"
	ensureRmsg()
	wc, ok := loadWireCases(c)
	if !ok {
		return
	}
	var cases []totCase
	bases := []string{"view", "handshake", "rt:string/long/field", "rt:u16/max/slice3", "rt:bytes/one/nested", "rt:u32/one/array2", "rt:i64/min/direct", "rt:string/nonascii/slice1"}
	for _, reg := range messages.VerifRegisteredMessages() {
		bases = append(bases, "msg:"+reg.Name)
	}
	sort.Strings(bases)
	if c.Thorough() {
		for _, reg := range messages.VerifRegisteredMessages() {
			bases = append(bases, "msg:"+reg.Name+"@all-extreme")
		}
	}
	stride, shift := 7, int(c.Seed%7)
	if c.Thorough() {
		stride, shift = 1, 0
	}
	for _, base := range bases {
		data, _, _ := baseEncoding(base)
		if data == nil {
			c.Add("bases_without_encoding", 1)
			continue
		}
		n := len(data)
		if n > 600 {
			// long encodings (5000-byte strings, extreme variants): every offset of the first 300 and last 100 bytes
			n = 600
		}
		offset := func(i int) int {
			if len(data) > 600 && i >= 500 {
				return len(data) - 600 + i
			}
			return i
		}
		for _, f := range wc.Faults {
			switch f.Kind {
			case "truncate-every", "xor-every", "u32-every":
				st, sh := stride, shift
				if f.Kind == "u32-every" && (f.A == "2^32-1" || f.A == "2^32-4") {
					// a length just below 2^32 is where "length + header" wraps around: every offset in every tier
					st, sh = 1, 0
				}
				for i := sh; i < n; i += st {
					pos := offset(i)
					fs := map[string]string{"truncate-every": fmt.Sprintf("truncate:%d", pos), "xor-every": fmt.Sprintf("xorat:%d:%s", pos, f.A), "u32-every": fmt.Sprintf("u32at:%d:%s", pos, f.A)}[f.Kind]
					cases = append(cases, totCase{ID: base + "|" + fs, Group: "fault", Base: base, Fault: fs})
				}
				continue
			}
			fs := f.Kind
			if f.A != "" {
				fs += ":" + f.A
			}
			if f.B != "" {
				fs += ":" + f.B
			}
			cases = append(cases, totCase{ID: base + "|" + fs, Group: "fault", Base: base, Fault: fs})
		}
	}
	// valid input, deeply nested: decoding must not cost memory out of proportion (one copy of the rest per level is quadratic)
	for _, n := range core.Pick(c, []int{5, 40, 3000}, []int{5, 40, 3000, 20000}) {
		cases = append(cases, totCase{ID: fmt.Sprintf("deep:%d|none", n), Group: "fault", Base: fmt.Sprintf("deep:%d", n), Fault: "none"})
	}
	for _, reg := range messages.VerifRegisteredMessages() {
		// the zero value of every registered message: every pointer, interface, map and slice field is nil
		cases = append(cases, totCase{ID: "nilfield|" + reg.Name, Group: "nilfield", Base: "msg:" + reg.Name, Fault: "all-zero"})
	}
	for _, k := range wc.Unsupported {
		cases = append(cases, totCase{ID: "unsupported|" + k, Group: "unsupported", Kind: k})
	}
	results := runTotCasesInChildren(c, cases)
	if c.IsBroken() {
		return
	}
	var traces []*Trace
	n := 0
	for _, tc := range cases {
		r, ok := results[tc.ID]
		if !ok {
			continue
		}
		if r.Detail == "fault not applicable" || r.Detail == "no base encoding" {
			continue
		}
		n++
		ev := map[string]any{"e": "Tot", "c": tc.ID, "s": r.Outcome, "k": r.Input, "m": int(r.Alloc), "v": r.Touched, "a": r.After}
		cls := "decode-fault"
		if tc.Group == "unsupported" {
			cls = "encode-unsupported-" + tc.Kind
		}
		if tc.Group == "nilfield" {
			cls = "encode-nil-field-" + strings.TrimPrefix(tc.Base, "msg:")
		}
		traces = append(traces, &Trace{Events: []map[string]any{ev}, Class: cls, Name: tc.ID, Scenario: map[string]any{"case": tc, "result": r}})
	}
	c.Add("evaluations", int64(n))
	outcomes := map[string]int{}
	var notable []string
	for _, t := range traces {
		e := t.Events[0]
		outcomes[fmt.Sprint(e["s"])]++
		if s := fmt.Sprint(e["s"]); s != "value" && s != "error" || e["v"] != 0 || e["m"].(int) > 33554432 {
			notable = append(notable, fmt.Sprintf("%s -> %s alloc=%v touched=%v %s", e["c"], s, e["m"], e["v"], results[fmt.Sprint(e["c"])].Detail))
		}
	}
	c.Set("outcomes", outcomes)
	c.Set("notable_cases", notable)
	res := ValidateTraces(c, "wire", "CodecMon", "CodecMon.cfg", traces, codecDefaults)
	res.Report(c, "CodecMon")
	c.Add("traces_validated_against_impl", int64(res.Validated))
	c.Set("distinct_nontrivial", n)
	c.Set("exhaustive", true)
	c.Set("explanation", "Wire.tla enumerates (TLC) the fault matrix: truncation at offsets {0..5, middle, last}, corruption of each of the first three length tokens to {0, n-1, n+1, 65536, 2^31, 2^32-1}, a flipped byte at {first, middle, last} and an unknown message name, applied to one valid envelope encoding of every message type of the real wire registry, to a cluster view and to primitive/slice/array/struct encodings; and the unsupported values {int, uint, uintptr, complex, map, chan, func, nil interface, named int64 (Duration), nil pointers, struct with int / interface field, nil message, non-pointer message} on the encode side. Every case runs in a child process under an address-space limit with a watchdog; the child reports value / error / panic / time-out, the parent classifies a dead child as crash (stack overflow, out of memory). CodecMon (TLC) requires value-or-error, allocation <= 32 MiB + 64 x input, and that a failed decode leaves the caller's pre-filled target untouched.")
	c.Set("rule", "see explanation; distinct by case id")
	if len(traces) > 0 {
		c.Sample(traces[0].Events[0])
		c.Sample(traces[len(traces)/2].Events[0])
		c.Sample(traces[len(traces)-1].Events[0])
	}
	c.Assume("fault classes, not all byte strings; the frame level (length prefix of a connection) is exercised in C14")
}
