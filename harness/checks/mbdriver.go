package checks

import (
	"fmt"
	"math/rand"
	"sort"
	"strings"
	"sync"
	"time"

	"github.com/kercylan98/vivid"
	"github.com/kercylan98/vivid/internal/mailbox"
	"github.com/kercylan98/vivid/internal/verifhook"
	"github.com/kercylan98/vivid/pkg/log"
	"github.com/kercylan98/vivid/verifharness/ctl"
)

var hookOnce sync.Once

func installDispatch() { hookOnce.Do(func() { verifhook.Set(ctl.Dispatch) }) }

// mbScenario is a mailbox scenario in the vocabulary of specs/mailbox/Mailbox.tla.
type mbScenario struct {
	Callers   map[string][][]string `json:"cs"`   // thread -> script of ops: ["enq", m] | ["pause"] | ["resume"]
	MsgScript map[string][][]string `json:"ms"`   // message -> what its handler does
	Sys       []string              `json:"sys"`  // system messages
	Pool      []string              `json:"pool"` // consumer incarnation names in start order
	RingSize  int64                 `json:"ring"`
}

type mbStep struct {
	T  string `json:"t"`
	Pc string `json:"pc"` // a hook name; "*" = any point, N times; "**" = until the thread has finished
	S  []int  `json:"s"`
	N  int    `json:"n,omitempty"`
}

type mbRun struct {
	Events   []map[string]any
	Steps    int
	Conform  int // steps whose projection equalled the model's
	Mismatch int
	Drift    int
	Spin     bool
	Stuck    string
	Paused   bool // a pause overlapped an enqueue or a handler (non-trivial for PauseHolds)
	Handled  int
}

type mbEnvelop struct {
	id  string
	sys bool
}

func (e *mbEnvelop) System() bool             { return e.sys }
func (e *mbEnvelop) Sender() vivid.ActorRef   { return nil }
func (e *mbEnvelop) Message() vivid.Message   { return e.id }
func (e *mbEnvelop) Receiver() vivid.ActorRef { return nil }

type mbExec struct {
	sc      *mbScenario
	c       *ctl.Ctl
	mb      *mailbox.UnboundedMailbox
	mu      sync.Mutex
	events  []map[string]any
	sender  map[string]string
	sys     map[string]bool
	nstart  int
	handled int
	sinceIn map[string]int
}

func (x *mbExec) ev(e map[string]any) {
	x.mu.Lock()
	x.events = append(x.events, e)
	x.mu.Unlock()
}

func (x *mbExec) doOp(th string, op []string, inh int) {
	switch op[0] {
	case "enq":
		m := op[1]
		sys := 0
		if x.sys[m] {
			sys = 1
		}
		sth := th
		if inh == 1 {
			sth = "self"
		}
		x.mu.Lock()
		x.sender[m] = sth
		x.mu.Unlock()
		x.ev(map[string]any{"e": "EnqCall", "th": sth, "m": m, "sys": sys, "inh": inh})
		x.mb.Enqueue(&mbEnvelop{id: m, sys: x.sys[m]})
		x.ev(map[string]any{"e": "EnqRet", "th": sth, "m": m, "sys": sys, "inh": inh})
	case "pause":
		x.ev(map[string]any{"e": "PauseCall", "th": th, "inh": inh})
		x.mb.Pause()
		x.ev(map[string]any{"e": "PauseRet", "th": th, "inh": inh})
	case "resume":
		x.ev(map[string]any{"e": "ResumeCall", "th": th, "inh": inh})
		x.mb.Resume()
		x.ev(map[string]any{"e": "ResumeRet", "th": th, "inh": inh})
	}
}

// HandleEnvelop is the recording handler: it runs in the consumer goroutine of the real mailbox.
func (x *mbExec) HandleEnvelop(env vivid.Envelop) {
	m := env.Message().(string)
	role := x.c.RoleOfCurrent()
	x.mu.Lock()
	snd := x.sender[m]
	x.handled++
	x.sinceIn[role] = 0
	x.mu.Unlock()
	sys := 0
	if env.System() {
		sys = 1
	}
	x.ev(map[string]any{"e": "HandleIn", "th": role, "m": m, "sys": sys, "sender": snd})
	x.c.Yield("h.body", x.mb, nil)
	for _, op := range x.sc.MsgScript[m] {
		x.doOp(role, op, 1)
	}
	x.ev(map[string]any{"e": "HandleOut", "th": role, "m": m, "sys": sys})
}

func mbPoint(pc string) string {
	if pc == "h.body" {
		return pc
	}
	return "mb." + pc
}

// runMailboxScenario executes one scenario on a real UnboundedMailbox. schedule (may be nil) is
// followed step by step; afterwards (or after drift) the seeded random scheduler finishes the run.
func runMailboxScenario(sc *mbScenario, schedule []mbStep, seed int64) *mbRun {
	installDispatch()
	run := &mbRun{}
	c := ctl.New()
	x := &mbExec{sc: sc, c: c, sender: map[string]string{}, sys: map[string]bool{}, sinceIn: map[string]int{}}
	for _, m := range sc.Sys {
		x.sys[m] = true
	}
	ring := sc.RingSize
	if ring <= 0 {
		ring = 256
	}
	x.mb = mailbox.NewUnboundedMailbox(ring, x)
	mb := x.mb
	c.Filter = func(point string, obj any) bool { return obj == any(mb) }
	for _, p := range []string{"mb.turn", "mb.turned", "mb.proc.start"} {
		c.Pass[p] = true
	}
	c.SpawnPoints["mb.spawn"] = true
	c.BirthPoints["mb.proc.start"] = true
	c.ExitPoints["mb.proc.exit"] = true
	c.NewRole = func(point string, obj any) string {
		x.nstart++
		if x.nstart <= len(sc.Pool) {
			return sc.Pool[x.nstart-1]
		}
		return fmt.Sprintf("c%d", x.nstart)
	}
	c.OnPass = func(role, point string, obj, arg any) {
		if point == "mb.proc.start" {
			x.ev(map[string]any{"e": "Start", "th": role})
		}
	}
	ctl.Activate(c)
	defer ctl.Deactivate(c)

	names := make([]string, 0, len(sc.Callers))
	for n := range sc.Callers {
		names = append(names, n)
	}
	sort.Strings(names)
	for _, n := range names {
		script := sc.Callers[n]
		name := n
		c.Go(name, func() {
			for _, op := range script {
				x.doOp(name, op, 0)
			}
		})
	}
	settle := func() bool {
		if err := c.WaitSettled(10 * time.Second); err != nil {
			run.Stuck = err.Error()
			return false
		}
		return true
	}
	if !settle() {
		c.Abandon()
		return run
	}
	project := func() []int {
		s := mb.VerifState()
		return []int{int(s.Status), int(s.Paused), int(s.Num), int(s.SystemNum), int(s.UserLen), int(s.SystemLen)}
	}
	isConsumer := func(role string) bool { return strings.HasPrefix(role, "c") }
	stepped := func(w *ctl.Waiter) bool {
		if isConsumer(w.Role) {
			x.mu.Lock()
			x.sinceIn[w.Role]++
			x.mu.Unlock()
		}
		c.Release(w)
		run.Steps++
		return settle()
	}
	// 1. follow the TLC behaviour
	drifted := false
	for _, st := range schedule {
		if st.Pc == "*" || st.Pc == "**" {
			// directed phase: run one thread for N steps / to its end ("c?" = whichever consumer is parked)
			for k := 0; st.Pc == "**" && k < 100000 || k < st.N; k++ {
				w := c.Find(st.T)
				if st.T == "c?" {
					w = nil
					for _, cand := range c.Waiters() {
						if isConsumer(cand.Role) {
							w = cand
						}
					}
				}
				if w == nil {
					break
				}
				if !stepped(w) {
					c.Abandon()
					return run
				}
			}
			continue
		}
		w := c.Find(st.T)
		if w == nil || w.Point != mbPoint(st.Pc) {
			run.Drift++
			drifted = true
			break
		}
		if !stepped(w) {
			c.Abandon()
			return run
		}
		p := project()
		same := len(st.S) == len(p)
		for i := range p {
			if same && st.S[i] != p[i] {
				same = false
			}
		}
		if same {
			run.Conform++
		} else {
			run.Mismatch++
		}
	}
	_ = drifted
	// 2. finish with the seeded random scheduler
	rng := rand.New(rand.NewSource(seed))
	// two scheduling disciplines: uniform random choice, or (PCT style) random thread priorities with a few
	// priority change points, which produces the "one thread runs to completion first" schedules that
	// uniform choice almost never does
	usePrio := seed%2 == 0
	prio := map[string]int{}
	changeAt := map[int]bool{}
	for k := 0; k < 3; k++ {
		changeAt[rng.Intn(60)] = true
	}
	rsteps := 0
	for {
		ws := c.Waiters()
		if len(ws) == 0 {
			break
		}
		sort.Slice(ws, func(i, j int) bool { return ws[i].Role < ws[j].Role })
		callersLeft := false
		for _, w := range ws {
			if !isConsumer(w.Role) {
				callersLeft = true
			}
		}
		w := ws[rng.Intn(len(ws))]
		if usePrio {
			rsteps++
			best := -1
			for _, cand := range ws {
				pr, ok := prio[cand.Role]
				if !ok {
					pr = rng.Intn(1000)
					prio[cand.Role] = pr
				}
				if pr > best {
					best = pr
					w = cand
				}
			}
			if changeAt[rsteps] {
				prio[w.Role] = -rsteps // demote the running thread below everybody
			}
		}
		if !callersLeft {
			x.mu.Lock()
			n := x.sinceIn[w.Role]
			x.mu.Unlock()
			if n > 60 {
				// only consumers are left and this one has passed 60 hook points without handing a
				// message to the handler: it is spinning
				x.ev(map[string]any{"e": "Spin", "th": w.Role})
				run.Spin = true
				c.Abandon()
				break
			}
		}
		if !stepped(w) {
			c.Abandon()
			return run
		}
		if run.Steps > 200000 {
			run.Stuck = "more than 200000 steps"
			c.Abandon()
			return run
		}
	}
	if !run.Spin {
		s := mb.VerifState()
		x.ev(map[string]any{"e": "Quiescent", "paused": int(s.Paused), "ulen": int(s.UserLen), "live": c.LiveRoles("c")})
	}
	run.Events = x.events
	run.Handled = x.handled
	return run
}

var silentLogger = log.NewSilentLogger()
