package checks

import (
	"encoding/json"
	"fmt"
	"os"
	"runtime"
	"time"
)

func init() {
	subcommands["debug-life"] = func(args []string) int {
		sc := &lifeScenario{Script: map[string][]string{}}
		_ = json.Unmarshal([]byte(args[0]), &sc.Script)
		run := runLifeScenario(sc, nil, 1)
		for _, e := range run.Events {
			b, _ := json.Marshal(e)
			fmt.Println(string(b))
		}
		fmt.Println("steps", run.Steps, "hang", run.Hang, "leak", len(run.Leak))
		time.Sleep(2 * time.Second)
		var ms runtime.MemStats
		runtime.ReadMemStats(&ms)
		fmt.Println("after 2s: heap MB", ms.HeapAlloc>>20, "goroutines", runtime.NumGoroutine())
		for _, blk := range libGoroutines() {
			fmt.Println(firstLines(blk, 12))
		}
		for _, l := range run.Leak {
			fmt.Fprintln(os.Stdout, l)
		}
		return 0
	}
}
