package checks

import (
	"encoding/json"
	"fmt"
	"os"

	"github.com/kercylan98/vivid/verifharness/ctl"
	"runtime"
	"time"
)

func init() {
	subcommands["debug-life"] = func(args []string) int {
		sc := &lifeScenario{Script: map[string][]string{}}
		_ = json.Unmarshal([]byte(args[0]), &sc.Script)
		run := runLifeScenario(sc, nil, 1)
		for _, e := range run.Events {
			b, _ := json.Marshal(e)
			fmt.Println(string(b))
		}
		fmt.Println("steps", run.Steps, "hang", run.Hang, "leak", len(run.Leak))
		time.Sleep(2 * time.Second)
		var ms runtime.MemStats
		runtime.ReadMemStats(&ms)
		fmt.Println("after 2s: heap MB", ms.HeapAlloc>>20, "goroutines", runtime.NumGoroutine())
		for _, blk := range libGoroutines() {
			fmt.Println(firstLines(blk, 12))
		}
		for _, l := range run.Leak {
			fmt.Fprintln(os.Stdout, l)
		}
		return 0
	}
}

func init() {
	subcommands["debug-fut"] = func(args []string) int {
		sc := futScenario{Completers: []string{"r1", "r2", "timer"}, Pipers: []string{"p1", "p2"}, Waiters: []string{"w1"}, TimeoutUS: 1000}
		var sched []futStep
		seed := int64(1)
		if len(args) > 0 {
			_ = json.Unmarshal([]byte(args[0]), &sc)
		}
		if len(args) > 1 {
			fmt.Sscan(args[1], &seed)
		}
		futDebug = true
		ctl.Debug = os.Getenv("CTL_DEBUG") != ""
		run := runFutureScenario(&sc, sched, seed)
		for _, e := range run.Events {
			b, _ := json.Marshal(e)
			fmt.Println(string(b))
		}
		fmt.Println("steps", run.Steps, "drift", run.Drift, "stuck", run.Stuck)
		return 0
	}
}

func init() {
	subcommands["debug-loop"] = func(args []string) int {
		sc := &loopScenario{Senders: 1, PerSender: 3, Sizes: []int{10}, BothWays: true, HoldMS: 11500}
		ev, err := runLoopback(sc, 1)
		fmt.Println("err", err)
		for _, e := range ev {
			b, _ := json.Marshal(e)
			fmt.Println(string(b))
		}
		return 0
	}
}

func init() {
	subcommands["debug-codec"] = func(args []string) int {
		ensureRmsg()
		reg, ok := regByName(args[0])
		if !ok {
			fmt.Println("no such message")
			return 1
		}
		variant := "all-zero"
		if len(args) > 1 {
			variant = args[1]
		}
		field := 0
		if len(args) > 2 {
			fmt.Sscan(args[2], &field)
		}
		r := msgRoundTrip(reg, variant, field)
		fmt.Printf("%+v\n", r)
		return 0
	}
}
