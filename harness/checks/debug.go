package checks

import (
	"context"
	"encoding/json"
	"fmt"
	"github.com/kercylan98/vivid"
	"github.com/kercylan98/vivid/internal/actor"
	"os"
	"sync"

	"github.com/kercylan98/vivid/verifharness/ctl"
	"runtime"
	"time"
)

func init() {
	subcommands["debug-life"] = func(args []string) int {
		sc := &lifeScenario{Script: map[string][]string{}}
		_ = json.Unmarshal([]byte(args[0]), &sc.Script)
		run := runLifeScenario(sc, nil, 1)
		for _, e := range run.Events {
			b, _ := json.Marshal(e)
			fmt.Println(string(b))
		}
		fmt.Println("steps", run.Steps, "hang", run.Hang, "leak", len(run.Leak))
		time.Sleep(2 * time.Second)
		var ms runtime.MemStats
		runtime.ReadMemStats(&ms)
		fmt.Println("after 2s: heap MB", ms.HeapAlloc>>20, "goroutines", runtime.NumGoroutine())
		for _, blk := range libGoroutines() {
			fmt.Println(firstLines(blk, 12))
		}
		for _, l := range run.Leak {
			fmt.Fprintln(os.Stdout, l)
		}
		return 0
	}
}

func init() {
	subcommands["debug-fut"] = func(args []string) int {
		sc := futScenario{Completers: []string{"r1", "r2", "timer"}, Pipers: []string{"p1", "p2"}, Waiters: []string{"w1"}, TimeoutUS: 1000}
		var sched []futStep
		seed := int64(1)
		if len(args) > 0 {
			_ = json.Unmarshal([]byte(args[0]), &sc)
		}
		if len(args) > 1 {
			fmt.Sscan(args[1], &seed)
		}
		futDebug = true
		ctl.Debug = os.Getenv("CTL_DEBUG") != ""
		run := runFutureScenario(&sc, sched, seed)
		for _, e := range run.Events {
			b, _ := json.Marshal(e)
			fmt.Println(string(b))
		}
		fmt.Println("steps", run.Steps, "drift", run.Drift, "stuck", run.Stuck)
		return 0
	}
}

func init() {
	subcommands["debug-loop"] = func(args []string) int {
		sc := &loopScenario{Senders: 1, PerSender: 3, Sizes: []int{10}, BothWays: true, HoldMS: 11500}
		ev, err := runLoopback(sc, 1)
		fmt.Println("err", err)
		for _, e := range ev {
			b, _ := json.Marshal(e)
			fmt.Println(string(b))
		}
		return 0
	}
}

func init() {
	subcommands["debug-codec"] = func(args []string) int {
		ensureRmsg()
		reg, ok := regByName(args[0])
		if !ok {
			fmt.Println("no such message")
			return 1
		}
		variant := "all-zero"
		if len(args) > 1 {
			variant = args[1]
		}
		field := 0
		if len(args) > 2 {
			fmt.Sscan(args[2], &field)
		}
		r := msgRoundTrip(reg, variant, field)
		fmt.Printf("%+v\n", r)
		return 0
	}
}

func init() {
	subcommands["debug-stoprace"] = func(args []string) int {
		bad := 0
		for it := 0; it < 200; it++ {
			sys := actor.NewSystem(vivid.WithActorSystemContext(context.Background()), vivid.WithActorSystemLogger(silentLogger), vivid.WithActorSystemStopTimeout(2*time.Second))
			if err := sys.Start(); err != nil {
				fmt.Println(err)
				return 2
			}
			stop := make(chan struct{})
			var wg sync.WaitGroup
			for g := 0; g < 4; g++ {
				wg.Add(1)
				go func() {
					defer wg.Done()
					for {
						select {
						case <-stop:
							return
						default:
						}
						_, _ = sys.ActorOf(vivid.ActorFN(func(ctx vivid.ActorContext) {}))
					}
				}()
			}
			time.Sleep(time.Duration(it%5) * time.Millisecond)
			t0 := time.Now()
			go func() { time.Sleep(time.Duration(it%4) * time.Millisecond); close(stop) }()
			err := sys.Stop(2 * time.Second)
			d := time.Since(t0)
			wg.Wait()
			time.Sleep(20 * time.Millisecond)
			live := sys.VerifLiveActors()
			if err != nil || len(live) > 0 || d > time.Second {
				bad++
				if bad <= 5 {
					fmt.Printf("iteration %d: Stop err=%v after %v, actors still registered: %d %v\n", it, err, d, len(live), head2(live))
				}
			}
		}
		fmt.Println("bad iterations:", bad, "of 200")
		return 0
	}
}

func head2(s []string) []string {
	if len(s) > 4 {
		return s[:4]
	}
	return s
}
