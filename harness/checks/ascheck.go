package checks

import (
	"fmt"
	"math/rand"
	"os"
	"sort"
	"strings"
	"time"

	"github.com/kercylan98/vivid/verifharness/core"
	"github.com/kercylan98/vivid/verifharness/tlc"
)

// the ActorSys model of record: which repaired behaviours of /repo it assumes
const asVariant = "fix"

type asPlan struct {
	prop     string
	monitors []string    // monitor modules under specs/asmon that decide this property
	mc       []string    // MC configurations (exhaustive)
	mcThor   []string    // additional MC configurations in the thorough tier
	gen      []string    // generator configurations (simulated behaviours)
	ops      [][2]string // operations the random scenarios draw from
	vias     []string    // reference provenances the random scenarios draw from (nil: ActorOf references only)
	rule     string
	// directed, if set, produces every fifth "random" scenario: a family aimed at a clause that needs a particular shape
	directed func(rng *rand.Rand) (*asScenario, []asStep)
}

// asTags derives scenario-class tags from a recorded trace (the same rule for TLC-generated and random scenarios).
func asTags(ev []map[string]any) string {
	killing := map[string]bool{}
	tags := map[string]bool{}
	for _, e := range ev {
		switch e["e"] {
		case "Deliv":
			if e["k"] == "kill" {
				killing[fmt.Sprint(e["a"])] = true
			}
		case "Consult":
			if e["d"] == "escalate" && killing[fmt.Sprint(e["a"])] {
				tags["escalate-while-stopping"] = true
			}
		}
	}
	if len(tags) == 0 {
		return "-"
	}
	var ts []string
	for t := range tags {
		ts = append(ts, t)
	}
	sort.Strings(ts)
	return strings.Join(ts, "+")
}

func asRandomScenario(rng *rand.Rand, ops [][2]string, vias []string) (*asScenario, []asStep) {
	shapes := []map[string]string{
		{"t": "root", "a": "t", "b": "t"},
		{"t": "root", "a": "t", "b": "t", "c": "a"},
		{"t": "root", "a": "t", "b": "t", "c": "a", "d": "a", "e": "c"},
		{"t": "root", "u": "root", "a": "t", "b": "u"},
		{"t": "root", "a": "t", "b": "a", "c": "b"},
	}
	par := shapes[rng.Intn(len(shapes))]
	sc := &asScenario{Parent: par, Cfg: asConfig{Decision: map[string]string{}, Strategy: map[string]string{}}}
	for n := range par {
		sc.Names = append(sc.Names, n)
	}
	sort.Strings(sc.Names)
	decs := []string{"restart", "grestart", "stop", "gstop", "resume", "escalate"}
	for _, n := range sc.Names {
		sc.Cfg.Decision[n] = decs[rng.Intn(len(decs))]
		sc.Cfg.Strategy[n] = []string{"ofo", "ofa"}[rng.Intn(2)]
	}
	if rng.Intn(6) == 0 {
		sc.Cfg.LaunchFail = []string{sc.Names[rng.Intn(len(sc.Names))]}
	}
	if rng.Intn(3) == 0 {
		sc.Cfg.FailMode = "panic" // handlers fail by panicking instead of calling ctx.Failed
	}
	if rng.Intn(6) == 0 {
		sc.Cfg.KillFail = []string{sc.Names[rng.Intn(len(sc.Names))]} // its OnKill handler panics
	}
	if rng.Intn(4) == 0 {
		sc.Cfg.NoProvider = []string{sc.Names[rng.Intn(len(sc.Names))]} // restarted as the same Go object
	}
	if rng.Intn(5) == 0 {
		sc.Cfg.RelaunchFail = []string{sc.Names[rng.Intn(len(sc.Names))]} // a double fault: the first launch after a restart fails
	}
	if rng.Intn(5) == 0 {
		sc.Cfg.HookFail = []string{sc.Names[rng.Intn(len(sc.Names))], []string{"prerestart", "restarted", "prelaunch"}[rng.Intn(3)]}
		if rng.Intn(2) == 0 {
			sc.Cfg.HookFailMode = "panic"
		}
	}
	hasKids := func(n string) bool {
		for _, p := range par {
			if p == n {
				return true
			}
		}
		return false
	}
	var parents []string
	for _, n := range sc.Names {
		if hasKids(n) {
			parents = append(parents, n)
		}
	}
	if rng.Intn(6) == 0 {
		sc.Cfg.KilledFail = []string{parents[rng.Intn(len(parents))]}
	}
	if rng.Intn(6) == 0 {
		p := parents[rng.Intn(len(parents))]
		sc.Cfg.LateSpawn = []string{p}
		// the late child is known to the scenario (path, parent) but is not spawned at launch
		cp := map[string]string{}
		for k, v := range par {
			cp[k] = v
		}
		cp[p+"x"] = p
		sc.Parent = cp
	}
	if rng.Intn(8) == 0 {
		// a leaf whose OnPrelaunch fails when it is first spawned: ActorOf returns an error, the actor never exists
		var leaves []string
		for _, n := range sc.Names {
			if !hasKids(n) && par[n] != "root" {
				leaves = append(leaves, n)
			}
		}
		if len(leaves) > 0 {
			sc.Cfg.SpawnPrelaunchFail = []string{leaves[rng.Intn(len(leaves))]}
		}
	}
	if rng.Intn(4) == 0 {
		// a supervisor whose decisions differ from one consultation to the next
		p := parents[rng.Intn(len(parents))]
		sc.Cfg.DecisionSeq = map[string][]string{p: {decs[rng.Intn(len(decs))], decs[rng.Intn(len(decs))], decs[rng.Intn(len(decs))]}}
	}
	var steps []asStep
	for _, n := range sc.Names {
		if par[n] == "root" {
			steps = append(steps, asStep{A: "spawn", X: n})
		}
	}
	nOps := 3 + rng.Intn(10)
	canFail := false
	for _, o := range ops {
		if o[0] == "fail" {
			canFail = true
		}
	}
	burstAt := -1
	if canFail && rng.Intn(3) == 0 {
		burstAt = rng.Intn(nOps)
	}
	for i := 0; i < nOps; i++ {
		if i == burstAt {
			// overlapping failures: two children of one parent fail in the same burst
			p := parents[rng.Intn(len(parents))]
			var kids []string
			for _, n := range sc.Names {
				if par[n] == p {
					kids = append(kids, n)
				}
			}
			for _, k := range kids {
				steps = append(steps, asStep{A: "tell", X: k, Op: "fail"})
			}
			continue
		}
		x := sc.Names[rng.Intn(len(sc.Names))]
		if rng.Intn(7) == 0 {
			steps = append(steps, asStep{A: "kill", X: x, Poison: rng.Intn(2) == 0})
			continue
		}
		o := ops[rng.Intn(len(ops))]
		arg := o[1]
		if arg == "@" {
			arg = sc.Names[rng.Intn(len(sc.Names))]
		}
		via := ""
		if vias != nil {
			via = vias[rng.Intn(len(vias))]
		}
		steps = append(steps, asStep{A: "tell", X: x, Op: o[0], Arg: arg, Via: via})
	}
	return sc, steps
}

// asOverlappingEscalations: a supervisor in the middle of the tree escalates, two of its children fail in one burst,
// the grandparent answers Resume: every escalation must be put to the grandparent.
func asOverlappingEscalations(rng *rand.Rand) (*asScenario, []asStep) {
	par := map[string]string{"t": "root", "a": "t", "b": "t", "c": "a", "d": "a", "e": "c"}
	sc := &asScenario{Parent: par, Names: []string{"a", "b", "c", "d", "e", "t"}, Cfg: asConfig{Decision: map[string]string{}, Strategy: map[string]string{}}}
	decs := []string{"restart", "grestart", "stop", "gstop", "resume", "escalate"}
	for _, n := range sc.Names {
		sc.Cfg.Decision[n] = decs[rng.Intn(len(decs))]
		sc.Cfg.Strategy[n] = []string{"ofo", "ofa"}[rng.Intn(2)]
	}
	sc.Cfg.Decision["a"] = "escalate"
	sc.Cfg.Decision["t"] = "resume"
	if rng.Intn(5) == 0 {
		// the OnKill handler of an actor that is being stopped (immediately or by poison) panics: no supervision
		who := []string{"b", "c", "d", "a"}[rng.Intn(4)]
		sc.Cfg.KillFail = []string{who}
		steps := []asStep{{A: "spawn", X: "t"}, {A: "settle"}, {A: "tell", X: who, Op: "nop"},
			{A: "kill", X: []string{who, who, "a"}[rng.Intn(3)], Poison: rng.Intn(3) > 0}, {A: "settle"}, {A: "tell", X: "b", Op: "nop"}, {A: "settle"}}
		return sc, steps
	}
	if rng.Intn(5) == 0 {
		// an actor (with or without a provider) replaces or stacks its behaviour, fails and is restarted: the next message
		// is handled by OnReceive again ("Restart ... resets state")
		who := []string{"b", "c", "d"}[rng.Intn(3)]
		sc.Cfg.Decision["a"] = []string{"restart", "grestart"}[rng.Intn(2)]
		sc.Cfg.Decision["t"] = sc.Cfg.Decision["a"]
		sc.Cfg.Decision["c"] = sc.Cfg.Decision["a"]
		if rng.Intn(2) == 0 {
			sc.Cfg.NoProvider = []string{who}
		}
		steps := []asStep{{A: "spawn", X: "t"}, {A: "settle"}, {A: "tell", X: who, Op: []string{"become!", "become"}[rng.Intn(2)]}, {A: "settle"},
			{A: "tell", X: who, Op: "nop"}, {A: "tell", X: who, Op: "fail"}, {A: "settle"}, {A: "tell", X: who, Op: "nop"}, {A: "settle"}}
		return sc, steps
	}
	if rng.Intn(4) == 0 {
		// one-for-all Restart of a (which has a child, so its restart spans several turns) and b; a Kill aimed at a arrives
		// while a waits for its child, before b has handled its own Restart: a terminates, b must come back
		par := map[string]string{"t": "root", "a": "t", "b": "t", "c": "a"}
		sc := &asScenario{Parent: par, Names: []string{"a", "b", "c", "t"}, Cfg: asConfig{Decision: map[string]string{}, Strategy: map[string]string{}}}
		for _, n := range sc.Names {
			sc.Cfg.Decision[n] = "restart"
			sc.Cfg.Strategy[n] = "ofo"
		}
		sc.Cfg.Decision["t"] = []string{"restart", "grestart"}[rng.Intn(2)]
		sc.Cfg.Strategy["t"] = "ofa"
		steps := []asStep{{A: "spawn", X: "t"}, {A: "turn", X: "t"}, {A: "turn", X: "a"}, {A: "turn", X: "b"}, {A: "turn", X: "c"},
			{A: "tell", X: "a", Op: "fail"}, {A: "turn", X: "a"}, {A: "turn", X: "t"}, {A: "turn", X: "a"},
			{A: "kill", X: "a", Poison: rng.Intn(2) == 0}, {A: "turn", X: "a"}, {A: "random"}}
		for i := 0; i < rng.Intn(3); i++ {
			steps = append(steps, asStep{A: "tell", X: []string{"b", "t"}[rng.Intn(2)], Op: "nop"})
		}
		return sc, steps
	}
	if rng.Intn(4) == 0 {
		// an actor that owns a Loop job fails and is resumed (directly, or after an escalation that ends in Resume): the
		// job belongs to the state that Resume leaves intact
		who := []string{"b", "c", "d"}[rng.Intn(3)] // b: t resumes; c, d: a escalates, t resumes
		// (the owner asks its scheduler about the job after the failure has been dealt with, then it is poison-killed so
		// that the ticks end)
		steps := []asStep{{A: "spawn", X: "t"}, {A: "settle"}, {A: "tell", X: who, Op: "sched-loop"},
			{A: "tell", X: who, Op: "fail"}, {A: "tell", X: who, Op: "jobs"}, {A: "kill", X: who, Poison: true}}
		return sc, steps
	}
	steps := []asStep{{A: "spawn", X: "t"}}
	if rng.Intn(2) == 0 {
		steps = append(steps, asStep{A: "settle"})
	}
	burst := []asStep{{A: "tell", X: "c", Op: "fail"}, {A: "tell", X: "d", Op: "fail", Burst: true}}
	if rng.Intn(2) == 0 {
		burst[0].X, burst[1].X = "d", "c"
	}
	for i := 0; i < rng.Intn(3); i++ {
		steps = append(steps, asStep{A: "tell", X: sc.Names[rng.Intn(len(sc.Names))], Op: "nop"})
	}
	steps = append(steps, burst...)
	for i := 0; i < rng.Intn(4); i++ {
		steps = append(steps, asStep{A: "tell", X: sc.Names[rng.Intn(len(sc.Names))], Op: []string{"nop", "fail"}[rng.Intn(2)]})
	}
	return sc, steps
}

// asZombieSubscriber: an actor that holds subscriptions fails, its restart fails (it becomes a zombie) and it is
// then killed or stopped with the system: the stream must not keep an entry for it.
// asDefensiveUnsubscribe: actors unsubscribe from types they are not subscribed to (again and again) while others stay
// subscribed; every publication still reaches every subscriber.
func asDefensiveUnsubscribe(rng *rand.Rand) (*asScenario, []asStep) {
	par := map[string]string{"t": "root", "a": "t", "b": "t", "c": "t"}
	sc := &asScenario{Parent: par, Names: []string{"a", "b", "c", "t"}, Cfg: asConfig{Decision: map[string]string{}, Strategy: map[string]string{}}}
	for _, n := range sc.Names {
		sc.Cfg.Decision[n], sc.Cfg.Strategy[n] = "resume", "ofo"
	}
	steps := []asStep{{A: "spawn", X: "t"}, {A: "settle"}}
	nsub := 1 + rng.Intn(3)
	subs := []string{"a", "b", "c"}[:nsub]
	for _, n := range subs {
		steps = append(steps, asStep{A: "tell", X: n, Op: "sub", Arg: "A"})
	}
	steps = append(steps, asStep{A: "settle"}, asStep{A: "tell", X: "t", Op: "pub", Arg: "A"}, asStep{A: "settle"})
	for k := 0; k < 9+nsub+rng.Intn(3); k++ { // more often than there are subscriptions in the whole system (the observer holds five)
		// t is not subscribed to anything
		steps = append(steps, asStep{A: "tell", X: "t", Op: "unsub", Arg: "A"}, asStep{A: "settle"}, asStep{A: "tell", X: "t", Op: "pub", Arg: "A"}, asStep{A: "settle"})
	}
	return sc, steps
}

// asSubscriptionEdges: (a) the same subscription made twice (also by the next incarnation after a restart), given up once,
// then an event is published: the second Subscribe had no additional effect, so nothing is delivered and no entry is left;
// (b) a subscriber whose restart is turned into a termination by a Kill that arrives while it waits for its child: its
// entries are gone like after any other termination.
func asSubscriptionEdges(rng *rand.Rand) (*asScenario, []asStep) {
	par := map[string]string{"t": "root", "f": "t", "c": "f", "b": "t"}
	sc := &asScenario{Parent: par, Names: []string{"b", "c", "f", "t"}, Cfg: asConfig{Decision: map[string]string{}, Strategy: map[string]string{}}}
	for _, n := range sc.Names {
		sc.Cfg.Decision[n] = []string{"restart", "grestart", "resume"}[rng.Intn(3)]
		sc.Cfg.Strategy[n] = []string{"ofo", "ofa"}[rng.Intn(2)]
	}
	typ := []string{"A", "B"}[rng.Intn(2)]
	if rng.Intn(2) == 0 {
		who := []string{"f", "c", "b"}[rng.Intn(3)]
		steps := []asStep{{A: "spawn", X: "t"}, {A: "settle"}, {A: "tell", X: who, Op: "sub", Arg: typ}, {A: "settle"}}
		if rng.Intn(2) == 0 && who != "c" {
			// the second Subscribe comes from the incarnation after a restart
			sc.Cfg.Decision["t"] = "restart"
			steps = append(steps, asStep{A: "tell", X: who, Op: "fail"}, asStep{A: "settle"})
		}
		steps = append(steps, asStep{A: "tell", X: who, Op: "sub", Arg: typ}, asStep{A: "settle"},
			asStep{A: "tell", X: who, Op: "unsub", Arg: typ}, asStep{A: "settle"},
			asStep{A: "tell", X: "t", Op: "pub", Arg: typ}, asStep{A: "settle"})
		return sc, steps
	}
	sc.Cfg.Decision["t"] = []string{"grestart", "restart"}[rng.Intn(2)]
	sc.Cfg.Strategy["t"] = "ofo"
	steps := []asStep{{A: "spawn", X: "t"}, {A: "turn", X: "t"}, {A: "turn", X: "b"}, {A: "turn", X: "f"}, {A: "turn", X: "c"},
		{A: "tell", X: "f", Op: "sub", Arg: typ}, {A: "turn", X: "f"},
		{A: "tell", X: "f", Op: "fail"}, {A: "turn", X: "f"}, {A: "turn", X: "t"}, {A: "turn", X: "f"},
		{A: "kill", X: "f", Poison: rng.Intn(3) > 0}, {A: "random"},
		{A: "settle"}, {A: "tell", X: "b", Op: "pub", Arg: typ}, {A: "settle"}}
	return sc, steps
}

func asZombieSubscriber(rng *rand.Rand) (*asScenario, []asStep) {
	if rng.Intn(3) == 0 {
		return asSubscriptionEdges(rng)
	}
	if rng.Intn(2) == 0 {
		return asDefensiveUnsubscribe(rng)
	}
	par := map[string]string{"t": "root", "a": "t", "b": "t", "c": "a"}
	sc := &asScenario{Parent: par, Names: []string{"a", "b", "c", "t"}, Cfg: asConfig{Decision: map[string]string{}, Strategy: map[string]string{}}}
	for _, n := range sc.Names {
		sc.Cfg.Decision[n] = []string{"restart", "grestart"}[rng.Intn(2)]
		sc.Cfg.Strategy[n] = []string{"ofo", "ofa"}[rng.Intn(2)]
	}
	victim := []string{"a", "c"}[rng.Intn(2)]
	sc.Cfg.HookFail = []string{victim, []string{"prerestart", "restarted", "prelaunch"}[rng.Intn(3)]}
	if rng.Intn(2) == 0 {
		sc.Cfg.HookFailMode = "panic"
	}
	steps := []asStep{{A: "spawn", X: "t"}, {A: "tell", X: victim, Op: "sub", Arg: []string{"A", "B"}[rng.Intn(2)]}, {A: "tell", X: "b", Op: "sub", Arg: "A"}}
	if rng.Intn(2) == 0 {
		steps = append(steps, asStep{A: "tell", X: victim, Op: "sub", Arg: "B"})
	}
	steps = append(steps, asStep{A: "tell", X: victim, Op: "fail"})
	for i := 0; i < 1+rng.Intn(3); i++ {
		steps = append(steps, asStep{A: "tell", X: "b", Op: "pub", Arg: []string{"A", "B"}[rng.Intn(2)]})
	}
	if rng.Intn(2) == 0 {
		steps = append(steps, asStep{A: "kill", X: victim, Poison: rng.Intn(2) == 0})
		steps = append(steps, asStep{A: "tell", X: "b", Op: "pub", Arg: "A"})
	}
	return sc, steps
}

// asConcurrentSiblingFailures: two siblings fail in one burst under a one-for-all supervisor whose decisions differ
// from round to round (for instance Resume for the first fault, Restart for the second); mail is queued behind them.
// asFailingRestartHook: an actor fails, its supervisor restarts it, a restart hook fails (by returning an error or by
// panicking): the actor must become a zombie that runs no user code, blocks nobody and is released by a kill.
func asFailingRestartHook(rng *rand.Rand) (*asScenario, []asStep) {
	par := map[string]string{"t": "root", "a": "t", "b": "t", "c": "a"}
	sc := &asScenario{Parent: par, Names: []string{"a", "b", "c", "t"}, Cfg: asConfig{Decision: map[string]string{}, Strategy: map[string]string{}}}
	for _, n := range sc.Names {
		sc.Cfg.Decision[n] = []string{"restart", "grestart"}[rng.Intn(2)]
		sc.Cfg.Strategy[n] = []string{"ofo", "ofa"}[rng.Intn(2)]
	}
	victim := []string{"a", "c", "b"}[rng.Intn(3)]
	if rng.Intn(3) == 0 {
		// the double fault: the restart succeeds, the new incarnation's OnLaunch fails, with mail queued behind
		sc.Cfg.RelaunchFail = []string{victim}
		sc.Cfg.DecisionSeq = map[string][]string{sc.Parent[victim]: {[]string{"restart", "grestart"}[rng.Intn(2)], []string{"restart", "resume", "stop", "grestart"}[rng.Intn(4)]}}
		if rng.Intn(2) == 0 {
			// fixed schedule: b (childless: its restart is one turn) fails with mail behind it, is restarted, its new
			// OnLaunch fails; if b has a turn before its supervisor has decided again, it is taken first
			sc.Cfg.RelaunchFail = []string{"b"}
			sc.Cfg.Strategy["t"] = "ofo"
			sc.Cfg.DecisionSeq = map[string][]string{"t": {"restart", []string{"restart", "resume", "stop", "grestart"}[rng.Intn(4)]}}
			steps := []asStep{{A: "spawn", X: "t"}, {A: "turn", X: "t"}, {A: "turn", X: "a"}, {A: "turn", X: "b"}, {A: "turn", X: "c"},
				{A: "tell", X: "b", Op: "fail"}, {A: "tell", X: "b", Op: "nop"}, {A: "tell", X: "b", Op: "nop"},
				{A: "turn", X: "b"}, {A: "turn", X: "t"}, {A: "turn", X: "b"}, {A: "turn", X: "b"}, {A: "random"}}
			for i := 0; i < rng.Intn(3); i++ {
				steps = append(steps, asStep{A: "tell", X: []string{"a", "b", "t"}[rng.Intn(3)], Op: "nop"})
			}
			return sc, steps
		}
		steps := []asStep{{A: "spawn", X: "t"}, {A: "settle"}, {A: "tell", X: victim, Op: "fail"}}
		for i := 0; i < 2+rng.Intn(3); i++ {
			steps = append(steps, asStep{A: "tell", X: victim, Op: "nop", Burst: true})
		}
		return sc, steps
	}
	sc.Cfg.HookFail = []string{victim, []string{"restarted", "prelaunch", "prerestart"}[rng.Intn(3)]}
	if rng.Intn(2) == 0 {
		sc.Cfg.HookFailMode = "panic"
	}
	steps := []asStep{{A: "spawn", X: "t"}}
	if rng.Intn(2) == 0 {
		steps = append(steps, asStep{A: "settle"})
	}
	steps = append(steps, asStep{A: "tell", X: victim, Op: "fail"})
	for i := 0; i < 2+rng.Intn(3); i++ {
		steps = append(steps, asStep{A: "tell", X: []string{victim, victim, "b", "t"}[rng.Intn(4)], Op: "nop", Burst: rng.Intn(2) == 0})
	}
	if rng.Intn(2) == 0 {
		steps = append(steps, asStep{A: "kill", X: victim, Poison: rng.Intn(2) == 0})
	}
	return sc, steps
}

// asStopDuringGracefulRestart: f fails, its supervisor t decides GracefulRestart, f is tearing down and still waits for
// its child when t itself (or f) is stopped, by poison or immediately: everybody must terminate - nobody comes back to
// life, nobody waits for ever.
func asStopDuringGracefulRestart(rng *rand.Rand) (*asScenario, []asStep) {
	par := map[string]string{"t": "root", "f": "t", "c": "f", "b": "t"}
	sc := &asScenario{Parent: par, Names: []string{"b", "c", "f", "t"}, Cfg: asConfig{Decision: map[string]string{}, Strategy: map[string]string{}}}
	for _, n := range sc.Names {
		sc.Cfg.Decision[n] = []string{"restart", "grestart", "resume"}[rng.Intn(3)]
		sc.Cfg.Strategy[n] = []string{"ofo", "ofa"}[rng.Intn(2)]
	}
	sc.Cfg.Decision["t"] = "grestart"
	sc.Cfg.Strategy["t"] = "ofo"
	steps := []asStep{{A: "spawn", X: "t"}, {A: "turn", X: "t"}, {A: "turn", X: "b"}, {A: "turn", X: "f"}, {A: "turn", X: "c"},
		{A: "tell", X: "f", Op: "fail"}, {A: "turn", X: "f"}, {A: "turn", X: "t"}, {A: "turn", X: "f"},
		{A: "kill", X: []string{"t", "t", "f"}[rng.Intn(3)], Poison: rng.Intn(3) > 0}, {A: "random"}}
	for i := 0; i < rng.Intn(3); i++ {
		steps = append(steps, asStep{A: "tell", X: []string{"b", "f", "t"}[rng.Intn(3)], Op: "nop"})
	}
	return sc, steps
}

func asConcurrentSiblingFailures(rng *rand.Rand) (*asScenario, []asStep) {
	if rng.Intn(5) == 0 {
		return asStopDuringGracefulRestart(rng)
	}
	if rng.Intn(4) == 0 {
		// siblings failing one after the other below a supervisor that escalates while it is still suspended by the first
		// escalation; the top answers Resume or a graceful decision
		return asOverlappingEscalations(rng)
	}
	if rng.Intn(2) == 0 {
		return asFailingRestartHook(rng)
	}
	par := map[string]string{"t": "root", "a": "t", "b": "t", "c": "b", "d": "a"}
	sc := &asScenario{Parent: par, Names: []string{"a", "b", "c", "d", "t"}, Cfg: asConfig{Decision: map[string]string{}, Strategy: map[string]string{}}}
	decs := []string{"restart", "grestart", "stop", "gstop", "resume", "escalate"}
	for _, n := range sc.Names {
		sc.Cfg.Decision[n] = decs[rng.Intn(len(decs))]
		sc.Cfg.Strategy[n] = []string{"ofo", "ofa"}[rng.Intn(2)]
	}
	sc.Cfg.Strategy["t"] = "ofa"
	first := []string{"resume", "resume", "grestart", "gstop"}[rng.Intn(4)]
	second := []string{"restart", "restart", "restart", "grestart", "resume", "stop"}[rng.Intn(6)]
	sc.Cfg.DecisionSeq = map[string][]string{"t": {first, second}}
	// the whole tree is up and idle, then both faults and the mail behind them arrive in one burst
	steps := []asStep{{A: "spawn", X: "t"}, {A: "settle"}}
	burst := []asStep{{A: "tell", X: "a", Op: "fail"}, {A: "tell", X: "b", Op: "fail", Burst: true}}
	if rng.Intn(2) == 0 {
		burst[0].X, burst[1].X = "b", "a"
	}
	steps = append(steps, burst...)
	for i := 0; i < 3+rng.Intn(4); i++ {
		steps = append(steps, asStep{A: "tell", X: []string{"a", "b"}[rng.Intn(2)], Op: "nop", Burst: true})
	}
	return sc, steps
}

// asKillDuringGracefulRestart: an actor fails, its supervisor decides GracefulRestart, the actor is tearing down and still
// waits for its child when a Kill (poison or immediate) aimed at it arrives: it must terminate, not come back.
// A second family: jobs of the scheduler under a re-used reference (Once, Cancel, Loop), then the owner is killed.
func asKillDuringGracefulRestart(rng *rand.Rand) (*asScenario, []asStep) {
	par := map[string]string{"t": "root", "f": "t", "c": "f", "b": "t"}
	sc := &asScenario{Parent: par, Names: []string{"b", "c", "f", "t"}, Cfg: asConfig{Decision: map[string]string{}, Strategy: map[string]string{}}}
	for _, n := range sc.Names {
		sc.Cfg.Decision[n] = []string{"restart", "grestart", "resume"}[rng.Intn(3)]
		sc.Cfg.Strategy[n] = []string{"ofo", "ofa"}[rng.Intn(2)]
	}
	if rng.Intn(2) == 0 {
		// scheduler family
		steps := []asStep{{A: "spawn", X: "t"}, {A: "settle"}}
		seq := [][]string{{"sched-once", "sched-cancel", "sched-loop"}, {"sched-loop"}, {"sched-once", "sched-loop"}, {"sched-loop", "sched-cancel", "sched-loop"}}[rng.Intn(4)]
		for _, op := range seq {
			steps = append(steps, asStep{A: "tell", X: "f", Op: op}, asStep{A: "settle"})
		}
		steps = append(steps, asStep{A: "kill", X: []string{"f", "t"}[rng.Intn(2)], Poison: rng.Intn(2) == 0}, asStep{A: "settle"})
		for i := 0; i < 3; i++ {
			steps = append(steps, asStep{A: "tell", X: "b", Op: "nop"}, asStep{A: "settle"})
		}
		return sc, steps
	}
	if rng.Intn(5) == 0 {
		// a watcher registered before its target is restarted (once or twice) must still hear of the target's later termination
		sc.Cfg.Decision["t"] = []string{"restart", "grestart"}[rng.Intn(2)]
		sc.Cfg.Strategy["t"] = []string{"ofo", "ofa"}[rng.Intn(2)]
		steps := []asStep{{A: "spawn", X: "t"}, {A: "settle"}, {A: "tell", X: "b", Op: "watch", Arg: "f"}, {A: "settle"}}
		for i := 0; i < 1+rng.Intn(2); i++ {
			steps = append(steps, asStep{A: "tell", X: "f", Op: "fail"}, asStep{A: "settle"})
		}
		steps = append(steps, asStep{A: "kill", X: "f", Poison: rng.Intn(2) == 0}, asStep{A: "settle"})
		return sc, steps
	}
	if rng.Intn(4) == 0 {
		// subscriptions with a history (two types, one given up again, by the only or not the only subscriber), then the
		// subscriber terminates: nothing of it may stay in the stream
		steps := []asStep{{A: "spawn", X: "t"}, {A: "settle"}}
		who := []string{"f", "c", "b"}[rng.Intn(3)]
		seq := [][][2]string{{{"sub", "A"}, {"sub", "B"}, {"unsub", "A"}}, {{"sub", "B"}, {"sub", "A"}, {"unsub", "B"}}, {{"sub", "A"}, {"sub", "B"}, {"unsub", "A"}, {"sub", "A"}}, {{"sub", "A"}, {"unsub", "A"}, {"sub", "B"}}}[rng.Intn(4)]
		if rng.Intn(2) == 0 {
			steps = append(steps, asStep{A: "tell", X: "t", Op: "sub", Arg: "A"}, asStep{A: "settle"}) // somebody else holds A as well
		}
		for _, o := range seq {
			steps = append(steps, asStep{A: "tell", X: who, Op: o[0], Arg: o[1]}, asStep{A: "settle"})
		}
		steps = append(steps, asStep{A: "kill", X: []string{who, "f", "t"}[rng.Intn(3)], Poison: rng.Intn(2) == 0}, asStep{A: "settle"},
			asStep{A: "tell", X: "t", Op: "pub", Arg: "A"}, asStep{A: "tell", X: "t", Op: "pub", Arg: "B"}, asStep{A: "settle"})
		return sc, steps
	}
	if rng.Intn(3) == 0 {
		// a Watch that reaches its target while the target is terminating (or restarting) and still waits for its child:
		// the watcher must hear of the termination when it has happened - not earlier, and not at all for a restart
		sc.Cfg.Decision["t"] = []string{"restart", "grestart"}[rng.Intn(2)]
		sc.Cfg.Strategy["t"] = "ofo"
		steps := []asStep{{A: "spawn", X: "t"}, {A: "turn", X: "t"}, {A: "turn", X: "b"}, {A: "turn", X: "f"}, {A: "turn", X: "c"}}
		if rng.Intn(2) == 0 {
			steps = append(steps, asStep{A: "kill", X: "f", Poison: rng.Intn(2) == 0}, asStep{A: "turn", X: "f"})
		} else {
			steps = append(steps, asStep{A: "tell", X: "f", Op: "fail"}, asStep{A: "turn", X: "f"}, asStep{A: "turn", X: "t"}, asStep{A: "turn", X: "f"})
		}
		steps = append(steps, asStep{A: "tell", X: "b", Op: "watch", Arg: "f"}, asStep{A: "turn", X: "b"}, asStep{A: "turn", X: "f"}, asStep{A: "random"})
		if rng.Intn(2) == 0 {
			steps = append(steps, asStep{A: "kill", X: "f", Poison: rng.Intn(2) == 0})
		}
		return sc, steps
	}
	sc.Cfg.Decision["t"] = "grestart"
	sc.Cfg.Strategy["t"] = "ofo"
	steps := []asStep{{A: "spawn", X: "t"}, {A: "turn", X: "t"}, {A: "turn", X: "b"}, {A: "turn", X: "f"}, {A: "turn", X: "c"},
		{A: "tell", X: "f", Op: "fail"}, {A: "turn", X: "f"}, {A: "turn", X: "t"}, {A: "turn", X: "f"},
		{A: "kill", X: "f", Poison: rng.Intn(3) > 0}, {A: "random"}}
	for i := 0; i < rng.Intn(3); i++ {
		steps = append(steps, asStep{A: "tell", X: []string{"b", "f", "t"}[rng.Intn(3)], Op: "nop"})
	}
	return sc, steps
}

func asCheck(c *core.Ctx, plan asPlan) {
	dir, err := c.SpecDir("actorsys")
	if err != nil {
		c.Broken("spec dir: %v", err)
		return
	}
	mcs := plan.mc
	if c.Thorough() {
		mcs = append(mcs, plan.mcThor...)
	}
	if os_skipMC() {
		mcs = nil
	}
	for _, cfg := range mcs {
		r, err := tlc.Exec(tlc.Run{Dir: dir, Module: "MC_ActorSys", Config: cfg, Timeout: core.Pick(c, 5*time.Minute, 45*time.Minute)})
		if err != nil || r.Violation != "" {
			c.Broken("model checking %s failed on the model of record: %v %s\n%s", cfg, err, vio(r), tailOf(r))
			return
		}
		c.MC("MC_ActorSys/"+cfg, r)
	}
	var traces []*Trace
	distinct := map[string]bool{}
	collect := func(name, class string, scen any, run *asRun) {
		if run.Stuck != "" {
			// a step that never settles: recorded for the monitors (NobodySpins) and counted
			run.Events = append(run.Events, map[string]any{"e": "Stuck", "s": run.Stuck})
			c.Add("stuck_runs", 1)
		}
		c.Add("evaluations", 1)
		c.Add("replayed_steps", int64(run.Steps))
		c.Add("conformance_steps", int64(run.Conform))
		c.Add("conformance_mismatch_steps", int64(run.Mismatch))
		c.Add("drift_behaviours", int64(run.Drift))
		if run.FirstMismatch != "" && c.Get("mismatch_samples") < 3 {
			c.Add("mismatch_samples", 1)
			c.Sample(map[string]any{"conformance_mismatch": run.FirstMismatch, "trace": name})
		}
		tag := asTags(run.Events)
		cls := class
		if tag != "-" {
			cls = tag
		}
		if asNontrivial(run.Events) {
			distinct[asSignature(run.Events)] = true
		}
		traces = append(traces, &Trace{Events: run.Events, Class: cls, Name: name, Scenario: scen})
	}
	for gi, g := range plan.gen {
		behs, _, err := asGenerate(dir, g, core.Pick(c, 250, 3000), c.Seed*17+int64(gi), 15*time.Minute)
		if err != nil {
			c.Broken("behaviour generation %s: %v", g, err)
			return
		}
		c.Add("tlc_behaviours_generated", int64(len(behs)))
		asReplayAll(behs, c.Seed, func(i int, b *asBehaviour, run *asRun) {
			collect(fmt.Sprintf("%s#%d", g, i), "tlc", map[string]any{"scenario": b.Scen, "schedule": b.Steps, "seed": c.Seed + int64(i)}, run)
		})
	}
	// random scenarios: larger trees, more operations, hook and launch failures, random turn schedules
	rng := rand.New(rand.NewSource(c.Seed))
	type rjob struct {
		sc    *asScenario
		steps []asStep
	}
	var rj []*asBehaviour
	for i := 0; i < core.Pick(c, 400, 6000); i++ {
		sc, steps := asRandomScenario(rng, plan.ops, plan.vias)
		if plan.directed != nil && (i%5 == 4 || os.Getenv("VERIF_DIRECTED_ONLY") != "") {
			sc, steps = plan.directed(rng)
		}
		rj = append(rj, &asBehaviour{Scen: *sc, Steps: steps})
	}
	sem := make(chan struct{}, 12)
	done := make(chan struct{}, len(rj))
	type res struct {
		i   int
		run *asRun
	}
	results := make([]*asRun, len(rj))
	for i, b := range rj {
		sem <- struct{}{}
		go func(i int, b *asBehaviour) {
			defer func() { <-sem; done <- struct{}{} }()
			sc := b.Scen
			// top-level spawns first, the remaining driver operations are interleaved randomly with turns
			var first, rest []asStep
			marker := -1
			for k, s := range b.Steps {
				if s.A == "random" {
					marker = k
				}
			}
			if marker >= 0 {
				// a directed scenario: the steps before the marker are a fixed schedule (explicit turns), the rest is random
				first, rest = b.Steps[:marker], b.Steps[marker+1:]
			} else {
				for _, s := range b.Steps {
					if s.A == "spawn" {
						first = append(first, s)
					} else {
						rest = append(rest, s)
					}
				}
			}
			results[i] = runActorScenario(&sc, first, c.Seed*7907+int64(i), rest)
		}(i, b)
	}
	for range rj {
		<-done
	}
	for i, b := range rj {
		collect(fmt.Sprintf("random#%d", i), "random", map[string]any{"scenario": b.Scen, "ops": b.Steps, "seed": c.Seed*7907 + int64(i)}, results[i])
	}
	for _, mon := range plan.monitors {
		res := ValidateTraces(c, "asmon", mon, mon+".cfg", traces, asDefaults)
		res.Report(c, mon)
		c.Add("traces_validated_against_impl", int64(res.Validated))
	}
	if plan.rule != "" {
		c.Set("distinct_nontrivial", len(distinct))
		c.Set("rule", plan.rule)
	} else {
		c.Add("distinct_nontrivial", int64(len(distinct)))
	}
	if len(traces) > 0 {
		c.Sample(map[string]any{"name": traces[0].Name, "events": head(traces[0].Events, 40)})
		c.Sample(map[string]any{"name": traces[len(traces)-1].Name, "events": head(traces[len(traces)-1].Events, 40)})
	}
	c.Assume("one turn (one HandleEnvelop) is atomic with respect to other actors' turns: the mailbox guarantees it (C01); the root actor and the observer run ungated")
	c.Assume("the scripted behaviour and decision maker are the only user code; re-use of actor names is not part of the TLC model")
}

func asSignature(ev []map[string]any) string {
	var sb strings.Builder
	for _, e := range ev {
		fmt.Fprintf(&sb, "%v/%v/%v/%v;", e["e"], e["a"], e["k"], e["m"])
	}
	return sb.String()
}

// a trace is non-trivial when a failure, a kill or a dead letter occurred in it
func asNontrivial(ev []map[string]any) bool {
	for _, e := range ev {
		switch e["e"] {
		case "Fail", "KillCall", "DL", "Stashed", "Pub":
			return true
		}
	}
	return false
}

var asOpsBasic = [][2]string{{"nop", ""}, {"nop", ""}, {"fail", ""}, {"tell", "@"}, {"kill", "@"}, {"pkill", "@"}}
var asOpsStash = [][2]string{{"nop", ""}, {"stash", ""}, {"stash", ""}, {"stash", ""}, {"unstash", ""}, {"unstash", "1"}, {"unstash", "3"}, {"fail", ""}, {"tell", "@"}, {"tellself", ""}}
var asOpsStream = [][2]string{{"nop", ""}, {"sub", "A"}, {"sub", "B"}, {"unsub", "A"}, {"unsub", "B"}, {"unsuball", ""}, {"sub", "C"}, {"sub", "D"}, {"unsub", "C"}, {"pub", "C"}, {"pub", "D"}, {"pub", "A"}, {"pub", "A"}, {"pub", "B"}, {"fail", ""}, {"kill", "@"}}
var asOpsWatch = [][2]string{{"nop", ""}, {"watch", "@"}, {"watch", "@"}, {"unwatch", "@"}, {"kill", "@"}, {"pkill", "@"}, {"fail", ""}}

func init() {
	base := "TLC-simulated behaviours of ActorSys (tree t->{a,b}, every decision x strategy, driver tells/kills) are replayed turn by turn on a real actor.System (gate at the mailbox consumer, scripted behaviours, scripted decision makers) with the context projection compared after every step; random scenarios over 5 tree shapes (up to depth 3), 3-12 driver operations, launch and restart-hook failures run under seeded random turn schedules; every run ends with probes, path look-ups, system stop and post-stop sends. Non-trivial: a failure, kill, dead letter, stash or publication occurred; distinct by event sequence. "
	t3 := []string{"MC_T3_" + asVariant + ".cfg"}
	g3 := []string{"Gen_T3_" + asVariant + ".cfg"}
	register("C03", func(c *core.Ctx) {
		// the mailbox is one of the places where a message can vanish (a lost wake-up leaves it queued for ever):
		// fine-grained replays of the Mailbox spec on the real mailbox, judged by MailboxMon
		if dir, err := c.SpecDir("mailbox"); err == nil {
			v := mbModelVariant
			traces, _, ok := mbCollectTraces(c, dir, []string{"Gen_Q_" + v + ".cfg", "Gen_W_" + v + ".cfg", "Gen_R_" + v + ".cfg"}, core.Pick(c, 150, 2000), core.Pick(c, 250, 4000))
			if !ok {
				return
			}
			res := ValidateTraces(c, "mailbox", "MailboxMon", "MailboxMon.cfg", traces, mbDefaults)
			res.Report(c, "MailboxMon")
			c.Add("traces_validated_against_impl", int64(res.Validated))
		}
		asCheck(c, asPlan{prop: "C03", monitors: []string{"FateMon"}, mc: t3, gen: g3, ops: append(append([][2]string{{"dlnop", ""}, {"dlnop", ""}}, asOpsBasic...), asOpsStash...), directed: asStashBatches,
			vias: []string{"", "", "clone", "parsed", "held", "held"},
			rule: base + "Judged by FateMon."})
	})
	register("C06", func(c *core.Ctx) {
		asCheck(c, asPlan{prop: "C06", monitors: []string{"KillMon"}, mc: t3, gen: g3, directed: asKillDuringGracefulRestart,
			ops:  append(append([][2]string{{"sub", "A"}, {"sub", "B"}, {"sub", "A"}, {"sub", "B"}, {"unsub", "A"}, {"unsub", "B"}, {"sched-loop", ""}, {"sched-once", ""}, {"sched-cancel", ""}}, asOpsBasic...), asOpsWatch...),
			rule: base + "Judged by KillMon. Plus an ungated run in which a parent re-spawns its child under the same name the moment it is told of the child's termination."})
		if c.IsBroken() {
			return
		}
		st, err := runRespawnStress(core.Pick(c, 20000, 200000))
		if err != nil {
			c.Broken("respawn stress: %v", err)
			return
		}
		res := ValidateTraces(c, "asmon", "KillMon", "KillMon.cfg", st, asDefaults)
		res.Report(c, "KillMon")
		c.Add("traces_validated_against_impl", int64(res.Validated))
	})
	register("C09", func(c *core.Ctx) {
		// "no surviving actor stays paused" has a mailbox-level half: the supervisor's answer reaches a paused mailbox whose
		// consumer may be on its way out.  Supervision-shaped scenarios on the real mailbox under fine-grained schedules,
		// judged by MailboxMon
		mt, ok := mbSupervisionTraces(c, core.Pick(c, 250, 3000))
		if !ok {
			return
		}
		mres := ValidateTraces(c, "mailbox", "MailboxMon", "MailboxMon.cfg", mt, mbDefaults)
		mres.Report(c, "MailboxMon")
		c.Add("traces_validated_against_impl", int64(mres.Validated))
		asCheck(c, asPlan{prop: "C09", monitors: []string{"UnstuckMon"}, mc: t3, gen: g3, ops: asOpsBasic, directed: asConcurrentSiblingFailures,
			rule: base + "Judged by UnstuckMon. Plus supervision-shaped scenarios on the real mailbox (a handler pauses its own mailbox, system messages that pause and resume it arrive from another goroutine) under fine-grained schedules, judged by MailboxMon."})
	})
	register("C19", func(c *core.Ctx) {
		asCheck(c, asPlan{prop: "C19", monitors: []string{"StreamMon"}, mc: t3, gen: g3, ops: asOpsStream, directed: asZombieSubscriber,
			rule: base + "Judged by StreamMon. Plus an ungated run: two goroutines publish continuously while a third subscribes and unsubscribes an actor; publications that provably started after Unsubscribe returned must not arrive."})
		if c.IsBroken() {
			return
		}
		st, err := runStreamStress(c, core.Pick(c, 4000, 40000))
		if err != nil {
			c.Broken("stream stress: %v", err)
			return
		}
		st2, err := runSubscriberRespawnStress(core.Pick(c, 25000, 250000))
		if err != nil {
			c.Broken("subscriber respawn stress: %v", err)
			return
		}
		st = append(st, st2...)
		// many subscribers of one type (more than any fan-out threshold a stream might have), a burst from one publisher
		for i, n := range core.Pick(c, []int{40, 70}, []int{40, 70, 130, 33, 257}) {
			mt, err := runManySubscribers(c.Seed+int64(i), n, core.Pick(c, 60, 200))
			if err != nil {
				c.Broken("many subscribers: %v", err)
				return
			}
			c.Add("evaluations", 1)
			st = append(st, mt)
		}
		res := ValidateTraces(c, "asmon", "StreamMon", "StreamMon.cfg", st, asDefaults)
		res.Report(c, "StreamMon")
		c.Add("traces_validated_against_impl", int64(res.Validated))
	})
	register("C08", func(c *core.Ctx) {
		asCheck(c, asPlan{prop: "C08", monitors: []string{"SuperviseMon", "StateMon", "LifecycleMon"}, mc: t3, gen: g3, ops: [][2]string{{"nop", ""}, {"nop", ""}, {"fail", ""}, {"tell", "@"}, {"become!", ""}}, directed: asOverlappingEscalations,
			rule: base + "Judged by SuperviseMon and StateMon (the jobs of a resumed actor's scheduler survive; restart targets keep their reference when a Kill arrives during a one-for-all restart)."})
	})
	register("C05", func(c *core.Ctx) {
		asCheck(c, asPlan{prop: "C05", monitors: []string{"LifecycleMon"}, mc: []string{"MC_T3_" + asVariant + ".cfg"}, gen: []string{"Gen_T3_" + asVariant + ".cfg"},
			ops:  append(append([][2]string{}, asOpsBasic...), [2]string{"become", ""}, [2]string{"become", ""}, [2]string{"become!", ""}, [2]string{"unbecome", ""}, [2]string{"unbecome!", ""}, [2]string{"watch", "@"}, [2]string{"watch", "@"}),
			rule: base + "Judged by LifecycleMon. Plus an ungated run: thousands of spawns next to a greeter that reacts to ActorSpawnedEvent and a sender that tells children by path, with a delay injected just before OnLaunch is enqueued."})
		if c.IsBroken() {
			return
		}
		for _, byPath := range []bool{false, true} {
			st, err := runFirstMessageStress(core.Pick(c, 3000, 20000), byPath)
			if err != nil {
				c.Broken("first-message stress: %v", err)
				return
			}
			res := ValidateTraces(c, "asmon", "LifecycleMon", "LifecycleMon.cfg", st, asDefaults)
			res.Report(c, "LifecycleMon")
			c.Add("traces_validated_against_impl", int64(res.Validated))
		}
	})
}
