package checks

import (
	"encoding/json"
	"fmt"
	"sort"
	"strings"
	"time"

	"github.com/kercylan98/vivid"
	"github.com/kercylan98/vivid/internal/actor"
	"github.com/kercylan98/vivid/internal/cluster"
	"github.com/kercylan98/vivid/internal/mailbox"
	"github.com/kercylan98/vivid/internal/remoting/serialize"
	"github.com/kercylan98/vivid/pkg/log"
	"github.com/kercylan98/vivid/pkg/metrics"
	"github.com/kercylan98/vivid/pkg/ves"
)

// Deterministic cluster simulator: N real cluster.NodeActor objects, each driven through a mock ActorContext.
// Tell goes into per-pair FIFO channels (through the real wire codec, so every message is a deep copy),
// Ask is answered by running the target's OnReceive inside the caller's turn, scheduler calls become named
// timers that the driver fires, published events are recorded.  No sockets, no goroutines, no sleeping.

type gsim struct {
	names     []string            // node names in address order
	seeds     []string            // seed node names
	seedsOf   map[string][]string // nodes configured with a seed list of their own
	nodes     map[string]*gnode
	chans     map[[2]string][]vivid.Message
	cut       map[[2]string]bool
	events    []map[string]any
	stable    bool // StableIds
	askOnly   string
	sends     int
	announced int
	fd        time.Duration // failure detection time-out (0 = off)
}

type gnode struct {
	sim     *gsim
	name    string
	addr    string
	run     string // down | joining | up | left
	starts  int
	id      string
	actor   *cluster.NodeActor
	timers  map[string]vivid.Message
	selfQ   []vivid.Message
	leader  string
	iam     bool
	hasLead bool
}

func gaddr(name string) string { return name + ".cluster.test:7000" }
func gname(addr string) string { return strings.SplitN(addr, ".", 2)[0] }

func newGsim(names, seeds []string, stableIds bool) *gsim {
	s := &gsim{names: append([]string{}, names...), seeds: append([]string{}, seeds...), nodes: map[string]*gnode{}, chans: map[[2]string][]vivid.Message{}, cut: map[[2]string]bool{}, stable: stableIds}
	sort.Strings(s.names)
	for _, n := range s.names {
		s.nodes[n] = &gnode{sim: s, name: n, addr: gaddr(n), run: "down"}
	}
	return s
}

func (s *gsim) ev(e map[string]any) { s.events = append(s.events, e) }

func pairKey(a, b string) [2]string {
	if a > b {
		a, b = b, a
	}
	return [2]string{a, b}
}

func (s *gsim) canTalk(a, b string) bool { return !s.cut[pairKey(a, b)] }

// wireCopy sends a message through the real envelope codec.
func wireCopy(sender, recv vivid.ActorRef, msg vivid.Message) (vivid.Message, error) {
	data, err := serialize.EncodeEnvelopWithRemoting(nil, mailbox.NewEnvelop(false, sender, recv, msg))
	if err != nil {
		return nil, err
	}
	_, _, _, _, _, inst, err := serialize.DecodeEnvelopWithRemoting(nil, data)
	return inst, err
}

// ---- mock context ----

type gctx struct {
	vivid.ActorContext // nil: any method the node uses that is not mocked panics and shows up at once
	n                  *gnode
	msg                vivid.Message
	sender             vivid.ActorRef
	reply              *vivid.Message
}

type gsystem struct {
	vivid.ActorSystem
}

func (gsystem) CreateRef(address, path string) (vivid.ActorRef, error) {
	return actor.NewRef(address, path)
}

type gsched struct {
	vivid.Scheduler
	n *gnode
}

func (g gsched) Loop(receiver vivid.ActorRef, interval time.Duration, message vivid.Message, options ...vivid.ScheduleOption) error {
	g.n.timers[vivid.NewScheduleOptions(options...).Reference] = message
	return nil
}
func (g gsched) Once(receiver vivid.ActorRef, delay time.Duration, message vivid.Message, options ...vivid.ScheduleOption) error {
	g.n.timers[vivid.NewScheduleOptions(options...).Reference] = message
	return nil
}
func (g gsched) Cancel(reference string) error {
	if _, ok := g.n.timers[reference]; !ok {
		return vivid.ErrorNotFound
	}
	delete(g.n.timers, reference)
	return nil
}
func (g gsched) Exists(reference string) bool { _, ok := g.n.timers[reference]; return ok }
func (g gsched) Clear()                       { g.n.timers = map[string]vivid.Message{} }

type gstream struct {
	vivid.EventStream
	n *gnode
}

func (g gstream) Publish(ctx vivid.EventStreamContext, event vivid.Message) {
	n := g.n
	switch e := event.(type) {
	case ves.ClusterLeaderChangedEvent:
		n.leader, n.iam, n.hasLead = gname(e.LeaderAddr), e.IAmLeader, true
		n.sim.announced++
		n.sim.ev(map[string]any{"e": "Leader", "n": n.name, "x": gname(e.LeaderAddr), "v": b2i(e.IAmLeader)})
	case ves.ClusterMembersChangedEvent:
		n.sim.announced++
		n.sim.ev(map[string]any{"e": "MembersChanged", "n": n.name, "k": len(e.Members)})
	case ves.ClusterLeaveCompletedEvent:
		n.sim.ev(map[string]any{"e": "LeaveCompleted", "n": n.name})
	}
}

type gfuture struct {
	vivid.Future[vivid.Message]
	res vivid.Message
	err error
}

func (f gfuture) Result() (vivid.Message, error) { return f.res, f.err }
func (f gfuture) Wait() error                    { return f.err }

func (c *gctx) Message() vivid.Message         { return c.msg }
func (c *gctx) Sender() vivid.ActorRef         { return c.sender }
func (c *gctx) Logger() log.Logger             { return silentLogger }
func (c *gctx) System() vivid.ActorSystem      { return gsystem{} }
func (c *gctx) Scheduler() vivid.Scheduler     { return gsched{n: c.n} }
func (c *gctx) EventStream() vivid.EventStream { return gstream{n: c.n} }
func (c *gctx) MetricsEnabled() bool           { return false }
func (c *gctx) Metrics() metrics.Metrics       { return nil }
func (c *gctx) Ref() vivid.ActorRef            { r, _ := actor.NewRef(c.n.addr, "/@cluster"); return r }
func (c *gctx) TellSelf(message vivid.Message) { c.n.selfQ = append(c.n.selfQ, message) }
func (c *gctx) Reply(message vivid.Message) {
	if c.reply != nil {
		*c.reply = message
		return
	}
	if c.sender != nil {
		c.Tell(c.sender, message)
	}
}

func (c *gctx) Tell(recipient vivid.ActorRef, message vivid.Message) {
	s := c.n.sim
	dst := gname(recipient.GetAddress())
	if dst == c.n.name {
		c.n.selfQ = append(c.n.selfQ, message)
		return
	}
	if _, ok := s.nodes[dst]; !ok {
		return
	}
	cp, err := wireCopy(c.Ref(), recipient, message)
	if err != nil {
		s.ev(map[string]any{"e": "CodecError", "n": c.n.name, "s": err.Error()})
		return
	}
	s.sends++
	k := [2]string{c.n.name, dst}
	s.chans[k] = append(s.chans[k], cp)
}

func (c *gctx) Ask(recipient vivid.ActorRef, message vivid.Message, timeout ...time.Duration) vivid.Future[vivid.Message] {
	s := c.n.sim
	dst := gname(recipient.GetAddress())
	t, ok := s.nodes[dst]
	// the driver decides which seed answers (the node shuffles its seed list)
	if !ok || t.run != "up" || !s.canTalk(c.n.name, dst) || (s.askOnly != "" && s.askOnly != dst) || s.askOnly == "-" {
		return gfuture{err: vivid.ErrorFutureTimeout}
	}
	req, err := wireCopy(c.Ref(), recipient, message)
	if err != nil {
		return gfuture{err: err}
	}
	var reply vivid.Message
	t.receive(req, c.Ref(), &reply)
	if reply == nil {
		return gfuture{err: vivid.ErrorFutureTimeout}
	}
	if e, ok := reply.(error); ok {
		return gfuture{err: e}
	}
	back, err := wireCopy(t.ref(), c.Ref(), reply)
	if err != nil {
		return gfuture{err: err}
	}
	return gfuture{res: back}
}

func (n *gnode) ref() vivid.ActorRef { r, _ := actor.NewRef(n.addr, "/@cluster"); return r }

// receive runs one OnReceive of the node, then its self-addressed messages.
func (n *gnode) receive(msg vivid.Message, sender vivid.ActorRef, reply *vivid.Message) {
	n.actor.OnReceive(&gctx{n: n, msg: msg, sender: sender, reply: reply})
	for len(n.selfQ) > 0 {
		m := n.selfQ[0]
		n.selfQ = n.selfQ[1:]
		n.actor.OnReceive(&gctx{n: n, msg: m, sender: n.ref()})
	}
}

// ---- driver actions (the actions of Gossip.tla) ----

func (s *gsim) launch(name string) {
	n := s.nodes[name]
	n.starts++
	n.id = name
	if !s.stable {
		n.id = fmt.Sprintf("%s#%d", name, n.starts)
	}
	var seedAddrs []string
	seeds := s.seeds
	if own, ok := s.seedsOf[name]; ok {
		seeds = own // this node is configured with a seed list of its own
	}
	for _, sd := range seeds {
		seedAddrs = append(seedAddrs, gaddr(sd))
	}
	opts := vivid.NewClusterOptions(vivid.WithClusterNodeID(n.id), vivid.WithClusterSeeds(seedAddrs), vivid.WithClusterFailureDetectionTimeout(s.fd))
	n.actor = cluster.NewNodeActor(n.addr, *opts)
	n.timers = map[string]vivid.Message{}
	n.selfQ = nil
	n.leader, n.iam, n.hasLead = "", false, false
	n.run = "joining"
	s.askOnly = "-" // a joining node's first attempt fails; Join(n, s) is a separate step
	n.receive(&vivid.OnLaunch{}, nil, nil)
	s.askOnly = ""
	if _, ok := n.timers[cluster.SchedRefGossip]; ok {
		n.run = "up"
	}
	s.ev(map[string]any{"e": "Launch", "n": name, "s": n.run, "k": n.starts})
}

func (s *gsim) join(name, seed string) bool {
	n := s.nodes[name]
	tick, ok := n.timers[cluster.SchedRefJoinRetry]
	if n.run != "joining" || !ok {
		return false
	}
	delete(n.timers, cluster.SchedRefJoinRetry)
	s.askOnly = seed
	n.receive(tick, n.ref(), nil)
	s.askOnly = ""
	if _, ok := n.timers[cluster.SchedRefGossip]; ok {
		n.run = "up"
	}
	s.ev(map[string]any{"e": "Join", "n": name, "x": seed, "s": n.run})
	return n.run == "up"
}

func (s *gsim) deliver(src, dst string) bool {
	k := [2]string{src, dst}
	q := s.chans[k]
	if len(q) == 0 {
		return false
	}
	m := q[0]
	s.chans[k] = q[1:]
	d := s.nodes[dst]
	if (d.run != "up" && d.run != "joining") || !s.canTalk(src, dst) {
		s.ev(map[string]any{"e": "Dropped", "n": dst, "x": src})
		return true
	}
	d.receive(m, s.nodes[src].ref(), nil)
	return true
}

func (s *gsim) lose(src, dst string) bool {
	k := [2]string{src, dst}
	if len(s.chans[k]) == 0 {
		return false
	}
	s.chans[k] = s.chans[k][1:]
	return true
}

func (s *gsim) tick(name string) (sent int) {
	n := s.nodes[name]
	if n.run != "up" {
		return 0
	}
	t, ok := n.timers[cluster.SchedRefGossip]
	if !ok {
		return 0
	}
	before := s.sends
	n.receive(t, n.ref(), nil)
	return s.sends - before
}

func (s *gsim) crash(name string) {
	s.nodes[name].run = "down"
	s.ev(map[string]any{"e": "Crash", "n": name})
}

func (s *gsim) leave(name string) {
	n := s.nodes[name]
	n.receive(&cluster.LeaveRequest{}, nil, nil)
	n.run = "left"
	s.ev(map[string]any{"e": "Leave", "n": name})
}

func (s *gsim) inFlight() int {
	t := 0
	for _, q := range s.chans {
		t += len(q)
	}
	return t
}

// projection of one node's state in the vocabulary of the model
type gproj struct {
	Run    string            `json:"run"`
	Mem    map[string][3]any `json:"-"`
	VV     map[string]int    `json:"-"`
	Leader string            `json:"leader"`
}

func (s *gsim) project(name string) (mem map[string]string, vv map[string]int, addrs []string) {
	n := s.nodes[name]
	mem, vv = map[string]string{}, map[string]int{}
	if n.actor == nil || n.run == "down" {
		return
	}
	view, _ := n.actor.VerifView()
	seen := map[string]bool{}
	for id, m := range view.Members {
		mem[id] = fmt.Sprintf("%d/%d/%s", m.Generation, m.LogicalClock, m.Status.String())
		a := gname(m.Address)
		if !seen[a] {
			seen[a] = true
			addrs = append(addrs, a)
		}
	}
	for _, id := range view.VersionVector.Nodes() {
		if c := view.VersionVector.Get(id); c > 0 {
			vv[id] = int(c)
		}
	}
	sort.Strings(addrs)
	return
}

// probe records what every running node believes (for ConvergeMon).
func (s *gsim) probe(tag string) {
	for _, name := range s.names {
		n := s.nodes[name]
		if n.run != "up" {
			s.ev(map[string]any{"e": "Node", "n": name, "s": n.run, "p": tag})
			continue
		}
		view, _ := n.actor.VerifView()
		mem, _, addrs := s.project(name)
		ids := make([]string, 0, len(mem))
		for id := range mem {
			ids = append(ids, id+"="+mem[id])
		}
		sort.Strings(ids)
		s.ev(map[string]any{"e": "Node", "n": name, "s": "up", "p": tag, "m": strings.Join(addrs, ","), "i": strings.Join(ids, ","),
			"x": gname(cluster.ComputeLeaderAddr(view)), "l": n.leader, "v": b2i(n.iam), "k": len(mem), "d": len(addrs)})
	}
}

// fingerprint of what all running nodes believe (members with incarnations, version vectors, announced leaders)
func (s *gsim) fingerprint() string {
	var sb strings.Builder
	for _, name := range s.names {
		n := s.nodes[name]
		if n.run != "up" {
			fmt.Fprintf(&sb, "%s:%s;", name, n.run)
			continue
		}
		mem, vv, _ := s.project(name)
		fmt.Fprintf(&sb, "%s:%v|%v|%s|%v;", name, mem, vv, n.leader, n.iam)
	}
	return sb.String()
}

// round delivers everything in flight (in an order chosen by rng), lets joining nodes retry and fires every gossip timer.
func (s *gsim) round(rng func(int) int) {
	for guard := 0; s.inFlight() > 0 && guard < 100000; guard++ {
		var keys [][2]string
		for k, q := range s.chans {
			if len(q) > 0 {
				keys = append(keys, k)
			}
		}
		sort.Slice(keys, func(i, j int) bool { return keys[i][0]+keys[i][1] < keys[j][0]+keys[j][1] })
		k := keys[rng(len(keys))]
		s.deliver(k[0], k[1])
	}
	if s.fd > 0 {
		// failure detection reads the wall clock: let more than one time-out pass between rounds
		time.Sleep(s.fd + s.fd/3)
	}
	for _, name := range s.names {
		n := s.nodes[name]
		if n.run == "joining" {
			for _, sd := range s.seeds {
				if s.join(name, sd) {
					break
				}
			}
		}
		s.tick(name)
		if t, ok := n.timers[cluster.SchedRefFailureDetection]; ok && n.run == "up" && s.fd > 0 {
			n.receive(t, n.ref(), nil)
		}
	}
}

// settle runs rounds until three consecutive rounds changed nothing any node believes and announced nothing.
func (s *gsim) settle(rng func(int) int, maxRounds int) (rounds int, stable bool) {
	same := 0
	last := s.fingerprint()
	lastEvents := s.announced
	for rounds = 0; rounds < maxRounds; rounds++ {
		s.round(rng)
		fp := s.fingerprint()
		pending := false
		for _, n := range s.nodes {
			if n.run == "joining" {
				pending = true
			}
		}
		if fp == last && s.announced == lastEvents && !pending {
			same++
			if same >= 3 {
				return rounds, true
			}
		} else {
			same = 0
		}
		last, lastEvents = fp, s.announced
	}
	return rounds, false
}

func jsonMapOrEmpty(raw json.RawMessage, into any) error {
	if len(raw) == 0 || raw[0] == '[' {
		return nil
	}
	return json.Unmarshal(raw, into)
}

func leaderName(v *cluster.ClusterView) string { return gname(cluster.ComputeLeaderAddr(v)) }
