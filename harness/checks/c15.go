package checks

import (
	"context"
	"encoding/json"
	"errors"
	"fmt"
	"os"
	"path/filepath"
	"sort"
	"strings"
	"sync"
	"sync/atomic"
	"time"

	"github.com/kercylan98/vivid"
	"github.com/kercylan98/vivid/internal/actor"
	"github.com/kercylan98/vivid/internal/messages"
	"github.com/kercylan98/vivid/pkg/ves"
	"github.com/kercylan98/vivid/verifharness/core"
	"github.com/kercylan98/vivid/verifharness/tlc"
)

func init() { register("C15", checkC15) }

var transDefaults = map[string]any{"e": "", "op": "", "target": "", "fwd": "", "flavour": "", "h": "", "s": "", "d": "", "v": 0}

// badmsg is registered with the wire registry, but its writer hands the wire writer a kind it does not support.
type badmsg struct{}

var registerBadmsg sync.Once

func ensureBadmsg() {
	registerBadmsg.Do(func() {
		vivid.RegisterCustomMessage[*badmsg]("verif.badmsg",
			func(message any, r *messages.Reader, _ messages.Codec) error { return nil },
			func(message any, w *messages.Writer, _ messages.Codec) error {
				return w.WriteFrom(map[string]int{"x": 1})
			})
	})
}

// cmsg is known to the user Codec only (not registered with the wire registry).
type cmsg struct {
	ID   int
	Text string
}

type jsonCodec struct{}

func (jsonCodec) Encode(m vivid.Message) ([]byte, error) {
	c, ok := m.(*cmsg)
	if !ok {
		return nil, fmt.Errorf("jsonCodec: unsupported %T", m)
	}
	return json.Marshal(c)
}

func (jsonCodec) Decode(b []byte) (vivid.Message, error) {
	c := &cmsg{}
	if err := json.Unmarshal(b, c); err != nil {
		return nil, err
	}
	return c, nil
}

type transCase struct {
	Case struct {
		Op      string `json:"op"`
		Target  string `json:"target"`
		Fwd     string `json:"fwd"`
		Flavour string `json:"flavour"`
		Hist    string `json:"hist"`
		By      string `json:"by"`
	} `json:"case"`
	Expected string `json:"expected"`
}

type transWorld struct {
	a, b         *actor.System
	addrA, addrB string
	opCtx        vivid.ActorContext
	opCtxB       vivid.ActorContext // an actor with the same path as the operator, on system B
	opLong       vivid.ActorContext // an operator whose path is longer than 255 bytes
	killedSeenB  []vivid.ActorRef
	mu           sync.Mutex
	got          map[string][]any // actor name -> messages received
	dead         map[string]bool
	killedSeen   []vivid.ActorRef // OnKilled notices (other than its own) seen by the operator actor
	decodeFails  atomic.Int64
	seq          atomic.Int64
}

func (w *transWorld) note(name string, m any) {
	w.mu.Lock()
	w.got[name] = append(w.got[name], m)
	w.mu.Unlock()
}

func (w *transWorld) received(name string) []any {
	w.mu.Lock()
	defer w.mu.Unlock()
	return append([]any{}, w.got[name]...)
}

func (w *transWorld) isDead(name string) bool {
	w.mu.Lock()
	defer w.mu.Unlock()
	return w.dead[name]
}

func waitFor(d time.Duration, cond func() bool) bool {
	deadline := time.Now().Add(d)
	for time.Now().Before(deadline) {
		if cond() {
			return true
		}
		time.Sleep(500 * time.Microsecond)
	}
	return cond()
}

// spawn creates a recording actor on the given system. mode: "echo" replies to asks, "silent" never replies.
func (w *transWorld) spawn(sys *actor.System, name, mode string) (vivid.ActorRef, error) {
	return sys.ActorOf(vivid.ActorFN(func(ctx vivid.ActorContext) {
		switch m := ctx.Message().(type) {
		case *vivid.OnLaunch, *vivid.OnKill:
		case *vivid.OnKilled:
			if m.Ref != nil && m.Ref.Equals(ctx.Ref()) {
				w.mu.Lock()
				w.dead[name] = true
				w.mu.Unlock()
			}
		default:
			w.note(name, m)
			if mode == "fail-plain" && ctx.Sender() != nil {
				ctx.Reply(errors.New("a plain failure of the asked actor"))
			}
			if mode == "echo" && ctx.Sender() != nil {
				switch q := m.(type) {
				case *rmsg:
					if q.Kind == "ask" {
						ctx.Reply(&rmsg{ID: q.ID, Kind: "reply", Payload: q.Payload, Sum: q.Sum})
					}
				case *cmsg:
					if q.Text == "ask" {
						ctx.Reply(&cmsg{ID: q.ID, Text: "reply"})
					}
				}
			}
		}
	}), vivid.WithActorName(name))
}

func newTransWorld(advertiseDiffers bool) (*transWorld, error) {
	ensureRmsg()
	w := &transWorld{got: map[string][]any{}, dead: map[string]bool{}}
	mk := func(advertiseDiffers bool) (*actor.System, string, error) {
		for try := 0; try < 5; try++ {
			port := freePort()
			addr := fmt.Sprintf("127.0.0.1:%d", port)
			remoting := vivid.WithActorSystemRemoting(addr)
			if advertiseDiffers {
				// the node listens on one address and is known to the others under another one (NAT, 0.0.0.0, a host name)
				addr = fmt.Sprintf("localhost:%d", port)
				remoting = vivid.WithActorSystemRemoting(fmt.Sprintf("0.0.0.0:%d", port), addr)
			}
			sys := actor.NewSystem(vivid.WithActorSystemContext(context.Background()), vivid.WithActorSystemLogger(silentLogger),
				vivid.WithActorSystemStopTimeout(3*time.Second), remoting, vivid.WithActorSystemCodec(jsonCodec{}))
			if err := sys.Start(); err == nil {
				return sys, addr, nil
			}
		}
		return nil, "", fmt.Errorf("cannot start system")
	}
	var err error
	if w.a, w.addrA, err = mk(false); err != nil {
		return nil, err
	}
	if w.b, w.addrB, err = mk(advertiseDiffers); err != nil {
		return nil, err
	}
	started := make(chan vivid.ActorContext, 1)
	if _, err := w.a.ActorOf(vivid.ActorFN(func(ctx vivid.ActorContext) {
		switch m := ctx.Message().(type) {
		case *vivid.OnLaunch:
			started <- ctx
		case *vivid.OnKilled:
			if m.Ref != nil && !m.Ref.Equals(ctx.Ref()) {
				w.mu.Lock()
				w.killedSeen = append(w.killedSeen, m.Ref)
				w.mu.Unlock()
			}
		}
	}), vivid.WithActorName("operator")); err != nil {
		return nil, err
	}
	w.opCtx = <-started
	startedL := make(chan vivid.ActorContext, 1)
	if _, err := w.a.ActorOf(vivid.ActorFN(func(ctx vivid.ActorContext) {
		switch m := ctx.Message().(type) {
		case *vivid.OnLaunch:
			startedL <- ctx
		case *vivid.OnKilled:
			if m.Ref != nil && !m.Ref.Equals(ctx.Ref()) {
				w.mu.Lock()
				w.killedSeen = append(w.killedSeen, m.Ref)
				w.mu.Unlock()
			}
		}
	}), vivid.WithActorName("operator-"+strings.Repeat("long-", 56))); err != nil {
		return nil, err
	}
	w.opLong = <-startedL
	startedB := make(chan vivid.ActorContext, 1)
	if _, err := w.b.ActorOf(vivid.ActorFN(func(ctx vivid.ActorContext) {
		switch m := ctx.Message().(type) {
		case *vivid.OnLaunch:
			startedB <- ctx
		case *vivid.OnKilled:
			if m.Ref != nil && !m.Ref.Equals(ctx.Ref()) {
				w.mu.Lock()
				w.killedSeenB = append(w.killedSeenB, m.Ref)
				w.mu.Unlock()
			}
		}
	}), vivid.WithActorName("operator")); err != nil {
		return nil, err
	}
	w.opCtxB = <-startedB
	for _, sys := range []*actor.System{w.a, w.b} {
		if _, err := sys.ActorOf(vivid.ActorFN(func(ctx vivid.ActorContext) {
			switch ctx.Message().(type) {
			case *vivid.OnLaunch:
				ctx.EventStream().Subscribe(ctx, ves.RemotingMessageDecodeFailedEvent{})
			case ves.RemotingMessageDecodeFailedEvent:
				w.decodeFails.Add(1)
			}
		}), vivid.WithActorName("decode-observer")); err != nil {
			return nil, err
		}
	}
	time.Sleep(20 * time.Millisecond)
	return w, nil
}

func (w *transWorld) close() {
	go w.a.Stop(2 * time.Second)
	go w.b.Stop(2 * time.Second)
}

// refAt returns the reference the operator (on system A) uses for an actor living at loc.
func (w *transWorld) place(loc, name, mode string) (sys *actor.System, ref vivid.ActorRef, err error) {
	if loc == "remote" {
		if _, err = w.spawn(w.b, name, mode); err != nil {
			return nil, nil, err
		}
		ref, err = w.a.CreateRef(w.addrB, "/"+name)
		return w.b, ref, err
	}
	ref, err = w.spawn(w.a, name, mode)
	return w.a, ref, err
}

func (w *transWorld) run(tc *transCase) (string, error) {
	n := w.seq.Add(1)
	c := tc.Case
	tname := fmt.Sprintf("t%d", n)
	if c.Hist == "long-paths" {
		// operator and target have paths of about 290 bytes
		saved := w.opCtx
		w.opCtx = w.opLong
		defer func() { w.opCtx = saved }()
		tname = fmt.Sprintf("t%d-%s", n, strings.Repeat("deep-", 56))
	}
	if c.By == "system" {
		// the operation is performed through the ActorSystem handle instead of an actor's context
		saved := w.opCtx
		w.opCtx = w.a.Context
		defer func() { w.opCtx = saved }()
	}
	mode := "echo"
	if c.Op == "pipe-fail" {
		mode = "silent"
	}
	if c.Op == "pipe-fail-plain" {
		mode = "fail-plain"
	}
	tsys, tref, err := w.place(c.Target, tname, mode)
	if err != nil {
		return "", err
	}
	if c.Hist == "after-failed-encode" {
		// messages to the other system whose encoding fails inside the wire writer (an unsupported kind)
		ensureBadmsg()
		sink, err := w.a.CreateRef(w.addrB, "/nobody-there")
		if err != nil {
			return "", err
		}
		for i := 0; i < 8; i++ {
			w.opCtx.Tell(sink, &badmsg{})
		}
	}
	if c.Hist == "recreated" {
		// first incarnation: hears from the operator, is terminated by its own system; then the path is re-used
		warm := newRmsg(uint32(1000000+n), "tell", 8, randSrc(n))
		w.opCtx.Tell(tref, warm)
		if !waitFor(1500*time.Millisecond, func() bool { return len(w.received(tname)) > 0 }) {
			return "", fmt.Errorf("first incarnation did not receive the warm-up message")
		}
		own, err := tsys.FindActor(tsys.Ref().GetAddress() + "/" + tname)
		if err != nil {
			return "", err
		}
		tsys.Kill(own, false, "first incarnation")
		if !waitFor(1500*time.Millisecond, func() bool { return w.isDead(tname) }) {
			return "", fmt.Errorf("first incarnation did not terminate")
		}
		time.Sleep(20 * time.Millisecond)
		w.mu.Lock()
		w.dead[tname] = false
		w.got[tname] = nil
		w.mu.Unlock()
		if tsys, tref, err = w.place(c.Target, tname, mode); err != nil {
			return "", fmt.Errorf("path could not be re-used: %w", err)
		}
	}
	id := int(n)
	var msg, ask vivid.Message = newRmsg(uint32(id), "tell", 8, randSrc(int64(id))), newRmsg(uint32(id), "ask", 8, randSrc(int64(id)))
	if c.Flavour == "codec" {
		msg, ask = &cmsg{ID: id, Text: "tell"}, &cmsg{ID: id, Text: "ask"}
	}
	isMine := func(m any) bool {
		switch q := m.(type) {
		case *rmsg:
			return int(q.ID) == id && q.intact()
		case *cmsg:
			return q.ID == id
		}
		return false
	}
	gotMine := func(name string) bool {
		for _, m := range w.received(name) {
			if isMine(m) {
				return true
			}
		}
		return false
	}
	switch c.Op {
	case "tell":
		w.opCtx.Tell(tref, msg)
		if waitFor(1500*time.Millisecond, func() bool { return gotMine(tname) }) {
			return "received", nil
		}
		return "lost", nil
	case "ask":
		r, err := w.opCtx.Ask(tref, ask, 1500*time.Millisecond).Result()
		if err != nil {
			return "ask-error", nil
		}
		switch q := r.(type) {
		case *rmsg:
			if int(q.ID) == id && q.Kind == "reply" {
				return "replied", nil
			}
		case *cmsg:
			if q.ID == id && q.Text == "reply" {
				return "replied", nil
			}
		}
		return "wrong-reply", nil
	case "kill", "pkill":
		w.opCtx.Kill(tref, c.Op == "pkill", "transparency")
		if waitFor(1500*time.Millisecond, func() bool { return w.isDead(tname) }) {
			return "terminated", nil
		}
		return "alive", nil
	case "watch", "unwatch":
		w.opCtx.Watch(tref)
		time.Sleep(120 * time.Millisecond)
		if c.Op == "unwatch" {
			w.opCtx.Unwatch(tref)
			time.Sleep(120 * time.Millisecond)
		}
		// the target is stopped by its own system, so that this cell does not depend on remote Kill
		var own vivid.ActorRef
		if own, err = tsys.FindActor(tsys.Ref().GetAddress() + "/" + tname); err != nil {
			return "", err
		}
		tsys.Kill(own, false, "transparency")
		if !waitFor(1500*time.Millisecond, func() bool { return w.isDead(tname) }) {
			return "", fmt.Errorf("target did not terminate")
		}
		named := func() bool {
			w.mu.Lock()
			defer w.mu.Unlock()
			for _, r := range w.killedSeen {
				if r.GetPath() == "/"+tname && r.GetAddress() == tref.GetAddress() {
					return true
				}
			}
			return false
		}
		if waitFor(core.PickD(c.Op == "unwatch", 300*time.Millisecond, 1500*time.Millisecond), named) {
			return "notified", nil
		}
		return "not-notified", nil
	case "watch-both":
		// the operator on A and an actor with the same path on B both watch the target
		var trefB vivid.ActorRef
		if c.Target == "remote" {
			trefB, err = w.b.FindActor(w.addrB + "/" + tname)
		} else {
			trefB, err = w.b.CreateRef(w.addrA, "/"+tname)
		}
		if err != nil {
			return "", err
		}
		w.opCtx.Watch(tref)
		time.Sleep(100 * time.Millisecond)
		w.opCtxB.Watch(trefB)
		time.Sleep(150 * time.Millisecond)
		var own vivid.ActorRef
		if own, err = tsys.FindActor(tsys.Ref().GetAddress() + "/" + tname); err != nil {
			return "", err
		}
		tsys.Kill(own, false, "transparency")
		if !waitFor(1500*time.Millisecond, func() bool { return w.isDead(tname) }) {
			return "", fmt.Errorf("target did not terminate")
		}
		seen := func(list *[]vivid.ActorRef) func() bool {
			return func() bool {
				w.mu.Lock()
				defer w.mu.Unlock()
				for _, r := range *list {
					if r.GetPath() == "/"+tname {
						return true
					}
				}
				return false
			}
		}
		okA := waitFor(1500*time.Millisecond, seen(&w.killedSeen))
		okB := waitFor(1500*time.Millisecond, seen(&w.killedSeenB))
		switch {
		case okA && okB:
			return "both-notified", nil
		case okA:
			return "only-A-notified", nil
		case okB:
			return "only-B-notified", nil
		}
		return "none-notified", nil
	case "ping":
		p, err := w.opCtx.Ping(tref, 1500*time.Millisecond)
		if err == nil && p != nil {
			return "pong", nil
		}
		return "no-pong", nil
	case "pipe-ok", "pipe-fail", "pipe-fail-plain":
		fname := fmt.Sprintf("f%d", n)
		_, fref, err := w.place(c.Fwd, fname, "silent")
		if err != nil {
			return "", err
		}
		timeout := 1500 * time.Millisecond
		if c.Op == "pipe-fail" {
			timeout = 200 * time.Millisecond
		}
		w.opCtx.PipeTo(tref, ask, vivid.ActorRefs{fref}, timeout)
		var res *vivid.PipeResult
		waitFor(2*time.Second, func() bool {
			for _, m := range w.received(fname) {
				if pr, ok := m.(*vivid.PipeResult); ok {
					res = pr
					return true
				}
			}
			return false
		})
		switch {
		case res == nil:
			return "nothing-forwarded", nil
		case res.Error != nil:
			return "forwarded-error", nil
		case res.Message != nil:
			return "forwarded-message", nil
		}
		return "forwarded-empty", nil
	case "sched-once":
		if err := w.opCtx.Scheduler().Once(tref, 40*time.Millisecond, msg, vivid.WithSchedulerReference(fmt.Sprintf("once-%d", n))); err != nil {
			return "schedule-error", nil
		}
		if waitFor(1500*time.Millisecond, func() bool { return gotMine(tname) }) {
			return "received", nil
		}
		return "lost", nil
	}
	return "", fmt.Errorf("unknown op %s", c.Op)
}

func checkC15(c *core.Ctx) {
	dir, err := c.SpecDir("loctrans")
	if err != nil {
		c.Broken("spec dir: %v", err)
		return
	}
	r, err := tlc.Exec(tlc.Run{Dir: dir, Module: "LocTrans", Config: "LocTrans.cfg", Workers: 1, Timeout: 2 * time.Minute})
	if err != nil || r.Violation != "" {
		c.Broken("LocTrans: %v %s\n%s", err, vio(r), tailOf(r))
		return
	}
	c.MC("LocTrans", r)
	b, err := os.ReadFile(filepath.Join(dir, "cases.json"))
	if err != nil {
		c.Broken("cases.json: %v", err)
		return
	}
	var cases []*transCase
	if err := json.Unmarshal(b, &cases); err != nil {
		c.Broken("cases.json: %v", err)
		return
	}
	// cells whose history disturbs the process-wide state of the codec run last: what they break must show in their own
	// outcome, not in the set-up of unrelated cells
	sort.SliceStable(cases, func(i, j int) bool {
		return cases[i].Case.Hist != "after-failed-encode" && cases[j].Case.Hist == "after-failed-encode"
	})
	reps := core.Pick(c, 1, 5)
	var traces []*Trace
	var setupErr error
	for rep := 0; rep < reps && setupErr == nil; rep++ {
		w, err := newTransWorld(rep%2 == 0) // system B is advertised under another address than it binds to in every other world
		if err != nil {
			c.Broken("cannot set up the two systems: %v", err)
			return
		}
		for _, tc := range cases {
			before := w.decodeFails.Load()
			out, err := w.run(tc)
			if err != nil {
				// what the cells executed so far observed is judged first: a set-up that fails may be the consequence of a
				// violation that an earlier cell already shows
				setupErr = fmt.Errorf("cell %+v could not be executed: %v", tc.Case, err)
				break
			}
			time.Sleep(5 * time.Millisecond)
			ev := map[string]any{"e": "Cell", "op": tc.Case.Op, "target": tc.Case.Target, "fwd": tc.Case.Fwd, "flavour": tc.Case.Flavour, "h": tc.Case.Hist, "by": tc.Case.By,
				"s": out, "d": tc.Expected, "v": int(w.decodeFails.Load() - before)}
			c.Add("evaluations", 1)
			traces = append(traces, &Trace{Events: []map[string]any{ev}, Class: tc.Case.Op + "-" + tc.Case.Target + map[string]string{"recreated": "-recreated", "after-failed-encode": "-after-failed-encode", "long-paths": "-long-paths"}[tc.Case.Hist], Name: fmt.Sprintf("%s/%s/%s/%s/%s/%s#%d", tc.Case.Op, tc.Case.Target, tc.Case.Fwd, tc.Case.Flavour, tc.Case.Hist, tc.Case.By, rep), Scenario: tc})
		}
		w.close()
	}
	res := ValidateTraces(c, "loctrans", "TransMon", "TransMon.cfg", traces, transDefaults)
	res.Report(c, "TransMon")
	if setupErr != nil && len(res.Rejected) == 0 {
		c.Broken("%v", setupErr)
		return
	}
	c.Add("traces_validated_against_impl", int64(res.Validated))
	c.Set("distinct_nontrivial", len(cases))
	c.Set("exhaustive", true)
	c.Set("rule", "TLC enumerates the matrix operation {tell, ask, kill, poison kill, watch, unwatch, ping, pipe success, pipe failure, scheduler once} x target {local, remote} x forwarder {local, remote} (pipe) x operator {an actor's context, the ActorSystem handle} x message flavour {registered custom message, Codec-only message} x path history {fresh, recreated under the same name after an earlier incarnation heard from the operator and terminated, after messages whose encoding failed} (tell/ask/kill/ping/watch), pipe failure by time-out and by a plain error reply, plus watch-both (two watchers with the same path, one on each system); every cell is executed from an operator actor on system A against actors on A or on a second real system B over loopback TCP; TransMon compares the observed outcome with the location-independent expectation and requires that no built-in message fails to decode. Every cell is distinct; remote cells are the non-trivial ones.")
	if len(traces) > 0 {
		c.Sample(traces[0].Events)
		c.Sample(traces[len(traces)-1].Events)
	}
	c.Assume("outcomes are observed with real-time waits of 1.5 s (300 ms for the negative unwatch case)")
}
