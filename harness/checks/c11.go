package checks

import (
	"bytes"
	"context"
	"crypto/sha256"
	"encoding/json"
	"errors"
	"fmt"
	"io"
	"math/rand"
	"net"
	"os"
	"path/filepath"
	"strings"
	"sync"
	"sync/atomic"
	"time"

	"github.com/kercylan98/vivid"
	"github.com/kercylan98/vivid/internal/actor"
	"github.com/kercylan98/vivid/internal/mailbox"
	"github.com/kercylan98/vivid/internal/messages"
	"github.com/kercylan98/vivid/internal/remoting"
	"github.com/kercylan98/vivid/verifharness/core"
	"github.com/kercylan98/vivid/verifharness/tlc"
)

func init() { register("C11", checkC11) }

const framingVariant = "fix"

var deliveryDefaults = map[string]any{"e": "", "src": "", "dst": "", "m": 0, "v": 0, "k": "", "n": 0}

// rmsg is the user message type the remoting scenarios send (registered with the wire registry).
type rmsg struct {
	ID      uint32
	Kind    string // "tell" | "ask" | "reply"
	Payload []byte
	Sum     []byte
}

var registerRmsg sync.Once

func ensureRmsg() {
	registerRmsg.Do(func() {
		vivid.RegisterCustomMessage[*rmsg]("verif.rmsg",
			func(message any, r *messages.Reader, _ messages.Codec) error {
				m := message.(*rmsg)
				return r.ReadInto(&m.ID, &m.Kind, &m.Payload, &m.Sum)
			},
			func(message any, w *messages.Writer, _ messages.Codec) error {
				m := message.(*rmsg)
				return w.WriteFrom(m.ID, m.Kind, m.Payload, m.Sum)
			})
	})
}

func newRmsg(id uint32, kind string, size int, rng *rand.Rand) *rmsg {
	p := make([]byte, size)
	for i := range p {
		p[i] = byte(rng.Intn(256))
	}
	s := sha256.Sum256(p)
	return &rmsg{ID: id, Kind: kind, Payload: p, Sum: s[:8]}
}

func (m *rmsg) intact() bool {
	s := sha256.Sum256(m.Payload)
	return bytes.Equal(s[:8], m.Sum)
}

// ---------------------------------------------------------------- scripted connection (receiver replay)

type fakeAddr string

func (a fakeAddr) Network() string { return "tcp" }
func (a fakeAddr) String() string  { return string(a) }

// scriptConn is a net.Conn whose Read returns exactly the segments the behaviour dictates.
type scriptConn struct {
	mu     sync.Mutex
	cond   *sync.Cond
	hs     []byte // handshake bytes, served first
	hsCut  int    // > 0: the first Read returns only that many handshake bytes (TCP split the handshake)
	data   []byte // the frame stream
	avail  int    // bytes of data "written by the sender" so far
	pos    int
	cuts   []int // stream offsets at which successive Reads may end (consumed in order)
	eofAt  int   // -1: never; otherwise the connection breaks once pos reaches it (and cuts are exhausted up to it)
	closed bool
	reads  int
}

func newScriptConn(hs []byte) *scriptConn {
	c := &scriptConn{hs: hs, eofAt: -1}
	c.cond = sync.NewCond(&c.mu)
	return c
}

func (c *scriptConn) Read(p []byte) (int, error) {
	c.mu.Lock()
	defer c.mu.Unlock()
	if len(c.hs) > 0 {
		if c.hsCut > 0 && c.hsCut < len(c.hs) && len(p) > c.hsCut {
			p = p[:c.hsCut]
		}
		c.hsCut = 0
		n := copy(p, c.hs)
		c.hs = c.hs[n:]
		return n, nil
	}
	for {
		if c.closed {
			return 0, io.EOF
		}
		if c.eofAt >= 0 && c.pos >= c.eofAt {
			return 0, errors.New("connection reset by scenario")
		}
		if len(c.cuts) > 0 && c.avail > c.pos {
			cut := c.cuts[0]
			if cut <= c.pos {
				c.cuts = c.cuts[1:]
				continue
			}
			n := cut - c.pos
			if n > len(p) {
				n = len(p)
			}
			if n > c.avail-c.pos {
				n = c.avail - c.pos
			}
			copy(p, c.data[c.pos:c.pos+n])
			c.pos += n
			if c.pos >= cut {
				c.cuts = c.cuts[1:]
			}
			c.reads++
			c.cond.Broadcast()
			return n, nil
		}
		c.cond.Wait()
	}
}

func (c *scriptConn) allow(cut int) {
	c.mu.Lock()
	c.cuts = append(c.cuts, cut)
	c.cond.Broadcast()
	c.mu.Unlock()
}

func (c *scriptConn) write(frame []byte) {
	c.mu.Lock()
	c.data = append(c.data, frame...)
	c.avail = len(c.data)
	c.cond.Broadcast()
	c.mu.Unlock()
}

// waitIdle waits until the reader has consumed every allowed cut (or cannot progress).
func (c *scriptConn) waitIdle(d time.Duration) {
	deadline := time.Now().Add(d)
	for time.Now().Before(deadline) {
		c.mu.Lock()
		idle := len(c.cuts) == 0 || c.pos >= c.avail
		c.mu.Unlock()
		if idle {
			return
		}
		time.Sleep(50 * time.Microsecond)
	}
}

func (c *scriptConn) Write(p []byte) (int, error) { return len(p), nil }
func (c *scriptConn) Close() error {
	c.mu.Lock()
	c.closed = true
	c.cond.Broadcast()
	c.mu.Unlock()
	return nil
}
func (c *scriptConn) LocalAddr() net.Addr                { return fakeAddr("127.0.0.1:1") }
func (c *scriptConn) RemoteAddr() net.Addr               { return fakeAddr("127.0.0.1:2") }
func (c *scriptConn) SetDeadline(t time.Time) error      { return nil }
func (c *scriptConn) SetReadDeadline(t time.Time) error  { return nil }
func (c *scriptConn) SetWriteDeadline(t time.Time) error { return nil }

type framingStep struct {
	Op string `json:"op"`
	At int    `json:"at"`
}

type framingBehaviour struct {
	Sizes []int         `json:"sizes"`
	Steps []framingStep `json:"steps"`
}

// frameFor builds a frame whose body has exactly bodyLen bytes.
func frameFor(id uint32, bodyLen int, sender, receiver vivid.ActorRef, rng *rand.Rand) ([]byte, error) {
	base, err := remoting.VerifEncodeFrame(nil, mailbox.NewEnvelop(false, sender, receiver, newRmsg(id, "tell", 0, rng)))
	if err != nil {
		return nil, err
	}
	pad := bodyLen - (len(base) - 4)
	if pad < 0 {
		return nil, fmt.Errorf("body length %d below the minimum %d", bodyLen, len(base)-4)
	}
	f, err := remoting.VerifEncodeFrame(nil, mailbox.NewEnvelop(false, sender, receiver, newRmsg(id, "tell", pad, rng)))
	if err == nil && len(f)-4 != bodyLen {
		err = fmt.Errorf("frame body %d, wanted %d", len(f)-4, bodyLen)
	}
	return f, err
}

type recvRecorder struct {
	mu     sync.Mutex
	events []map[string]any
	count  atomic.Int64
}

func (r *recvRecorder) ev(e map[string]any) {
	r.mu.Lock()
	r.events = append(r.events, e)
	r.mu.Unlock()
}

// runFramingReplay feeds one TLC behaviour (writes and read segmentations) into a real connection actor.
func runFramingReplay(b *framingBehaviour, seed int64) ([]map[string]any, error) {
	ensureRmsg()
	rng := rand.New(rand.NewSource(seed))
	rec := &recvRecorder{}
	sys := actor.NewSystem(vivid.WithActorSystemContext(context.Background()), vivid.WithActorSystemLogger(silentLogger), vivid.WithActorSystemStopTimeout(2*time.Second))
	if err := sys.Start(); err != nil {
		return nil, err
	}
	defer func() { go sys.Stop(time.Second) }()
	recvRef, err := sys.ActorOf(vivid.ActorFN(func(ctx vivid.ActorContext) {
		if m, ok := ctx.Message().(*rmsg); ok {
			rec.ev(map[string]any{"e": "Recv", "src": "S", "dst": "R", "m": int(m.ID), "v": b2i(m.intact())})
			rec.count.Add(1)
		}
	}), vivid.WithActorName("recv"))
	if err != nil {
		return nil, err
	}
	sender, _ := sys.CreateRef("10.1.1.1:7000", "/sender")
	hs, err := remoting.VerifHandshakeBytes("10.1.1.1:7000")
	if err != nil {
		return nil, err
	}
	conn := newScriptConn(hs)
	if seed%3 == 0 {
		// TCP may split the handshake as well: the first Read returns only part of it
		conn.hsCut = []int{1, 2, 3, 4, 5, len(hs) - 1}[rng.Intn(6)]
	}
	connActor, err := remoting.VerifNewAcceptedConnection(conn, "10.1.1.1:7000", nil, sys)
	if err != nil {
		// the handshake bytes are valid: a refusal is the receiving side's answer, judged by the monitor
		return []map[string]any{{"e": "Accept", "v": 0, "k": err.Error()}, {"e": "End", "k": "healthy"}}, nil
	}
	if _, err := sys.ActorOf(connActor, vivid.WithActorName("conn")); err != nil {
		return nil, err
	}
	frames := make([][]byte, len(b.Sizes))
	for i, sz := range b.Sizes {
		f, err := frameFor(uint32(i+1), sz, sender, recvRef, rng)
		if err != nil {
			return nil, err
		}
		frames[i] = f
	}
	for _, st := range b.Steps {
		switch st.Op {
		case "w":
			rec.ev(map[string]any{"e": "Sent", "src": "S", "dst": "R", "m": st.At, "k": "tell"})
			conn.write(frames[st.At-1])
		case "r":
			conn.allow(st.At)
			conn.waitIdle(200 * time.Millisecond)
		}
	}
	// whatever the behaviour left unread may now be read in one piece
	for i := range frames {
		sent := false
		for _, st := range b.Steps {
			if st.Op == "w" && st.At == i+1 {
				sent = true
			}
		}
		if !sent {
			rec.ev(map[string]any{"e": "Sent", "src": "S", "dst": "R", "m": i + 1, "k": "tell"})
			conn.write(frames[i])
		}
	}
	conn.allow(1 << 30)
	deadline := time.Now().Add(400 * time.Millisecond)
	for time.Now().Before(deadline) && int(rec.count.Load()) < len(frames) {
		time.Sleep(100 * time.Microsecond)
	}
	time.Sleep(time.Millisecond)
	rec.ev(map[string]any{"e": "End", "k": "healthy"})
	_ = conn.Close()
	return rec.events, nil
}

// ---------------------------------------------------------------- loopback (two real systems)

var portMu sync.Mutex
var nextPort = 23000 + os.Getpid()%2000

func freePort() int {
	portMu.Lock()
	defer portMu.Unlock()
	for i := 0; i < 200; i++ {
		nextPort++
		if nextPort > 60000 {
			nextPort = 23000
		}
		l, err := net.Listen("tcp", fmt.Sprintf("127.0.0.1:%d", nextPort))
		if err == nil {
			_ = l.Close()
			return nextPort
		}
	}
	return 0
}

type loopScenario struct {
	Senders   int   `json:"senders"`
	PerSender int   `json:"per_sender"`
	Sizes     []int `json:"sizes"`
	AskEvery  int   `json:"ask_every"`
	BothWays  bool  `json:"both_ways"`
	HoldMS    int   `json:"hold_ms"` // keep the connection idle this long before a second burst
	// RecreateReceiver: after the first round the receiving actor on B is terminated by its own system and a new actor is
	// spawned under the same name; a second round follows (the link stayed up all the time)
	RecreateReceiver bool `json:"recreate_receiver,omitempty"`
	// RootSender: one more sender that is no actor: the harness uses the ActorSystem handle itself (Tell and Ask of the
	// root context) from one goroutine; Asks are not awaited one by one (a burst of requests in flight)
	RootSender bool `json:"root_sender,omitempty"`
	// AfterFailedEncode: before the traffic starts each system tries to send the other one messages whose encoding fails
	AfterFailedEncode bool `json:"after_failed_encode,omitempty"`
	// SizeSeq: payload sizes are taken from Sizes in order (k-th message: Sizes[k mod len]) instead of at random
	SizeSeq bool `json:"size_seq,omitempty"`
}

func startRemotingSystem() (*actor.System, string, error) {
	for try := 0; try < 5; try++ {
		port := freePort()
		addr := fmt.Sprintf("127.0.0.1:%d", port)
		sys := actor.NewSystem(vivid.WithActorSystemContext(context.Background()), vivid.WithActorSystemLogger(silentLogger),
			vivid.WithActorSystemStopTimeout(3*time.Second), vivid.WithActorSystemRemoting(addr))
		if err := sys.Start(); err == nil {
			return sys, addr, nil
		}
	}
	return nil, "", errors.New("cannot start a system with remoting")
}

func runLoopback(sc *loopScenario, seed int64) ([]map[string]any, error) {
	ensureRmsg()
	rec := &recvRecorder{}
	a, addrA, err := startRemotingSystem()
	if err != nil {
		return nil, err
	}
	defer func() { go a.Stop(2 * time.Second) }()
	b, addrB, err := startRemotingSystem()
	if err != nil {
		return nil, err
	}
	defer func() { go b.Stop(2 * time.Second) }()
	var expected atomic.Int64
	gone := make(chan struct{}, 4)
	receiver := func(name string) vivid.ActorFN {
		return func(ctx vivid.ActorContext) {
			if k, ok := ctx.Message().(*vivid.OnKilled); ok && k.Ref.Equals(ctx.Ref()) {
				gone <- struct{}{}
			}
			if m, ok := ctx.Message().(*rmsg); ok {
				src := ""
				if s := ctx.Sender(); s != nil {
					src = s.GetPath()
					if i := strings.Index(src, "/@future@"); i >= 0 {
						src = src[:i]
					}
					if src == "" {
						src = "/" // a future of the root context
					}
				}
				rec.ev(map[string]any{"e": "Recv", "src": src, "dst": name, "m": int(m.ID), "v": b2i(m.intact())})
				rec.count.Add(1)
				if m.Kind == "ask" {
					ctx.Reply(&rmsg{ID: m.ID, Kind: "reply", Payload: m.Payload, Sum: m.Sum})
				}
			}
		}
	}
	if _, err := b.ActorOf(receiver("/recvB"), vivid.WithActorName("recvB")); err != nil {
		return nil, err
	}
	if _, err := a.ActorOf(receiver("/recvA"), vivid.WithActorName("recvA")); err != nil {
		return nil, err
	}
	toB, _ := a.CreateRef(addrB, "/recvB")
	toA, _ := b.CreateRef(addrA, "/recvA")
	var wg sync.WaitGroup
	var idc atomic.Uint32
	burst := func(sys *actor.System, target vivid.ActorRef, dst string, s int, rng *rand.Rand) {
		defer wg.Done()
		started := make(chan vivid.ActorContext, 1)
		name := fmt.Sprintf("snd%d", s)
		if _, err := sys.ActorOf(vivid.ActorFN(func(ctx vivid.ActorContext) {
			if _, ok := ctx.Message().(*vivid.OnLaunch); ok {
				started <- ctx
			}
		}), vivid.WithActorName(name)); err != nil {
			return
		}
		var ctx vivid.ActorContext
		select {
		case ctx = <-started:
		case <-time.After(2 * time.Second):
			return
		}
		for k := 0; k < sc.PerSender; k++ {
			id := idc.Add(1)
			size := sc.Sizes[rng.Intn(len(sc.Sizes))]
			if sc.SizeSeq {
				size = sc.Sizes[k%len(sc.Sizes)]
			}
			if size < 0 {
				// -(d+1): the largest payload whose frame is d bytes below the 4 MiB limit, for this sender and receiver
				fr, err := remoting.VerifEncodeFrame(nil, mailbox.NewEnvelop(false, ctx.Ref(), target, newRmsg(id, "tell", 0, rng)))
				if err != nil {
					return
				}
				size = 4<<20 - (len(fr) - 4) - (-size - 1)
			}
			if sc.AskEvery > 0 && k%sc.AskEvery == sc.AskEvery-1 {
				m := newRmsg(id, "ask", size, rng)
				rec.ev(map[string]any{"e": "Sent", "src": "/" + name, "dst": dst, "m": int(id), "k": "ask"})
				expected.Add(1)
				reply, err := ctx.Ask(target, m, 5*time.Second).Result()
				ok := false
				if r, isR := reply.(*rmsg); err == nil && isR {
					ok = r.ID == id && r.Kind == "reply" && r.intact() && bytes.Equal(r.Payload, m.Payload)
				}
				rec.ev(map[string]any{"e": "Replied", "m": int(id), "v": b2i(ok)})
			} else {
				m := newRmsg(id, "tell", size, rng)
				rec.ev(map[string]any{"e": "Sent", "src": "/" + name, "dst": dst, "m": int(id), "k": "tell"})
				expected.Add(1)
				ctx.Tell(target, m)
			}
		}
	}
	// the root context as a sender: bursts of Tells, Asks that are not awaited one by one, in one goroutine
	rootBurst := func(sys *actor.System, target vivid.ActorRef, dst string, rng *rand.Rand) {
		defer wg.Done()
		type pend struct {
			id uint32
			m  *rmsg
			f  vivid.Future[vivid.Message]
		}
		var asks []pend
		for k := 0; k < sc.PerSender; k++ {
			id := idc.Add(1)
			size := sc.Sizes[rng.Intn(len(sc.Sizes))]
			if rng.Intn(3) == 0 {
				m := newRmsg(id, "ask", size, rng)
				rec.ev(map[string]any{"e": "Sent", "src": "/", "dst": dst, "m": int(id), "k": "ask"})
				expected.Add(1)
				asks = append(asks, pend{id, m, sys.Ask(target, m, 8*time.Second)})
			} else {
				m := newRmsg(id, "tell", size, rng)
				rec.ev(map[string]any{"e": "Sent", "src": "/", "dst": dst, "m": int(id), "k": "tell"})
				expected.Add(1)
				sys.Tell(target, m)
			}
		}
		for _, p := range asks {
			reply, err := p.f.Result()
			ok := false
			if r, isR := reply.(*rmsg); err == nil && isR {
				ok = r.ID == p.id && r.Kind == "reply" && r.intact() && bytes.Equal(r.Payload, p.m.Payload)
			}
			rec.ev(map[string]any{"e": "Replied", "m": int(p.id), "v": b2i(ok)})
		}
	}
	round := func(base int64) {
		if sc.RootSender {
			wg.Add(1)
			go rootBurst(a, toB, "/recvB", rand.New(rand.NewSource(seed+7777+base*1000)))
			if sc.BothWays {
				wg.Add(1)
				go rootBurst(b, toA, "/recvA", rand.New(rand.NewSource(seed+8888+base*1000)))
			}
		}
		for s := 1; s <= sc.Senders; s++ {
			wg.Add(1)
			go burst(a, toB, "/recvB", s+int(base)*100, rand.New(rand.NewSource(seed+int64(s)+base*1000)))
			if sc.BothWays {
				wg.Add(1)
				go burst(b, toA, "/recvA", s+50+int(base)*100, rand.New(rand.NewSource(seed+int64(s)+500+base*1000)))
			}
		}
		wg.Wait()
	}
	if sc.AfterFailedEncode {
		ensureBadmsg()
		for i := 0; i < 8; i++ {
			a.Tell(toB, &badmsg{})
			b.Tell(toA, &badmsg{})
		}
	}
	round(0)
	if sc.RecreateReceiver {
		// everything of the first round has arrived before the receiver goes away
		dl := time.Now().Add(6 * time.Second)
		for time.Now().Before(dl) && rec.count.Load() < expected.Load() {
			time.Sleep(time.Millisecond)
		}
		old, err := b.FindActor(addrB + "/recvB")
		if err != nil {
			return nil, err
		}
		b.Kill(old, false, "recreate")
		select {
		case <-gone:
		case <-time.After(3 * time.Second):
			return nil, fmt.Errorf("the receiver did not terminate")
		}
		time.Sleep(10 * time.Millisecond)
		if _, err := b.ActorOf(receiver("/recvB"), vivid.WithActorName("recvB")); err != nil {
			return nil, fmt.Errorf("the receiver's name could not be re-used: %w", err)
		}
		time.Sleep(10 * time.Millisecond)
		round(2)
	}
	if sc.HoldMS > 0 {
		time.Sleep(time.Duration(sc.HoldMS) * time.Millisecond)
		round(1)
	}
	deadline := time.Now().Add(6 * time.Second)
	for time.Now().Before(deadline) && rec.count.Load() < expected.Load() {
		time.Sleep(time.Millisecond)
	}
	time.Sleep(20 * time.Millisecond)
	rec.ev(map[string]any{"e": "End", "k": "healthy"})
	rec.mu.Lock()
	defer rec.mu.Unlock()
	return append([]map[string]any{}, rec.events...), nil
}

func checkC11(c *core.Ctx) {
	ensureRmsg()
	dir, err := c.SpecDir("remoting")
	if err != nil {
		c.Broken("spec dir: %v", err)
		return
	}
	v := framingVariant
	if !os_skipMC() {
		// the connection prologue: the handshake may arrive in any segmentation
		r, err := tlc.Exec(tlc.Run{Dir: dir, Module: "Handshake", Config: "MC_Handshake_fix.cfg", Timeout: 2 * time.Minute})
		if err != nil || r.Violation != "" {
			c.Broken("model checking Handshake (fix) failed on the model of record: %v %s\n%s", err, vio(r), tailOf(r))
			return
		}
		c.MC("MC_Handshake_fix", r)
		if r2, err := tlc.Exec(tlc.Run{Dir: dir, Module: "Handshake", Config: "MC_Handshake_orig.cfg", Timeout: 2 * time.Minute}); err == nil {
			c.Set("handshake_single_read_model_violates", r2.ViolatedName)
		}
	}
	// the minimal body length of a frame carrying an rmsg between the scenario's references
	sender, _ := actor.NewRef("10.1.1.1:7000", "/sender")
	recv, _ := actor.NewRef("localhost", "/recv")
	base, err := remoting.VerifEncodeFrame(nil, mailbox.NewEnvelop(false, sender, recv, newRmsg(1, "tell", 0, rand.New(rand.NewSource(1)))))
	if err != nil {
		c.Broken("cannot encode a frame: %v", err)
		return
	}
	l0 := len(base) - 4
	// frame families with real body lengths: minimal, minimal+1, around the 4096-byte buffer of the reader
	fams := map[string][]int{
		"A": {l0, l0 + 1, l0 + 10},
		"B": {l0 + 10, l0, 4092, l0 + 3},
		"C": {4090, 4096, l0 + 5, l0, 4097},
	}
	cuts := fmt.Sprintf("{0, 1, 2, 3, 4, 5, %d, %d, %d, 4095, 4096, 4097, 4100}", l0/2, l0+3, l0+4)
	mod := "----------------------------- MODULE MC_FramingRT -----------------------------\nEXTENDS MC_Framing\n"
	for name, sz := range fams {
		var parts []string
		for _, s := range sz {
			parts = append(parts, fmt.Sprint(s))
		}
		mod += fmt.Sprintf("RT_%s == <<%s>>\n", name, strings.Join(parts, ", "))
	}
	mod += "RT_Cuts == " + cuts + "\n=============================================================================\n"
	if err := os.WriteFile(filepath.Join(dir, "MC_FramingRT.tla"), []byte(mod), 0o644); err != nil {
		c.Broken("write module: %v", err)
		return
	}
	persistent := "TRUE"
	if v == "orig" {
		persistent = "FALSE"
	}
	var traces []*Trace
	nontrivial := 0
	for fi, name := range []string{"A", "B", "C"} {
		mcCfg := fmt.Sprintf("SPECIFICATION Spec\nCONSTANTS\n  Sizes <- RT_%s\n  Cuts <- RT_Cuts\n  PersistentReader = %s\n  BreakAllowed = FALSE\nVIEW View\nINVARIANTS NothingLost InOrderOnce\nPROPERTY AllDelivered\nCHECK_DEADLOCK FALSE\n", name, persistent)
		genCfg := fmt.Sprintf("INIT Init\nNEXT Next\nCONSTANTS\n  Sizes <- RT_%s\n  Cuts <- RT_Cuts\n  PersistentReader = %s\n  BreakAllowed = FALSE\nINVARIANT Emit\nCHECK_DEADLOCK FALSE\n", name, persistent)
		_ = os.WriteFile(filepath.Join(dir, "MC_RT_"+name+".cfg"), []byte(mcCfg), 0o644)
		_ = os.WriteFile(filepath.Join(dir, "Gen_RT_"+name+".cfg"), []byte(genCfg), 0o644)
		if !os_skipMC() {
			r, err := tlc.Exec(tlc.Run{Dir: dir, Module: "MC_FramingRT", Config: "MC_RT_" + name + ".cfg", Timeout: 10 * time.Minute})
			if err != nil || r.Violation != "" {
				c.Broken("model checking Framing %s failed on the model of record: %v %s\n%s", name, err, vio(r), tailOf(r))
				return
			}
			c.MC("MC_Framing/"+name, r)
		}
		var behs []*framingBehaviour
		var perr error
		r, err := tlc.Exec(tlc.Run{Dir: dir, Module: "MC_FramingRT", Config: "Gen_RT_" + name + ".cfg", Workers: 1, Timeout: 10 * time.Minute,
			Args: []string{"-simulate", fmt.Sprintf("num=%d", core.Pick(c, 150, 2500)), "-depth", "200", "-seed", fmt.Sprint(c.Seed*5 + int64(fi))},
			OnLine: func(s string) {
				if !strings.HasPrefix(s, "BEHAV ") {
					return
				}
				b := &framingBehaviour{}
				if err := json.Unmarshal([]byte(s[6:]), b); err != nil {
					perr = err
					return
				}
				behs = append(behs, b)
			}})
		if err != nil || perr != nil || r.Violation != "" {
			c.Broken("behaviour generation Framing %s: %v %v %s\n%s", name, err, perr, vio(r), tailOf(r))
			return
		}
		c.Add("tlc_behaviours_generated", int64(len(behs)))
		var mu sync.Mutex
		var wg sync.WaitGroup
		sem := make(chan struct{}, 12)
		for bi, b := range behs {
			wg.Add(1)
			sem <- struct{}{}
			go func(bi int, b *framingBehaviour) {
				defer wg.Done()
				defer func() { <-sem }()
				ev, err := runFramingReplay(b, c.Seed+int64(bi))
				mu.Lock()
				defer mu.Unlock()
				if err != nil {
					c.Broken("framing replay %s#%d: %v", name, bi, err)
					return
				}
				c.Add("evaluations", 1)
				c.Add("replayed_steps", int64(len(b.Steps)))
				nontrivial++
				traces = append(traces, &Trace{Events: ev, Class: "framing-" + name, Name: fmt.Sprintf("framing-%s#%d", name, bi), Scenario: b})
			}(bi, b)
		}
		wg.Wait()
		if c.IsBroken() {
			return
		}
	}
	// many small frames that TCP hands over in one piece (33, 40, 100, 300 frames written before the reader gets its turn,
	// read in segments as large as the reader asks for): every frame is delivered, however long the run of frames that
	// are already buffered
	for bi, n := range []int{33, 40, 100, 300} {
		b := &framingBehaviour{}
		for k := 0; k < n; k++ {
			b.Sizes = append(b.Sizes, l0+k%3)
			b.Steps = append(b.Steps, framingStep{Op: "w", At: k + 1})
		}
		for k := 0; k < n/8+2; k++ {
			b.Steps = append(b.Steps, framingStep{Op: "r", At: 1 << 29})
		}
		ev, err := runFramingReplay(b, c.Seed+int64(bi))
		if err != nil {
			c.Broken("framing replay coalesced#%d: %v", bi, err)
			return
		}
		c.Add("evaluations", 1)
		traces = append(traces, &Trace{Events: ev, Class: "framing-coalesced-burst", Name: fmt.Sprintf("coalesced#%d", n), Scenario: map[string]any{"frames": n, "what": "all frames written before the first read"}})
	}
	// end to end over loopback TCP
	rng := rand.New(rand.NewSource(c.Seed))
	sizes := [][]int{{0, 1, 10}, {0, 1, 100, 4070, 4090, 4096, 4100}, {100, 70000}, {1 << 20}}
	if c.Thorough() {
		sizes = append(sizes, []int{4*1024*1024 - 2048})
	}
	n := core.Pick(c, 14, 120)
	var mu sync.Mutex
	var wg sync.WaitGroup
	sem := make(chan struct{}, 4)
	for i := 0; i < n; i++ {
		sc := &loopScenario{Senders: 1 + rng.Intn(3), PerSender: []int{1, 5, 40, 400}[rng.Intn(4)], Sizes: sizes[rng.Intn(len(sizes))],
			AskEvery: []int{0, 3, 7}[rng.Intn(3)], BothWays: rng.Intn(2) == 0}
		if len(sc.Sizes) == 1 && sc.Sizes[0] >= 1<<20 {
			sc.PerSender = 3
		}
		if i%4 == 1 {
			sc.RecreateReceiver = true
			if sc.PerSender > 40 {
				sc.PerSender = 40
			}
		}
		if i%3 == 2 {
			sc.RootSender = true
		}
		if i%4 == 2 {
			sc.AfterFailedEncode = true
		}
		if i == 3 {
			// growing large payloads from one sender, the last one just under the frame limit
			sc = &loopScenario{Senders: 1, Sizes: []int{1 << 20, 2 << 20, 5 << 19, 3 << 20, -65, -2, -1}, PerSender: 7, SizeSeq: true}
		}
		if i == 0 {
			// one scenario keeps its connections open and idle for a while before using them again
			sc = &loopScenario{Senders: 1, PerSender: 5, Sizes: []int{10}, BothWays: true, HoldMS: core.Pick(c, 11500, 21000)}
		}
		wg.Add(1)
		sem <- struct{}{}
		go func(i int, sc *loopScenario) {
			defer wg.Done()
			defer func() { <-sem }()
			ev, err := runLoopback(sc, c.Seed*1009+int64(i))
			mu.Lock()
			defer mu.Unlock()
			if err != nil {
				c.Broken("loopback scenario %d: %v", i, err)
				return
			}
			c.Add("evaluations", 1)
			nontrivial++
			cls := "loopback"
			if sc.HoldMS > 0 {
				cls = "loopback-idle"
			}
			traces = append(traces, &Trace{Events: ev, Class: cls, Name: fmt.Sprintf("loopback#%d", i), Scenario: sc})
		}(i, sc)
	}
	wg.Wait()
	if c.IsBroken() {
		return
	}
	res := ValidateTraces(c, "remoting", "DeliveryMon", "DeliveryMon.cfg", traces, deliveryDefaults)
	res.Report(c, "DeliveryMon")
	c.Add("traces_validated_against_impl", int64(res.Validated))
	c.Set("distinct_nontrivial", nontrivial)
	c.Set("rule", "receiver: TLC-simulated behaviours of Framing.tla (3-5 frames with body lengths at the minimum and around the reader's 4096-byte buffer, sender writes interleaved with reads that end inside a length prefix, inside a body, at a boundary or several frames later) are replayed on the real connection actor over a scripted net.Conn that returns exactly those segments; end to end: two real systems over loopback TCP, 1-3 concurrent sending actors per direction, bursts of 1-400 messages of 0 B-1 MiB (thorough: just under 4 MiB), Tell and Ask/Reply, one scenario re-using connections after a long idle period; judged by DeliveryMon. Every scenario is non-trivial (at least two frames share a stream).")
	if len(traces) > 0 {
		c.Sample(map[string]any{"name": traces[0].Name, "events": head(traces[0].Events, 20)})
		c.Sample(map[string]any{"name": traces[len(traces)-1].Name, "events": head(traces[len(traces)-1].Events, 20)})
	}
	c.Assume("frames are written with one Write call each; the kernel may segment the stream arbitrarily, which the scripted connection reproduces at the Read boundary")
}

func randSrc(seed int64) *rand.Rand { return rand.New(rand.NewSource(seed)) }
