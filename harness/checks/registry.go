// Package checks holds one file per property: the TLC runs, the replay of TLC-generated
// cases/behaviours on the real code and the trace validation that decides the property.
package checks

import (
	"sort"

	"github.com/kercylan98/vivid/verifharness/core"
)

type Check func(c *core.Ctx)

var registry = map[string]Check{}

func register(id string, f Check) { registry[id] = f }

func Lookup(id string) (Check, bool) { f, ok := registry[id]; return f, ok }

func IDs() []string {
	var ids []string
	for k := range registry {
		ids = append(ids, k)
	}
	sort.Strings(ids)
	return ids
}
