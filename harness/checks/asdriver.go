package checks

import (
	"context"
	"errors"
	"fmt"
	"math/rand"
	"reflect"
	"sort"
	"strings"
	"sync"
	"time"

	"github.com/kercylan98/vivid"
	"github.com/kercylan98/vivid/internal/actor"
	"github.com/kercylan98/vivid/internal/mailbox"
	"github.com/kercylan98/vivid/pkg/ves"
	"github.com/kercylan98/vivid/verifharness/ctl"
)

// ---- scenario vocabulary (mirrors specs/actorsys/ActorSys.tla) ----

type asConfig struct {
	Decision   map[string]string `json:"decision"`
	Strategy   map[string]string `json:"strategy"`
	LaunchFail []string          `json:"launchFail"`
	// RelaunchFail: actors whose OnLaunch fails the first time it runs after a restart (a double fault)
	RelaunchFail []string `json:"relaunchFail,omitempty"`
	HookFail     []string `json:"hookFail"` // [actor, hook]
	// the following are used by random / directed scenarios only (not part of the TLC model)
	HookFailMode string `json:"hookFailMode,omitempty"` // "" = the hook returns an error, "panic" = it panics
	// KillFail: actors whose OnKill handler panics (a failure while the actor is already stopping)
	KillFail []string `json:"killFail,omitempty"`
	// NoProvider: actors spawned without an ActorProvider: a restart keeps the Go object, which resets its own fields in
	// OnRestarted (and counts itself as a new instance); resetting the behaviour stack is the library's part
	NoProvider         []string            `json:"noProvider,omitempty"`
	FailMode           string              `json:"failMode,omitempty"`           // "" = handlers report failures with ctx.Failed, "panic" = they panic
	KilledFail         []string            `json:"killedFail,omitempty"`         // actors whose behaviour fails on a child's OnKilled notification
	LateSpawn          []string            `json:"lateSpawn,omitempty"`          // actors that spawn one more child when a child dies while they are being killed
	DecisionSeq        map[string][]string `json:"decisionSeq,omitempty"`        // supervisor -> decision per consultation (the last one repeats)
	SpawnPrelaunchFail []string            `json:"spawnPrelaunchFail,omitempty"` // children whose OnPrelaunch fails at the initial spawn
}

type asScenario struct {
	Names  []string          `json:"names"`
	Parent map[string]string `json:"parent"`
	Cfg    asConfig          `json:"cfg"`
}

// asStep is one action of a behaviour: {a:"spawn",x} {a:"tell",x,op,arg} {a:"kill",x,poison} {a:"turn",x}
type asStep struct {
	A      string `json:"a"`
	X      string `json:"x"`
	Op     string `json:"op,omitempty"`
	Arg    string `json:"arg,omitempty"`
	Poison bool   `json:"poison,omitempty"`
	// how the driver obtains the target reference of a tell: "" = the reference returned by ActorOf,
	// "clone" = a fresh Clone() of it, "parsed" = a reference parsed from the path string for this send,
	// "held" = one reference object per actor parsed before anything was spawned and re-used
	Via string `json:"via,omitempty"`
	// random/directed scenarios only: Burst = issue this operation right after the previous one, with no turn in
	// between; A = "settle" lets every ready actor take turns until nobody is ready
	Burst bool `json:"burst,omitempty"`
	// model projection after the step (optional): per actor [st, zombie, restarting, paused, nchildren, nstash, nsys, nuser]
	Proj map[string][]any `json:"proj,omitempty"`
}

type umsg struct {
	ID  int
	Op  string
	Arg string
}

// asTick is what a scripted actor's Loop job delivers to it (not a numbered message: it repeats)
type asTick struct {
	X     *asExec
	Owner string
}

type evA struct{ ID int }
type evB struct{ ID int }

// Two distinct event types that print the same name ("checks.evL"): types declared inside functions, as same-named types
// of two packages would be.
func evLocalC(id int) any {
	type evL struct{ ID int }
	return evL{ID: id}
}
func evLocalD(id int) any {
	type evL struct{ ID int }
	return evL{ID: id}
}

var evTypeC, evTypeD = reflect.TypeOf(evLocalC(0)), reflect.TypeOf(evLocalD(0))

var asEventTypes = map[string]any{"A": evA{}, "B": evB{}, "C": evLocalC(0), "D": evLocalD(0)}

var asDefaults = map[string]any{"e": "", "a": "", "k": "", "m": 0, "p": "", "v": 0, "s": "", "d": "", "n": 0, "i": 0}

type asExec struct {
	sc  *asScenario
	sys *actor.System
	c   *ctl.Ctl

	mu             sync.Mutex
	events         []map[string]any
	nextID         int
	refs           map[string]vivid.ActorRef
	mbox           map[string]*mailbox.UnboundedMailbox
	restarts       map[string]int    // completed OnRestarted hooks per actor
	relaunchFailed map[string]bool   // the scripted launch failure after a restart has happened
	inst           map[string]int    // instance counter per actor (provider)
	paths          map[string]string // path -> name
	gated          map[*mailbox.UnboundedMailbox]string
	sysOf          map[*mailbox.UnboundedMailbox]bool
	stuck          string
	held           map[string]vivid.ActorRef
	consults       map[string]int
}

func (x *asExec) ev(e map[string]any) {
	x.mu.Lock()
	x.events = append(x.events, e)
	x.mu.Unlock()
}

func (x *asExec) newID() int {
	x.mu.Lock()
	defer x.mu.Unlock()
	id := x.nextID
	x.nextID++
	return id
}

func (x *asExec) pathOf(name string) string {
	p := ""
	for n := name; n != "root" && n != ""; n = x.sc.Parent[n] {
		p = "/" + n + p
	}
	return p
}

func (x *asExec) nameOfRef(r vivid.ActorRef) string {
	if r == nil {
		return ""
	}
	if n, ok := x.paths[r.GetPath()]; ok {
		return n
	}
	if r.GetPath() == "/" {
		return "root"
	}
	// an actor of the scenario whose spawn has not been noted yet (a child that was spawned and terminated inside the very
	// ActorOf call that created it): scenario names are unique, the last path segment is the name
	if i := strings.LastIndex(r.GetPath(), "/"); i >= 0 {
		last := r.GetPath()[i+1:]
		if _, ok := x.sc.Parent[last]; ok {
			return last
		}
	}
	return r.GetPath()
}

// scriptActor is the behaviour every modelled actor runs.
type scriptActor struct {
	x        *asExec
	name     string
	inst     int
	gotKill  bool // this instance has received OnKill
	lateDone bool
	handling int   // depth of the behaviour that is handling the current message
	depth    int   // label of the last behaviour this instance pushed
	bstack   []int // labels of the behaviours this instance believes are stacked above OnReceive
}

func (a *scriptActor) has(list []string) bool {
	for _, s := range list {
		if s == a.name {
			return true
		}
	}
	return false
}

func (a *scriptActor) hookFails(hook string) bool {
	hf := a.x.sc.Cfg.HookFail
	return len(hf) == 2 && hf[0] == a.name && hf[1] == hook
}

func (a *scriptActor) OnPrelaunch(ctx vivid.PrelaunchContext) error {
	a.x.mu.Lock()
	r := a.x.restarts[a.name]
	a.x.mu.Unlock()
	if r == 0 {
		if a.has(a.x.sc.Cfg.SpawnPrelaunchFail) {
			// by returning an error only: a panic in OnPrelaunch at spawn time is not recovered by the library and
			// surfaces in the caller of ActorOf (the statement speaks of failure, i.e. the error return)
			a.x.ev(map[string]any{"e": "Hook", "a": a.name, "k": "prelaunch-spawn", "v": 0})
			// the hook has handed its reference to somebody who uses it at once (a registry, a monitor): the actor
			// that is about to fail its pre-launch must still receive nothing
			a.x.sys.Kill(ctx.Ref(), false, "kill during a failing pre-launch")
			return errors.New("prelaunch failed at spawn")
		}
		return nil
	}
	ok := !a.hookFails("prelaunch")
	a.x.ev(map[string]any{"e": "Hook", "a": a.name, "k": "prelaunch", "v": b2i(ok)})
	if !ok {
		if a.x.sc.Cfg.HookFailMode == "panic" {
			panic("prelaunch failed")
		}
		return errors.New("prelaunch failed")
	}
	return nil
}

func (a *scriptActor) OnPreRestart(ctx vivid.RestartContext) error {
	ok := !a.hookFails("prerestart")
	a.x.ev(map[string]any{"e": "Hook", "a": a.name, "k": "prerestart", "v": b2i(ok)})
	if !ok {
		if a.x.sc.Cfg.HookFailMode == "panic" {
			panic("prerestart failed")
		}
		return errors.New("prerestart failed")
	}
	return nil
}

func (a *scriptActor) OnRestarted(ctx vivid.RestartContext) error {
	a.x.mu.Lock()
	a.x.restarts[a.name]++
	if a.has(a.x.sc.Cfg.NoProvider) {
		a.x.inst[a.name]++
		a.inst = a.x.inst[a.name]
		a.gotKill, a.lateDone, a.handling, a.depth, a.bstack = false, false, 0, 0, nil
	}
	a.x.mu.Unlock()
	ok := !a.hookFails("restarted")
	a.x.ev(map[string]any{"e": "Hook", "a": a.name, "k": "restarted", "v": b2i(ok), "i": a.inst})
	if !ok {
		if a.x.sc.Cfg.HookFailMode == "panic" {
			panic("restarted failed")
		}
		return errors.New("restarted failed")
	}
	return nil
}

func (a *scriptActor) spawnChildren(ctx vivid.ActorContext) {
	var kids []string
	for _, n := range a.x.sc.Names {
		if a.x.sc.Parent[n] == a.name {
			kids = append(kids, n)
		}
	}
	sort.Strings(kids)
	for _, k := range kids {
		// children are created once (the model does not re-use names; re-spawning is exercised separately)
		a.x.mu.Lock()
		_, exists := a.x.refs[k]
		a.x.mu.Unlock()
		if exists {
			continue
		}
		ref, err := ctx.ActorOf(a.x.newActor(k), a.x.actorOptions(k)...)
		if err != nil {
			a.x.ev(map[string]any{"e": "SpawnErr", "a": k, "p": a.name, "s": err.Error()})
			continue
		}
		a.x.noteSpawn(k, a.name, ref)
	}
}

func (a *scriptActor) OnReceive(ctx vivid.ActorContext) { a.handle(ctx, 0) }

// pushed returns the behaviour the script pushes with Become: the same script, but it knows at which depth of the
// behaviour stack it was pushed (and which instance pushed it)
func (a *scriptActor) pushed(depth int) vivid.Behavior {
	return func(ctx vivid.ActorContext) { a.handle(ctx, depth) }
}

func (a *scriptActor) handle(ctx vivid.ActorContext, depth int) {
	x := a.x
	a.handling = depth
	switch m := ctx.Message().(type) {
	case *vivid.OnLaunch:
		x.ev(map[string]any{"e": "Deliv", "a": a.name, "k": "launch", "i": a.inst})
		a.spawnChildren(ctx)
		x.mu.Lock()
		first := x.restarts[a.name] == 0
		again := x.restarts[a.name] == 1 && !x.relaunchFailed[a.name] && a.has(x.sc.Cfg.RelaunchFail)
		if again {
			x.relaunchFailed[a.name] = true
		}
		x.mu.Unlock()
		if again {
			x.ev(map[string]any{"e": "Fail", "a": a.name, "k": "launch", "v": b2i(a.gotKill)})
			a.failNow(ctx, "launch failure after a restart")
			return
		}
		if first && a.has(x.sc.Cfg.LaunchFail) {
			x.ev(map[string]any{"e": "Fail", "a": a.name, "k": "launch", "v": b2i(a.gotKill)})
			a.failNow(ctx, "launch failure")
		}
	case *vivid.OnKill:
		a.gotKill = true
		x.ev(map[string]any{"e": "Deliv", "a": a.name, "k": "kill", "i": a.inst, "v": b2i(m.Poison)})
		if a.has(x.sc.Cfg.KillFail) {
			x.ev(map[string]any{"e": "Fail", "a": a.name, "k": "kill", "v": 1})
			panic("failure while handling OnKill")
		}
	case *vivid.OnKilled:
		if m.Ref.Equals(ctx.Ref()) {
			x.ev(map[string]any{"e": "Deliv", "a": a.name, "k": "killed", "p": a.name, "i": a.inst})
		} else {
			x.ev(map[string]any{"e": "Deliv", "a": a.name, "k": "childkilled", "p": x.nameOfRef(m.Ref), "i": a.inst})
			if a.gotKill && a.has(x.sc.Cfg.LateSpawn) && !a.lateDone {
				// a handler other than the OnKill handler spawns while the actor is already being killed
				a.lateDone = true
				late := a.name + "x"
				ref, err := ctx.ActorOf(&scriptActor{x: x, name: late, inst: 1}, vivid.WithActorName(late))
				if err == nil {
					x.noteSpawn(late, a.name, ref) // the scenario's parent map already names the late child
				}
			}
			if a.has(x.sc.Cfg.KilledFail) {
				x.ev(map[string]any{"e": "Fail", "a": a.name, "k": "childkilled", "v": b2i(a.gotKill)})
				a.failNow(ctx, "failure while handling a child's termination")
			}
		}
	case umsg:
		x.ev(map[string]any{"e": "Deliv", "a": a.name, "k": "user", "m": m.ID, "i": a.inst, "s": m.Op, "n": depth})
		a.doOp(ctx, m)
	case ves.DeathLetterEvent:
		if u, ok := m.Envelope.Message().(umsg); ok {
			x.ev(map[string]any{"e": "Deliv", "a": a.name, "k": "user", "m": u.ID, "i": a.inst, "s": "dlnop", "n": depth})
		}
	case asTick:
		x.ev(map[string]any{"e": "SchedTick", "a": a.name, "i": a.inst})
	case evA:
		x.ev(map[string]any{"e": "Deliv", "a": a.name, "k": "event", "m": m.ID, "i": a.inst, "s": "A"})
	case evB:
		x.ev(map[string]any{"e": "Deliv", "a": a.name, "k": "event", "m": m.ID, "i": a.inst, "s": "B"})
	default:
		switch reflect.TypeOf(m) {
		case evTypeC:
			x.ev(map[string]any{"e": "Deliv", "a": a.name, "k": "event", "m": int(reflect.ValueOf(m).Field(0).Int()), "i": a.inst, "s": "C"})
		case evTypeD:
			x.ev(map[string]any{"e": "Deliv", "a": a.name, "k": "event", "m": int(reflect.ValueOf(m).Field(0).Int()), "i": a.inst, "s": "D"})
		}
	}
}

// failNow reports a failure the way the scenario says: through ctx.Failed or by panicking (the last thing the handler does
// in both cases, so that the two are observably the same)
func (a *scriptActor) failNow(ctx vivid.ActorContext, what string) {
	if a.x.sc.Cfg.FailMode == "panic" {
		panic(what)
	}
	ctx.Failed(what)
}

func (a *scriptActor) doOp(ctx vivid.ActorContext, m umsg) {
	x := a.x
	switch m.Op {
	case "nop", "probe":
	case "fail":
		x.ev(map[string]any{"e": "Fail", "a": a.name, "k": "user", "m": m.ID, "v": b2i(a.gotKill)})
		a.failNow(ctx, "user failure")
	case "become", "become!":
		// "become" stacks the new behaviour on top, "become!" discards what is below it; the event carries the label of
		// the behaviour that must handle the next message
		a.depth++ // labels are never re-used within one instance
		if m.Op == "become!" {
			a.bstack = []int{a.depth}
		} else {
			a.bstack = append(a.bstack, a.depth)
		}
		ctx.Become(a.pushed(a.depth), vivid.WithBehaviorDiscardOld(m.Op == "become!"))
		x.ev(map[string]any{"e": "Become", "a": a.name, "n": a.depth})
	case "unbecome", "unbecome!":
		if m.Op == "unbecome!" || len(a.bstack) == 0 {
			a.bstack = nil
		} else {
			a.bstack = a.bstack[:len(a.bstack)-1]
		}
		ctx.UnBecome(vivid.WithBehaviorDiscardOld(m.Op == "unbecome!"))
		top := 0
		if len(a.bstack) > 0 {
			top = a.bstack[len(a.bstack)-1]
		}
		x.ev(map[string]any{"e": "Become", "a": a.name, "n": top})
	case "sched-stash":
		// a message that reaches the actor through its scheduler (Once, unique reference) and is stashed on arrival
		id := x.newID()
		x.ev(map[string]any{"e": "Tell", "a": a.name, "p": a.name, "m": id, "s": "sstash"})
		_ = ctx.Scheduler().Once(ctx.Ref(), time.Millisecond, umsg{ID: id, Op: "sstash"}, vivid.WithSchedulerReference(fmt.Sprintf("u%d", id)))
	case "sched-once", "sched-loop", "sched-cancel":
		// jobs of the actor itself under one fixed reference (re-use of the reference after Cancel is part of the point);
		// the scheduled message is an ordinary scripted message whose operation is m.Arg ("nop", "stash")
		sch := ctx.Scheduler()
		switch m.Op {
		case "sched-cancel":
			_ = sch.Cancel("r")
			x.ev(map[string]any{"e": "SchedCancel", "a": a.name})
		default:
			id := x.newID()
			op := m.Arg
			if op == "" {
				op = "nop2"
			}
			x.ev(map[string]any{"e": "Sched", "a": a.name, "m": id, "s": m.Op})
			if m.Op == "sched-once" {
				x.ev(map[string]any{"e": "Tell", "a": a.name, "p": a.name, "m": id, "s": op})
				_ = sch.Once(ctx.Ref(), 2*time.Millisecond, umsg{ID: id, Op: op}, vivid.WithSchedulerReference("r"))
			} else {
				_ = sch.Loop(ctx.Ref(), 3*time.Millisecond, asTick{X: x, Owner: a.name}, vivid.WithSchedulerReference("r"))
			}
		}
	case "jobs":
		// does the actor's scheduler still know the job under the fixed reference?
		x.ev(map[string]any{"e": "Jobs", "a": a.name, "v": b2i(ctx.Scheduler().Exists("r"))})
	case "stash", "sstash":
		ctx.Stash()
		x.ev(map[string]any{"e": "Stashed", "a": a.name, "m": m.ID, "n": ctx.StashCount()})
	case "unstash":
		before := ctx.StashCount()
		n := 2
		if m.Arg != "" {
			fmt.Sscan(m.Arg, &n)
		}
		_ = before
		ctx.Unstash(n)
		// n: how many messages the call asked for (the monitors cap it by what THEY know to be stashed); v: what is left
		x.ev(map[string]any{"e": "Unstashed", "a": a.name, "n": n, "v": ctx.StashCount()})
	case "kill", "pkill":
		if r := x.ref(m.Arg); r != nil {
			x.ev(map[string]any{"e": "KillCall", "a": m.Arg, "p": a.name, "v": b2i(m.Op == "pkill")})
			ctx.Kill(r, m.Op == "pkill", "scripted")
		}
	case "tell":
		if r := x.ref(m.Arg); r != nil {
			id := x.newID()
			x.ev(map[string]any{"e": "Tell", "a": m.Arg, "p": a.name, "m": id, "s": "nop"})
			ctx.Tell(r, umsg{ID: id, Op: "nop"})
		}
	case "tellself":
		// two messages of the actor to itself (the mailbox is entered directly, not through a reference)
		for i := 0; i < 2; i++ {
			id := x.newID()
			x.ev(map[string]any{"e": "Tell", "a": a.name, "p": a.name, "m": id, "s": "nop"})
			ctx.TellSelf(umsg{ID: id, Op: "nop"})
		}
	case "watch":
		if r := x.ref(m.Arg); r != nil {
			x.ev(map[string]any{"e": "Watch", "a": m.Arg, "p": a.name})
			ctx.Watch(r)
		}
	case "unwatch":
		if r := x.ref(m.Arg); r != nil {
			x.ev(map[string]any{"e": "Unwatch", "a": m.Arg, "p": a.name})
			ctx.Unwatch(r)
		}
	case "sub":
		ctx.EventStream().Subscribe(ctx, asEventTypes[m.Arg])
		x.ev(map[string]any{"e": "Sub", "a": a.name, "s": m.Arg})
	case "unsub":
		ctx.EventStream().Unsubscribe(ctx, asEventTypes[m.Arg])
		x.ev(map[string]any{"e": "Unsub", "a": a.name, "s": m.Arg})
	case "unsuball":
		ctx.EventStream().UnsubscribeAll(ctx)
		x.ev(map[string]any{"e": "UnsubAll", "a": a.name})
	case "pub":
		id := x.newID()
		x.ev(map[string]any{"e": "Pub", "a": a.name, "m": id, "s": m.Arg})
		switch m.Arg {
		case "A":
			ctx.EventStream().Publish(ctx, evA{ID: id})
		case "C":
			ctx.EventStream().Publish(ctx, evLocalC(id))
		case "D":
			ctx.EventStream().Publish(ctx, evLocalD(id))
		default:
			ctx.EventStream().Publish(ctx, evB{ID: id})
		}
	}
}

func (x *asExec) ref(name string) vivid.ActorRef {
	x.mu.Lock()
	defer x.mu.Unlock()
	return x.refs[name]
}

func (x *asExec) noteSpawn(name, parent string, ref vivid.ActorRef) {
	x.mu.Lock()
	x.refs[name] = ref
	x.paths[ref.GetPath()] = name
	x.mu.Unlock()
	x.ev(map[string]any{"e": "Spawn", "a": name, "p": parent})
}

func (x *asExec) newActor(name string) vivid.Actor {
	x.mu.Lock()
	x.inst[name]++
	i := x.inst[name]
	x.mu.Unlock()
	return &scriptActor{x: x, name: name, inst: i}
}

var asDecision = map[string]vivid.SupervisionDecision{
	"restart": vivid.SupervisionDecisionRestart, "grestart": vivid.SupervisionDecisionGracefulRestart,
	"stop": vivid.SupervisionDecisionStop, "gstop": vivid.SupervisionDecisionGracefulStop,
	"resume": vivid.SupervisionDecisionResume, "escalate": vivid.SupervisionDecisionEscalate,
}

func (x *asExec) actorOptions(name string) []vivid.ActorOption {
	opts := []vivid.ActorOption{vivid.WithActorName(name)}
	noProvider := false
	for _, n := range x.sc.Cfg.NoProvider {
		noProvider = noProvider || n == name
	}
	if !noProvider {
		opts = append(opts, vivid.WithActorProvider(vivid.ActorProviderFN(func() vivid.Actor { return x.newActor(name) })))
	}
	if d, ok := x.sc.Cfg.Decision[name]; ok {
		maker := vivid.SupervisionStrategyDecisionMakerFN(func(sctx vivid.SupervisionContext) (vivid.SupervisionDecision, string) {
			failing := ""
			if c := sctx.Child().First(); c != nil {
				failing = x.nameOfRef(c)
			}
			d := d
			if seq := x.sc.Cfg.DecisionSeq[name]; len(seq) > 0 {
				x.mu.Lock()
				k := x.consults[name]
				x.consults[name]++
				x.mu.Unlock()
				if k >= len(seq) {
					k = len(seq) - 1
				}
				d = seq[k]
			}
			x.ev(map[string]any{"e": "Consult", "a": name, "p": failing, "d": d, "s": x.sc.Cfg.Strategy[name], "n": len(sctx.Children())})
			return asDecision[d], "scripted"
		})
		if x.sc.Cfg.Strategy[name] == "ofa" {
			opts = append(opts, vivid.WithActorSupervisionStrategy(vivid.OneForAllStrategy(maker)))
		} else {
			opts = append(opts, vivid.WithActorSupervisionStrategy(vivid.OneForOneStrategy(maker)))
		}
	}
	return opts
}

// observer is an ungated actor that records what the event stream publishes.
type observer struct{ x *asExec }

func (o *observer) OnReceive(ctx vivid.ActorContext) {
	x := o.x
	switch m := ctx.Message().(type) {
	case *vivid.OnLaunch:
		es := ctx.EventStream()
		es.Subscribe(ctx, ves.DeathLetterEvent{})
		es.Subscribe(ctx, ves.ActorKilledEvent{})
		es.Subscribe(ctx, ves.ActorRestartedEvent{})
		es.Subscribe(ctx, ves.ActorFailedEvent{})
		es.Subscribe(ctx, ves.ActorLaunchedEvent{})
	case ves.DeathLetterEvent:
		e := map[string]any{"e": "DL", "k": fmt.Sprintf("%T", m.Envelope.Message())}
		switch um := m.Envelope.Message().(type) {
		case umsg:
			e["k"], e["m"] = "user", um.ID
		case ves.DeathLetterEvent:
			if u, ok := um.Envelope.Message().(umsg); ok {
				e["k"], e["m"] = "user", u.ID
			}
		case evA:
			e["k"], e["m"] = "event", um.ID
		case evB:
			e["k"], e["m"] = "event", um.ID
		case asTick:
			e["k"], e["a"] = "schedtick", um.Owner
		case *actor.SchedulerMessage:
			if tk, ok := um.Message.(asTick); ok {
				e["k"], e["a"] = "schedtick", tk.Owner
			} else if u2, ok := um.Message.(umsg); ok {
				e["k"], e["m"] = "user", u2.ID
			}
		case *vivid.OnKill:
			e["k"] = "kill"
		case *vivid.OnKilled:
			e["k"] = "killed"
		case *vivid.OnLaunch:
			e["k"] = "launch"
		}
		if r := m.Envelope.Receiver(); r != nil {
			e["a"] = x.nameOfRef(r)
		}
		x.ev(e)
	case ves.ActorKilledEvent:
		x.ev(map[string]any{"e": "EvKilled", "a": x.nameOfRef(m.ActorRef)})
	case ves.ActorRestartedEvent:
		x.ev(map[string]any{"e": "EvRestarted", "a": x.nameOfRef(m.ActorRef)})
	case ves.ActorFailedEvent:
		x.ev(map[string]any{"e": "EvFailed", "a": x.nameOfRef(m.ActorRef)})
	case ves.ActorLaunchedEvent:
		if n := x.nameOfRef(m.ActorRef); !strings.HasPrefix(n, "/") {
			x.ev(map[string]any{"e": "EvLaunched", "a": n})
		}
	}
}

func newASExec(sc *asScenario) (*asExec, error) {
	installDispatch()
	x := &asExec{sc: sc, nextID: 1, refs: map[string]vivid.ActorRef{}, mbox: map[string]*mailbox.UnboundedMailbox{},
		restarts: map[string]int{}, relaunchFailed: map[string]bool{}, inst: map[string]int{}, paths: map[string]string{},
		gated: map[*mailbox.UnboundedMailbox]string{}, sysOf: map[*mailbox.UnboundedMailbox]bool{}, consults: map[string]int{}}
	x.sys = actor.NewSystem(vivid.WithActorSystemContext(context.Background()), vivid.WithActorSystemLogger(silentLogger),
		vivid.WithActorSystemStopTimeout(3*time.Second))
	c := ctl.New()
	x.c = c
	modelled := map[string]bool{}
	for _, n := range sc.Names {
		modelled[x.pathOf(n)] = true
	}
	var fmu sync.Mutex
	belongs := func(obj any) (mine bool, gate bool) {
		mb, ok := obj.(*mailbox.UnboundedMailbox)
		if !ok {
			return false, false
		}
		fmu.Lock()
		defer fmu.Unlock()
		if v, ok := x.sysOf[mb]; ok {
			_, g := x.gated[mb]
			return v, g
		}
		h := mb.VerifHandler()
		mine = actor.VerifSystemOf(h) == x.sys
		x.sysOf[mb] = mine
		if mine {
			if p := actor.VerifPathOf(h); modelled[p] {
				x.gated[mb] = p
				gate = true
				x.mu.Lock()
				x.mbox[nameFromPath(p)] = mb
				x.mu.Unlock()
			}
		}
		return mine, gate
	}
	c.Filter = func(point string, obj any) bool {
		if point == "sched.fire" {
			// the job function of a scripted actor's Loop job has been entered (an uncontrolled goroutine of the timer)
			if tk, ok := obj.(asTick); ok && tk.X == x {
				x.ev(map[string]any{"e": "SchedFire", "a": tk.Owner})
			}
			return false
		}
		m, _ := belongs(obj)
		return m
	}
	c.PassFn = func(point string, obj any) bool {
		if point != "mb.ph.pop_sys" {
			return true
		}
		_, g := belongs(obj)
		return !g
	}
	c.SpawnPoints["mb.spawn"] = true
	c.BirthPoints["mb.proc.start"] = true
	c.ExitPoints["mb.proc.exit"] = true
	c.NewRole = func(point string, obj any) string {
		mb := obj.(*mailbox.UnboundedMailbox)
		fmu.Lock()
		p, ok := x.gated[mb]
		fmu.Unlock()
		if ok {
			return "A:" + p
		}
		return fmt.Sprintf("auto:%p", mb)
	}
	ctl.Activate(c)
	var err error
	c.Do("driver", func() {
		err = x.sys.Start()
		if err == nil {
			_, err = x.sys.ActorOf(&observer{x: x}, vivid.WithActorName("zz-observer"))
		}
	})
	if err != nil {
		ctl.Deactivate(c)
		return nil, err
	}
	if e := x.settle(); e != "" {
		ctl.Deactivate(c)
		return nil, errors.New(e)
	}
	x.held = map[string]vivid.ActorRef{}
	for _, n := range sc.Names {
		if r, err := x.sys.ParseRef("localhost" + x.pathOf(n)); err == nil {
			x.held[n] = r
			x.paths[x.pathOf(n)] = n
		}
	}
	return x, nil
}

// settle waits for quiescence of everything that is not parked at the gate, then lets consumers
// that have nothing to process run to their end, so that "a consumer is parked" == "the actor has a turn".
func (x *asExec) settle() string {
	for i := 0; i < 10000; i++ {
		if err := x.c.WaitSettled(8 * time.Second); err != nil {
			x.stuck = err.Error()
			return x.stuck
		}
		released := false
		for _, w := range x.c.Waiters() {
			mb := w.Obj.(*mailbox.UnboundedMailbox)
			s := mb.VerifState()
			if s.SystemLen == 0 && (s.Paused == 1 || s.UserLen == 0) {
				x.c.Release(w)
				released = true
			}
		}
		if !released {
			return ""
		}
	}
	return "settle loop did not converge"
}

// turnOf returns the parked consumer of the named actor (nil if it has no turn available).
func (x *asExec) turnOf(name string) *ctl.Waiter {
	return x.c.Find("A:" + x.pathOf(name))
}

func (x *asExec) ready() []string {
	var out []string
	for _, w := range x.c.Waiters() {
		out = append(out, strings.TrimPrefix(w.Role, "A:"))
	}
	sort.Strings(out)
	return out
}

func (x *asExec) do(st asStep) (ok bool) {
	switch st.A {
	case "spawn":
		var ref vivid.ActorRef
		var err error
		x.c.Do("driver", func() { ref, err = x.sys.ActorOf(x.newActor(st.X), x.actorOptions(st.X)...) })
		if err != nil {
			x.ev(map[string]any{"e": "SpawnErr", "a": st.X, "p": "root", "s": err.Error()})
		} else {
			x.noteSpawn(st.X, "root", ref)
		}
	case "tell":
		r := x.ref(st.X)
		switch st.Via {
		case "clone":
			if r != nil {
				r = r.Clone()
			}
		case "parsed":
			pr, err := x.sys.ParseRef("localhost" + x.pathOf(st.X))
			if err == nil {
				r = pr
			}
		case "held":
			x.mu.Lock()
			r = x.held[st.X]
			x.mu.Unlock()
		}
		if r == nil {
			return false
		}
		id := x.newID()
		x.ev(map[string]any{"e": "Tell", "a": st.X, "p": "drv", "m": id, "s": st.Op})
		if st.Op == "dlnop" {
			// a user message whose payload happens to be a dead-letter event (what a dead-letter monitor forwards to an auditor)
			x.c.Do("driver", func() {
				x.sys.Tell(r, ves.DeathLetterEvent{Envelope: mailbox.NewEnvelop(false, nil, r, umsg{ID: id, Op: "nop"}), Time: time.Now()})
			})
			break
		}
		x.c.Do("driver", func() { x.sys.Tell(r, umsg{ID: id, Op: st.Op, Arg: st.Arg}) })
	case "kill":
		r := x.ref(st.X)
		if r == nil {
			return false
		}
		x.ev(map[string]any{"e": "KillCall", "a": st.X, "p": "drv", "v": b2i(st.Poison)})
		x.c.Do("driver", func() { x.sys.Kill(r, st.Poison, "driver") })
	case "turn":
		w := x.turnOf(st.X)
		if w == nil {
			return false
		}
		x.ev(map[string]any{"e": "Turn", "a": st.X})
		x.c.Release(w)
	default:
		return false
	}
	return x.settle() == ""
}

// project renders the real state of the modelled actors in the model's terms.
func (x *asExec) project() map[string]string {
	out := map[string]string{}
	byPath := map[string]actor.VerifContextState{}
	for _, cs := range x.sys.VerifContexts() {
		byPath[cs.Path] = cs
	}
	x.mu.Lock()
	defer x.mu.Unlock()
	for _, n := range x.sc.Names {
		cs, reg := byPath[x.pathOf(n)]
		st := "absent"
		if _, spawned := x.refs[n]; spawned {
			st = "killed"
		}
		if reg {
			st = []string{"running", "killing", "killed"}[cs.State]
		}
		nsys, nuser, paused := 0, 0, false
		if mb := x.mbox[n]; mb != nil {
			s := mb.VerifState()
			nsys, nuser, paused = int(s.SystemLen), int(s.UserLen), s.Paused == 1
		} else if reg {
			// not launched yet: the OnLaunch is still queued
			nsys = -1
		}
		out[n] = fmt.Sprintf("%s/%d/%d/%d/%d/%d/%d/%d", st, b2i(reg && cs.Zombie), b2i(reg && cs.Restarting), b2i(paused), len(cs.Children), cs.Stash, nsys, nuser)
	}
	return out
}

// quiescent records the at-rest observation used by the monitors.
func (x *asExec) quiescent(label string) {
	byPath := map[string]actor.VerifContextState{}
	for _, cs := range x.sys.VerifContexts() {
		byPath[cs.Path] = cs
	}
	x.ev(map[string]any{"e": "QBegin", "s": label})
	fwd, rev := x.sys.VerifStreamEntries()
	for _, n := range x.sc.Names {
		cs, reg := byPath[x.pathOf(n)]
		x.mu.Lock()
		_, spawned := x.refs[n]
		mb := x.mbox[n]
		x.mu.Unlock()
		if !spawned {
			continue
		}
		st := "gone"
		if reg {
			st = []string{"running", "killing", "killed"}[cs.State]
			if cs.Zombie {
				st = "zombie"
			}
		}
		nuser, paused := 0, 0
		if mb != nil {
			s := mb.VerifState()
			nuser, paused = int(s.UserLen), int(s.Paused)
		}
		// k: entries of the event stream for this path as "forward/reverse"
		x.ev(map[string]any{"e": "AState", "a": n, "s": st, "v": paused, "n": cs.Stash, "m": nuser, "i": len(cs.Children), "d": fmt.Sprint(cs.Jobs),
			"k": fmt.Sprintf("%d/%d", fwd[x.pathOf(n)], rev[x.pathOf(n)])})
	}
	x.ev(map[string]any{"e": "QEnd"})
}

type asRun struct {
	Events        []map[string]any
	Steps         int
	Conform       int
	Mismatch      int
	Drift         int
	Stuck         string
	FirstMismatch string
}

// runActorScenario executes a behaviour (TLC-generated or nil) and finishes it with the seeded random
// scheduler, then runs the closing phase: probes, system stop, post-stop sends.
func runActorScenario(sc *asScenario, schedule []asStep, seed int64, randomOps []asStep) *asRun {
	run := &asRun{}
	x, err := newASExec(sc)
	if err != nil {
		run.Stuck = "cannot start system: " + err.Error()
		return run
	}
	defer ctl.Deactivate(x.c)
	defer func() { run.Events = x.events }()
	fail := func() *asRun {
		run.Stuck = x.stuck
		x.c.Abandon()
		return run
	}
	for _, st := range schedule {
		if !x.do(st) {
			if x.stuck != "" {
				return fail()
			}
			run.Drift++
			break
		}
		run.Steps++
		if st.Proj != nil {
			p := x.project()
			same := true
			for n, wantArr := range st.Proj {
				want := projString(wantArr)
				if p[n] != want {
					same = false
					if run.FirstMismatch == "" {
						run.FirstMismatch = fmt.Sprintf("step %d (%s %s): %s model=%s real=%s", run.Steps, st.A, st.X, n, want, p[n])
					}
				}
			}
			if same {
				run.Conform++
			} else {
				run.Mismatch++
			}
		}
	}
	rng := rand.New(rand.NewSource(seed))
	// remaining driver operations of a random scenario are interleaved with turns
	pending := append([]asStep{}, randomOps...)
	for guard := 0; guard < 5000; guard++ {
		ready := x.ready()
		n := len(ready)
		if len(pending) > 0 {
			n++
		}
		if n == 0 {
			break
		}
		k := rng.Intn(n)
		if k < len(ready) {
			if !x.do(asStep{A: "turn", X: nameFromPath(ready[k])}) && x.stuck != "" {
				return fail()
			}
		} else {
			st := pending[0]
			pending = pending[1:]
			if st.A == "settle" {
				for g2 := 0; g2 < 2000; g2++ {
					rd := x.ready()
					if len(rd) == 0 {
						break
					}
					if !x.do(asStep{A: "turn", X: nameFromPath(rd[rng.Intn(len(rd))])}) && x.stuck != "" {
						return fail()
					}
				}
			} else if !x.do(st) && x.stuck != "" {
				return fail()
			}
			for len(pending) > 0 && pending[0].Burst {
				st = pending[0]
				pending = pending[1:]
				if !x.do(st) && x.stuck != "" {
					return fail()
				}
			}
		}
		run.Steps++
	}
	x.quiescent("rest")
	// closing phase 1: one probe per actor that ever existed
	x.mu.Lock()
	var names []string
	for n := range x.refs {
		names = append(names, n)
	}
	x.mu.Unlock()
	sort.Strings(names)
	for _, n := range names {
		id := x.newID()
		x.ev(map[string]any{"e": "Tell", "a": n, "p": "drv", "m": id, "s": "probe"})
		r := x.ref(n)
		x.c.Do("driver", func() { x.sys.Tell(r, umsg{ID: id, Op: "probe"}) })
		if x.settle() != "" {
			return fail()
		}
	}
	for guard := 0; guard < 5000; guard++ {
		ready := x.ready()
		if len(ready) == 0 {
			break
		}
		if !x.do(asStep{A: "turn", X: nameFromPath(ready[rng.Intn(len(ready))])}) && x.stuck != "" {
			return fail()
		}
	}
	x.quiescent("probed")
	// closing phase 2: released paths
	for _, n := range names {
		_, ferr := x.sys.FindActor("localhost" + x.pathOf(n))
		x.ev(map[string]any{"e": "Find", "a": n, "v": b2i(ferr == nil)})
	}
	for _, n := range x.sc.Cfg.SpawnPrelaunchFail { // never existed: the path must not resolve
		_, ferr := x.sys.FindActor("localhost" + x.pathOf(n))
		x.ev(map[string]any{"e": "Find", "a": n, "v": b2i(ferr == nil)})
	}
	// closing phase 3: stop the system (ungated from here on), then send to dead references
	x.c.FreeRun()
	stopErr := x.sys.Stop(3 * time.Second)
	x.ev(map[string]any{"e": "Stopped", "v": b2i(stopErr == nil), "n": len(x.sys.VerifLiveActors())})
	nBefore := len(x.events)
	for _, n := range names {
		id := x.newID()
		x.ev(map[string]any{"e": "Tell", "a": n, "p": "drv", "m": id, "s": "afterstop"})
		x.sys.Tell(x.ref(n), umsg{ID: id, Op: "nop"})
	}
	time.Sleep(2 * time.Millisecond)
	_ = nBefore
	x.ev(map[string]any{"e": "End"})
	return run
}

func nameFromPath(p string) string {
	i := strings.LastIndex(p, "/")
	return p[i+1:]
}

var _ = reflect.TypeOf

// projString renders the model's projection [st, zombie, restarting, paused, nchildren, nstash, nsys, nuser]
// like asExec.project does (the stash of an unregistered actor is not observable: reported as 0 by both).
func projString(a []any) string {
	if len(a) != 8 {
		return fmt.Sprint(a)
	}
	f := func(v any) int {
		if x, ok := v.(float64); ok {
			return int(x)
		}
		return -99
	}
	return fmt.Sprintf("%v/%d/%d/%d/%d/%d/%d/%d", a[0], f(a[1]), f(a[2]), f(a[3]), f(a[4]), f(a[5]), f(a[6]), f(a[7]))
}
