package checks

import (
	"context"
	"fmt"
	"math/rand"
	"sync"
	"time"

	"github.com/kercylan98/vivid"
	"github.com/kercylan98/vivid/internal/actor"
	"github.com/kercylan98/vivid/internal/verifhook"
)

// Ungated part of C04: real goroutines call PipeTo on a future while its reply arrives; no hook is installed, the
// overlap is left to the machine (thousands of futures, small random delays).  One short AskMon trace per future;
// the traces of all futures whose forwarders did not each receive exactly one result, plus a sample of the others,
// are handed to the monitor.

type c4ask struct{ ID int }
type c4rep struct{ ID int }

func runPipeStress(seed int64, n, pipers int) (traces []*Trace, overlapped int, err error) {
	verifhook.Set(nil)
	sys := actor.NewSystem(vivid.WithActorSystemContext(context.Background()), vivid.WithActorSystemLogger(silentLogger), vivid.WithActorSystemStopTimeout(2*time.Second))
	if err := sys.Start(); err != nil {
		return nil, 0, err
	}
	defer func() { go sys.Stop(2 * time.Second) }()
	echo, err := sys.ActorOf(vivid.ActorFN(func(ctx vivid.ActorContext) {
		if m, ok := ctx.Message().(c4ask); ok {
			ctx.Reply(c4rep{ID: m.ID})
		}
	}), vivid.WithActorName("echo"))
	if err != nil {
		return nil, 0, err
	}
	var mu sync.Mutex
	got := make([][]int, pipers) // per forwarder: count per future id
	fwd := make([]vivid.ActorRef, pipers)
	for k := 0; k < pipers; k++ {
		k := k
		got[k] = make([]int, n)
		fwd[k], err = sys.ActorOf(vivid.ActorFN(func(ctx vivid.ActorContext) {
			if pr, ok := ctx.Message().(*vivid.PipeResult); ok {
				if r, ok := pr.Message.(c4rep); ok && r.ID < n {
					mu.Lock()
					got[k][r.ID]++
					mu.Unlock()
				}
			}
		}), vivid.WithActorName(fmt.Sprintf("fwd%d", k)))
		if err != nil {
			return nil, 0, err
		}
	}
	piped := make([][]bool, pipers)
	early := make([]bool, n) // some PipeTo returned before the future was complete (the calls overlapped the completion)
	for k := range piped {
		piped[k] = make([]bool, n)
	}
	rng := rand.New(rand.NewSource(seed))
	for it := 0; it < n; it++ {
		f := sys.Ask(echo, c4ask{ID: it}, 2*time.Second)
		var wg sync.WaitGroup
		for k := 0; k < pipers; k++ {
			wg.Add(1)
			spin := rng.Intn(400)
			go func(k, spin int) {
				defer wg.Done()
				x := 0
				for i := 0; i < spin; i++ {
					x += i
				}
				_ = x
				if err := f.PipeTo(vivid.ActorRefs{fwd[k]}); err == nil {
					piped[k][it] = true
				}
			}(k, spin)
		}
		wg.Wait()
		done := make(chan struct{})
		go func() { _ = f.Wait(); close(done) }()
		select {
		case <-done:
		case <-time.After(3 * time.Second):
			return nil, 0, fmt.Errorf("future %d never completed", it)
		}
	}
	time.Sleep(300 * time.Millisecond)
	mu.Lock()
	defer mu.Unlock()
	sample := map[int]bool{}
	for len(sample) < 200 && len(sample) < n {
		sample[rng.Intn(n)] = true
	}
	for it := 0; it < n; it++ {
		odd := false
		for k := 0; k < pipers; k++ {
			if piped[k][it] && got[k][it] != 1 {
				odd = true
			}
		}
		_ = early
		if !odd && !sample[it] {
			continue
		}
		ev := []map[string]any{{"e": "Attempt", "a": "r1"}}
		for k := 0; k < pipers; k++ {
			if piped[k][it] {
				ev = append(ev, map[string]any{"e": "PipeRet", "a": fmt.Sprintf("p%d", k+1)})
			}
		}
		for k := 0; k < pipers; k++ {
			for j := 0; j < got[k][it]; j++ {
				ev = append(ev, map[string]any{"e": "Fwd", "a": fmt.Sprintf("p%d", k+1), "s": "r1"})
			}
		}
		ev = append(ev, map[string]any{"e": "Final", "n": 1, "v": 0, "p": ""})
		traces = append(traces, &Trace{Events: ev, Class: "parallel-pipe-stress", Name: fmt.Sprintf("pipe-stress future %d", it),
			Scenario: map[string]any{"seed": seed, "future": it, "pipers": pipers, "what": "PipeTo from real goroutines while the reply arrives (no gate)"}})
	}
	return traces, 0, nil
}

type c4release struct{ ID int }
type c4go struct{ ID int }

// runReincarnation: a named actor asks a slow responder and terminates; a new actor is spawned under the same name and
// asks again; the answer to the first request arrives late, before the answer to the second one.  The second future
// must complete with its own answer.
func runReincarnation(seed int64) ([]map[string]any, error) {
	verifhook.Set(nil)
	sys := actor.NewSystem(vivid.WithActorSystemContext(context.Background()), vivid.WithActorSystemLogger(silentLogger), vivid.WithActorSystemStopTimeout(2*time.Second))
	if err := sys.Start(); err != nil {
		return nil, err
	}
	defer func() { go sys.Stop(2 * time.Second) }()
	var mu sync.Mutex
	var events []map[string]any
	ev := func(e map[string]any) { mu.Lock(); events = append(events, e); mu.Unlock() }
	senders := map[int]vivid.ActorRef{}
	asked := make(chan int, 4)
	slow, err := sys.ActorOf(vivid.ActorFN(func(ctx vivid.ActorContext) {
		switch m := ctx.Message().(type) {
		case c4ask:
			mu.Lock()
			senders[m.ID] = ctx.Sender()
			mu.Unlock()
			asked <- m.ID
		case c4release:
			mu.Lock()
			to := senders[m.ID]
			mu.Unlock()
			if to != nil {
				if m.ID == 2 {
					ev(map[string]any{"e": "Attempt", "a": "r2"})
				}
				ctx.Tell(to, c4rep{ID: m.ID})
			}
		}
	}), vivid.WithActorName("slow"))
	if err != nil {
		return nil, err
	}
	results := make(chan string, 4)
	dead := make(chan struct{}, 2)
	spawnAsker := func() (vivid.ActorRef, error) {
		return sys.ActorOf(vivid.ActorFN(func(ctx vivid.ActorContext) {
			switch m := ctx.Message().(type) {
			case c4go:
				f := ctx.Ask(slow, c4ask{ID: m.ID}, 1500*time.Millisecond)
				go func(id int) {
					r, err := f.Result()
					switch {
					case err != nil:
						results <- fmt.Sprintf("%d:error", id)
					default:
						if rep, ok := r.(c4rep); ok {
							results <- fmt.Sprintf("%d:r%d", id, rep.ID)
						} else {
							results <- fmt.Sprintf("%d:other", id)
						}
					}
				}(m.ID)
			case *vivid.OnKilled:
				if m.Ref.Equals(ctx.Ref()) {
					dead <- struct{}{}
				}
			}
		}), vivid.WithActorName("asker"))
	}
	wait := func(ch chan int) error {
		select {
		case <-ch:
			return nil
		case <-time.After(2 * time.Second):
			return fmt.Errorf("the responder did not receive the request")
		}
	}
	a1, err := spawnAsker()
	if err != nil {
		return nil, err
	}
	sys.Tell(a1, c4go{ID: 1})
	if err := wait(asked); err != nil {
		return nil, err
	}
	sys.Kill(a1, false, "first incarnation")
	select {
	case <-dead:
	case <-time.After(2 * time.Second):
		return nil, fmt.Errorf("the first asker did not terminate")
	}
	<-results // the first future fails with the asker's death
	time.Sleep(20 * time.Millisecond)
	a2, err := spawnAsker()
	if err != nil {
		return nil, fmt.Errorf("the name could not be re-used: %w", err)
	}
	sys.Tell(a2, c4go{ID: 2})
	if err := wait(asked); err != nil {
		return nil, err
	}
	sys.Tell(slow, c4release{ID: 1}) // the late answer to the dead asker's request
	time.Sleep(40 * time.Millisecond)
	sys.Tell(slow, c4release{ID: 2})
	select {
	case r := <-results:
		// "2:r2" is the own answer; "2:r1" is the answer to somebody else's request
		ev(map[string]any{"e": "Result", "a": "w1", "s": r[2:]})
	case <-time.After(3 * time.Second):
		ev(map[string]any{"e": "Final", "n": 0, "v": 0, "p": ""})
		return events, nil
	}
	ev(map[string]any{"e": "Final", "n": 1, "v": 0, "p": ""})
	mu.Lock()
	defer mu.Unlock()
	return append([]map[string]any{}, events...), nil
}
