package checks

import (
	"fmt"
	"os"
	"path/filepath"
	"strings"
	"sync"

	"github.com/kercylan98/vivid/verifharness/core"
	"github.com/kercylan98/vivid/verifharness/tlc"
)

func init() { subcommands["--setup"] = setup }

// setup: the harness binary is already built by the vcheck script; parse every
// specification once so that a broken spec is noticed before any check runs.
func setup(_ []string) int {
	sc, err := tlc.NewScratch()
	if err != nil {
		fmt.Println("setup:", err)
		return 2
	}
	defer sc.Close()
	specs := filepath.Join(core.VerifDir(), "specs")
	dirs, err := os.ReadDir(specs)
	if err != nil {
		fmt.Println("setup:", err)
		return 2
	}
	var wg sync.WaitGroup
	var mu sync.Mutex
	failed := 0
	sem := make(chan struct{}, 8)
	for _, d := range dirs {
		if !d.IsDir() {
			continue
		}
		dst := sc.Sub(d.Name())
		if err := tlc.CopySpecs(filepath.Join(specs, d.Name()), dst); err != nil {
			fmt.Println("setup:", err)
			return 2
		}
		files, _ := os.ReadDir(dst)
		for _, f := range files {
			if !strings.HasSuffix(f.Name(), ".tla") {
				continue
			}
			mod := strings.TrimSuffix(f.Name(), ".tla")
			wg.Add(1)
			go func(dir, mod string) {
				defer wg.Done()
				sem <- struct{}{}
				defer func() { <-sem }()
				if err := tlc.Sany(dir, mod); err != nil {
					mu.Lock()
					failed++
					fmt.Println(err)
					mu.Unlock()
				}
			}(dst, mod)
		}
	}
	wg.Wait()
	if failed > 0 {
		return 2
	}
	fmt.Println("setup ok: harness built, all specifications parse")
	return 0
}
