package checks

import (
	"encoding/json"
	"fmt"
	"os"
	"path/filepath"
	"strings"
	"sync"
	"time"

	"github.com/kercylan98/vivid/verifharness/core"
	"github.com/kercylan98/vivid/verifharness/tlc"
)

type asBehaviour struct {
	Steps []asStep   `json:"steps"`
	Tags  []string   `json:"tags"`
	Scen  asScenario `json:"scen"`
}

// asGenerate runs the ActorSys generator configuration in simulation mode.
func asGenerate(dir, cfg string, num int, seed int64, timeout time.Duration) ([]*asBehaviour, *tlc.Result, error) {
	var out []*asBehaviour
	var mu sync.Mutex
	var perr error
	r, err := tlc.Exec(tlc.Run{Dir: dir, Module: "MC_ActorSysGen", Config: cfg, Workers: 1, Timeout: timeout,
		Args: []string{"-simulate", fmt.Sprintf("num=%d", num), "-depth", "121", "-seed", fmt.Sprint(seed)},
		OnLine: func(s string) {
			if !strings.HasPrefix(s, "BEHAV ") {
				return
			}
			b := &asBehaviour{}
			if err := json.Unmarshal([]byte(s[6:]), b); err != nil {
				perr = err
				return
			}
			mu.Lock()
			out = append(out, b)
			mu.Unlock()
		}})
	if err == nil {
		err = perr
	}
	if err == nil && r.Violation != "" {
		err = fmt.Errorf("%s: %s\n%s", cfg, vio(r), tailOf(r))
	}
	return out, r, err
}

// asReplayAll replays behaviours in parallel (each on its own real actor system).
func asReplayAll(behs []*asBehaviour, seed int64, each func(i int, b *asBehaviour, run *asRun)) {
	sem := make(chan struct{}, 12)
	var wg sync.WaitGroup
	var mu sync.Mutex
	for i, b := range behs {
		wg.Add(1)
		sem <- struct{}{}
		go func(i int, b *asBehaviour) {
			defer wg.Done()
			defer func() { <-sem }()
			sc := b.Scen
			run := runActorScenario(&sc, b.Steps, seed+int64(i), nil)
			mu.Lock()
			each(i, b, run)
			mu.Unlock()
		}(i, b)
	}
	wg.Wait()
}

func init() {
	subcommands["debug-as"] = func(args []string) int {
		cfg := args[0]
		num := 20
		if len(args) > 1 {
			fmt.Sscan(args[1], &num)
		}
		sc, _ := tlc.NewScratch()
		defer sc.Close()
		dir := sc.Sub("as")
		_ = tlc.CopySpecs(filepath.Join(core.VerifDir(), "specs", "actorsys"), dir)
		behs, _, err := asGenerate(dir, cfg, num, 1, 5*time.Minute)
		if err != nil {
			fmt.Println("gen error:", err)
			return 2
		}
		steps, conf, mis, drift := 0, 0, 0, 0
		shown := 0
		asReplayAll(behs, 1, func(i int, b *asBehaviour, run *asRun) {
			steps += run.Steps
			conf += run.Conform
			mis += run.Mismatch
			drift += run.Drift
			if run.Stuck != "" {
				fmt.Println("STUCK", i, run.Stuck)
			}
			if (run.FirstMismatch != "" || run.Drift > 0) && shown < 3 {
				shown++
				fmt.Println("behaviour", i, "cfg", b.Scen.Cfg, "first mismatch:", run.FirstMismatch, "drift", run.Drift)
				for k, st := range b.Steps {
					fmt.Printf("   %d %s %s %s %v\n", k+1, st.A, st.X, st.Op, st.Poison)
				}
				if os.Getenv("VERIF_DEBUG") != "" {
					for _, e := range run.Events {
						bb, _ := json.Marshal(e)
						fmt.Println("      ", string(bb))
					}
				}
			}
		})
		fmt.Printf("behaviours=%d steps=%d conform=%d mismatch=%d drift=%d\n", len(behs), steps, conf, mis, drift)
		return 0
	}
}
