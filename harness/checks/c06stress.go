package checks

import (
	"context"
	"errors"
	"fmt"
	"time"

	"github.com/kercylan98/vivid"
	"github.com/kercylan98/vivid/internal/actor"
	"github.com/kercylan98/vivid/internal/verifhook"
)

// Ungated part of C06: a parent re-spawns its child under the same name as soon as it is told that the child has
// terminated.  "Once terminated its path is released": the re-spawn must never collide with the dead child.
func runRespawnStress(rounds int) ([]*Trace, error) {
	verifhook.Set(nil)
	sys := actor.NewSystem(vivid.WithActorSystemContext(context.Background()), vivid.WithActorSystemLogger(silentLogger), vivid.WithActorSystemStopTimeout(2*time.Second))
	if err := sys.Start(); err != nil {
		return nil, err
	}
	defer func() { go sys.Stop(2 * time.Second) }()
	collisions, done := 0, make(chan struct{})
	var firstErr error
	n := 0
	child := func() vivid.Actor { return vivid.ActorFN(func(ctx vivid.ActorContext) {}) }
	if _, err := sys.ActorOf(vivid.ActorFN(func(ctx vivid.ActorContext) {
		spawn := func() {
			ref, err := ctx.ActorOf(child(), vivid.WithActorName("c"))
			if err != nil {
				if errors.Is(err, vivid.ErrorActorAlreadyExists) {
					collisions++
				} else if firstErr == nil {
					firstErr = err
				}
				close(done)
				return
			}
			ctx.Kill(ref, n%2 == 0, "respawn stress")
		}
		switch m := ctx.Message().(type) {
		case *vivid.OnLaunch:
			spawn()
		case *vivid.OnKilled:
			if m.Ref.Equals(ctx.Ref()) {
				return
			}
			n++
			if n >= rounds {
				close(done)
				return
			}
			spawn()
		}
	}), vivid.WithActorName("p")); err != nil {
		return nil, err
	}
	select {
	case <-done:
	case <-time.After(60 * time.Second):
		return nil, fmt.Errorf("respawn stress did not finish (%d rounds done)", n)
	}
	if firstErr != nil {
		return nil, firstErr
	}
	ev := []map[string]any{{"e": "Spawn", "a": "c", "p": "p"}, {"e": "EvKilled", "a": "c"}, {"e": "Find", "a": "c", "v": b2i(collisions > 0)}}
	return []*Trace{{Events: ev, Class: "respawn-on-termination-stress", Name: fmt.Sprintf("respawn stress (%d rounds, first collision in round %d)", rounds, n),
		Scenario: map[string]any{"rounds": rounds, "what": "the parent spawns child 'c' again as soon as it receives OnKilled for the previous 'c' (no gate)"}}}, nil
}
