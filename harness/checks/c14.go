package checks

import (
	"bufio"
	"context"
	"encoding/binary"
	"encoding/json"
	"fmt"
	"io"
	"math/rand"
	"net"
	"os"
	"path/filepath"
	"strings"
	"sync"
	"sync/atomic"
	"syscall"
	"time"

	"github.com/kercylan98/vivid"
	"github.com/kercylan98/vivid/internal/actor"
	"github.com/kercylan98/vivid/internal/mailbox"
	"github.com/kercylan98/vivid/internal/messages"
	"github.com/kercylan98/vivid/internal/remoting"
	"github.com/kercylan98/vivid/internal/remoting/serialize"
	"github.com/kercylan98/vivid/pkg/ves"
	"github.com/kercylan98/vivid/verifharness/core"
	"github.com/kercylan98/vivid/verifharness/tlc"
)

func init() { register("C14", checkC14) }

// runBrokenStream replays a Framing behaviour that ends with a connection reset ("x" step), or a stream
// that contains bad frames (kinds per frame: "ok", "garbage" = valid length but undecodable body,
// "oversize" = length prefix above the 4 MiB limit followed by a few bytes).
func runBrokenStream(b *framingBehaviour, kinds []string, seed int64) ([]map[string]any, error) {
	ensureRmsg()
	rng := rand.New(rand.NewSource(seed))
	rec := &recvRecorder{}
	sys := actor.NewSystem(vivid.WithActorSystemContext(context.Background()), vivid.WithActorSystemLogger(silentLogger), vivid.WithActorSystemStopTimeout(2*time.Second))
	if err := sys.Start(); err != nil {
		return nil, err
	}
	defer func() { go sys.Stop(time.Second) }()
	recvRef, err := sys.ActorOf(vivid.ActorFN(func(ctx vivid.ActorContext) {
		if m, ok := ctx.Message().(*rmsg); ok {
			rec.ev(map[string]any{"e": "Recv", "src": "S", "dst": "R", "m": int(m.ID), "v": b2i(m.intact())})
			rec.count.Add(1)
		}
	}), vivid.WithActorName("recv"))
	if err != nil {
		return nil, err
	}
	sender, _ := sys.CreateRef("10.1.1.1:7000", "/sender")
	hs, err := remoting.VerifHandshakeBytes("10.1.1.1:7000")
	if err != nil {
		return nil, err
	}
	conn := newScriptConn(hs)
	connActor, err := remoting.VerifNewAcceptedConnection(conn, "10.1.1.1:7000", nil, sys)
	if err != nil {
		// the handshake bytes are valid: a refusal is the receiving side's answer, judged by the monitor
		return []map[string]any{{"e": "Accept", "v": 0, "k": err.Error()}, {"e": "End", "k": "faulty"}}, nil
	}
	if _, err := sys.ActorOf(connActor, vivid.WithActorName("conn")); err != nil {
		return nil, err
	}
	expect := 0
	frames := make([][]byte, len(b.Sizes))
	for i, sz := range b.Sizes {
		kind := "ok"
		if i < len(kinds) {
			kind = kinds[i]
		}
		switch kind {
		case "garbage":
			f := make([]byte, 4+sz)
			binary.BigEndian.PutUint32(f, uint32(sz))
			for k := 4; k < len(f); k++ {
				f[k] = byte(rng.Intn(256))
			}
			frames[i] = f
		case "oversize":
			f := make([]byte, 4+sz)
			binary.BigEndian.PutUint32(f, uint32(5*1024*1024+rng.Intn(1000)))
			for k := 4; k < len(f); k++ {
				f[k] = byte(rng.Intn(256))
			}
			frames[i] = f
		case "zero-then-ok":
			fallthrough
		default:
			f, err := frameFor(uint32(i+1), sz, sender, recvRef, rng)
			if err != nil {
				return nil, err
			}
			frames[i] = f
		}
	}
	strict := true
	written := map[int]bool{}
	for _, st := range b.Steps {
		switch st.Op {
		case "w":
			if kinds == nil || kinds[st.At-1] == "ok" {
				rec.ev(map[string]any{"e": "Sent", "src": "S", "dst": "R", "m": st.At, "k": "tell"})
				expect++
			}
			written[st.At] = true
			conn.write(frames[st.At-1])
		case "r":
			conn.allow(st.At)
			conn.waitIdle(200 * time.Millisecond)
		case "x":
			conn.mu.Lock()
			conn.eofAt = st.At
			conn.cond.Broadcast()
			conn.mu.Unlock()
			strict = false
		}
	}
	if strict {
		// no reset in this behaviour: write what is left and let everything be read
		for i := range frames {
			if !written[i+1] {
				if kinds == nil || kinds[i] == "ok" {
					rec.ev(map[string]any{"e": "Sent", "src": "S", "dst": "R", "m": i + 1, "k": "tell"})
					expect++
				}
				conn.write(frames[i])
			}
		}
	}
	conn.allow(1 << 30)
	deadline := time.Now().Add(300 * time.Millisecond)
	for time.Now().Before(deadline) && int(rec.count.Load()) < expect {
		time.Sleep(100 * time.Microsecond)
	}
	time.Sleep(time.Millisecond)
	kind := "faulty"
	if strict && kinds != nil {
		oversize := false
		for _, k := range kinds {
			if k == "oversize" {
				oversize = true
			}
		}
		if !oversize {
			kind = "healthy" // undecodable frames must not stop the later ones
		}
	}
	rec.ev(map[string]any{"e": "End", "k": kind})
	_ = conn.Close()
	return rec.events, nil
}

// runUnreachable: a sending actor tells n messages to a peer address where nobody listens.
func runUnreachable(n, limit int, seed int64) ([]map[string]any, int64, error) {
	ensureRmsg()
	rng := rand.New(rand.NewSource(seed))
	rec := &recvRecorder{}
	port := freePort()
	addr := fmt.Sprintf("127.0.0.1:%d", port)
	deadPort := freePort()
	sys := actor.NewSystem(vivid.WithActorSystemContext(context.Background()), vivid.WithActorSystemLogger(silentLogger),
		vivid.WithActorSystemStopTimeout(3*time.Second), vivid.WithActorSystemRemoting(addr), vivid.WithActorSystemRemotingOption(vivid.WithActorSystemRemotingReconnectLimit(limit)))
	if err := sys.Start(); err != nil {
		return nil, 0, err
	}
	defer func() { go sys.Stop(2 * time.Second) }()
	if _, err := sys.ActorOf(vivid.ActorFN(func(ctx vivid.ActorContext) {
		switch m := ctx.Message().(type) {
		case *vivid.OnLaunch:
			ctx.EventStream().Subscribe(ctx, ves.DeathLetterEvent{})
		case ves.DeathLetterEvent:
			if r, ok := m.Envelope.Message().(*rmsg); ok {
				rec.ev(map[string]any{"e": "DLocal", "m": int(r.ID)})
				rec.count.Add(1)
			}
			// a system message that could not be written either (the Watch below) is reported the same way
			if _, ok := m.Envelope.Message().(*messages.WatchMessage); ok && m.Envelope.Receiver() != nil && m.Envelope.Receiver().GetPath() == "/nobody" {
				rec.ev(map[string]any{"e": "DLocal", "m": 9001})
				rec.count.Add(1)
			}
		}
	}), vivid.WithActorName("dl-observer")); err != nil {
		return nil, 0, err
	}
	target, _ := sys.CreateRef(fmt.Sprintf("127.0.0.1:%d", deadPort), "/nobody")
	var maxTell atomic.Int64
	var probeLatency atomic.Int64
	done := make(chan struct{})
	senderRef, err := sys.ActorOf(vivid.ActorFN(func(ctx vivid.ActorContext) {
		switch m := ctx.Message().(type) {
		case string:
			if m == "go" {
				for k := 1; k <= n; k++ {
					rec.ev(map[string]any{"e": "Sent", "src": "/snd", "dst": "/nobody", "m": k, "k": "tell"})
					t0 := time.Now()
					ctx.Tell(target, newRmsg(uint32(k), "tell", 10, rng))
					if d := time.Since(t0).Microseconds(); d > maxTell.Load() {
						maxTell.Store(d)
					}
				}
				// one system message to the same unreachable peer
				rec.ev(map[string]any{"e": "Sent", "src": "/snd", "dst": "/nobody", "m": 9001, "k": "tell"})
				ctx.Watch(target)
			}
		case time.Time:
			probeLatency.Store(time.Since(m).Microseconds())
			close(done)
		}
	}), vivid.WithActorName("snd"))
	if err != nil {
		return nil, 0, err
	}
	time.Sleep(20 * time.Millisecond)
	sys.Tell(senderRef, "go")
	time.Sleep(5 * time.Millisecond)
	sys.Tell(senderRef, time.Now()) // a local probe: the sending actor should keep processing its mailbox
	select {
	case <-done:
	case <-time.After(10 * time.Second):
	}
	deadline := time.Now().Add(2 * time.Second)
	for time.Now().Before(deadline) && int(rec.count.Load()) < n+1 {
		time.Sleep(time.Millisecond)
	}
	time.Sleep(10 * time.Millisecond)
	rec.ev(map[string]any{"e": "TellLatency", "m": int(maxTell.Load()), "n": int(probeLatency.Load())})
	rec.ev(map[string]any{"e": "End", "k": "faulty-strict"})
	return rec.events, maxTell.Load(), nil
}

// runResettingPeer: the peer accepts every connection, answers the handshake and resets the connection at once, for
// ever.  No frame can be written; after ReconnectLimit further attempts each message must be reported as a dead letter,
// and the number of connections the sender opens is bounded by messages x (limit + 1).
func runResettingPeer(n, limit int, seed int64) ([]map[string]any, error) {
	ensureRmsg()
	rng := rand.New(rand.NewSource(seed))
	rec := &recvRecorder{}
	addr := fmt.Sprintf("127.0.0.1:%d", freePort())
	peerAddr := fmt.Sprintf("127.0.0.1:%d", freePort())
	peer := &fakePeer{addr: peerAddr, rec: rec, resetAfterHandshake: true}
	if err := peer.up(); err != nil {
		return nil, err
	}
	defer peer.down()
	sys := actor.NewSystem(vivid.WithActorSystemContext(context.Background()), vivid.WithActorSystemLogger(silentLogger),
		vivid.WithActorSystemStopTimeout(3*time.Second), vivid.WithActorSystemRemoting(addr), vivid.WithActorSystemRemotingOption(vivid.WithActorSystemRemotingReconnectLimit(limit)))
	if err := sys.Start(); err != nil {
		return nil, err
	}
	defer func() { go sys.Stop(2 * time.Second) }()
	if _, err := sys.ActorOf(vivid.ActorFN(func(ctx vivid.ActorContext) {
		switch m := ctx.Message().(type) {
		case *vivid.OnLaunch:
			ctx.EventStream().Subscribe(ctx, ves.DeathLetterEvent{})
		case ves.DeathLetterEvent:
			if r, ok := m.Envelope.Message().(*rmsg); ok {
				rec.ev(map[string]any{"e": "DLocal", "m": int(r.ID)})
				rec.count.Add(1)
			}
		}
	}), vivid.WithActorName("dl-observer")); err != nil {
		return nil, err
	}
	target, _ := sys.CreateRef(peerAddr, "/nobody")
	senderRef, err := sys.ActorOf(vivid.ActorFN(func(ctx vivid.ActorContext) {
		if m, ok := ctx.Message().(string); ok && m == "go" {
			for k := 1; k <= n; k++ {
				rec.ev(map[string]any{"e": "Sent", "src": "/snd", "dst": "/nobody", "m": k, "k": "tell"})
				ctx.Tell(target, newRmsg(uint32(k), "tell", 10, rng))
			}
		}
	}), vivid.WithActorName("snd"))
	if err != nil {
		return nil, err
	}
	time.Sleep(20 * time.Millisecond)
	sys.Tell(senderRef, "go")
	// back-off 100 ms, 200 ms, ...: limit 2 needs about 0.3 s per message
	deadline := time.Now().Add(time.Duration(n)*time.Duration(limit+1)*400*time.Millisecond + 2*time.Second)
	for time.Now().Before(deadline) && int(rec.count.Load()) < n {
		time.Sleep(time.Millisecond)
	}
	time.Sleep(150 * time.Millisecond) // a sender that keeps dialling shows up here
	peer.mu.Lock()
	acc := peer.accepted
	peer.mu.Unlock()
	rec.ev(map[string]any{"e": "Attempts", "m": acc, "n": n * (limit + 1)})
	rec.ev(map[string]any{"e": "End", "k": "faulty-strict"})
	return rec.events, nil
}

// fakePeer is a TCP endpoint speaking the remoting handshake and framing, fully controlled by the scenario
// (it stands for a peer process: closing it closes its sockets, like a process exit does).
type fakePeer struct {
	addr  string
	rec   *recvRecorder
	mu    sync.Mutex
	ln    net.Listener
	conns []net.Conn
	// cutFirstAfter > 0: the first connection is reset after that many bytes of frame data have been read
	// (the listener then has a tiny receive buffer, so that the sender's write cannot complete)
	cutFirstAfter int
	// resetAfterHandshake: every connection is reset as soon as the handshake has been answered (a peer in a crash loop)
	resetAfterHandshake bool
	accepted            int
	firstGot            int
}

func (p *fakePeer) up() error {
	lc := net.ListenConfig{}
	if p.cutFirstAfter > 0 {
		lc.Control = func(network, address string, rc syscall.RawConn) error {
			return rc.Control(func(fd uintptr) { _ = syscall.SetsockoptInt(int(fd), syscall.SOL_SOCKET, syscall.SO_RCVBUF, 4096) })
		}
	}
	ln, err := lc.Listen(context.Background(), "tcp", p.addr)
	if err != nil {
		return err
	}
	p.mu.Lock()
	p.ln = ln
	p.mu.Unlock()
	go func() {
		for {
			conn, err := ln.Accept()
			if err != nil {
				return
			}
			p.mu.Lock()
			p.conns = append(p.conns, conn)
			p.mu.Unlock()
			go p.serve(conn)
		}
	}()
	return nil
}

func (p *fakePeer) down() {
	p.mu.Lock()
	if p.ln != nil {
		_ = p.ln.Close()
	}
	for _, c := range p.conns {
		_ = c.Close()
	}
	p.conns = nil
	p.mu.Unlock()
}

func (p *fakePeer) serve(conn net.Conn) {
	buf := make([]byte, 4096)
	if _, err := conn.Read(buf); err != nil { // the dialler's handshake
		return
	}
	hs, err := remoting.VerifHandshakeBytes(p.addr)
	if err != nil {
		return
	}
	if _, err := conn.Write(hs); err != nil {
		return
	}
	p.mu.Lock()
	p.accepted++
	first := p.accepted == 1
	p.mu.Unlock()
	if p.resetAfterHandshake {
		if tc, ok := conn.(*net.TCPConn); ok {
			_ = tc.SetLinger(0)
		}
		_ = conn.Close()
		return
	}
	r := bufio.NewReader(conn)
	if first && p.cutFirstAfter > 0 {
		// the first small frame is read normally, then only part of the large one, then the connection is reset
		p.readFrame(r)
		n, _ := io.CopyN(io.Discard, r, int64(p.cutFirstAfter))
		p.mu.Lock()
		p.firstGot = int(n)
		p.mu.Unlock()
		if tc, ok := conn.(*net.TCPConn); ok {
			_ = tc.SetLinger(0)
		}
		_ = conn.Close()
		return
	}
	for p.readFrame(r) {
	}
}

// readFrame reads and records one frame; false when the connection is finished.
func (p *fakePeer) readFrame(r *bufio.Reader) bool {
	for {
		var lb [4]byte
		if _, err := io.ReadFull(r, lb[:]); err != nil {
			return false
		}
		n := binary.BigEndian.Uint32(lb[:])
		if n == 0 || n > 8<<20 {
			p.rec.ev(map[string]any{"e": "Recv", "src": "?", "dst": "?", "m": 0, "v": 0}) // not a frame boundary: garbage on the wire
			return false
		}
		body := make([]byte, n)
		if _, err := io.ReadFull(r, body); err != nil {
			return false
		}
		_, _, sp, _, rp, msg, err := serialize.DecodeEnvelopWithRemoting(nil, body)
		if err != nil {
			p.rec.ev(map[string]any{"e": "Recv", "src": "?", "dst": "?", "m": 0, "v": 0})
			return true
		}
		if m, ok := msg.(*rmsg); ok {
			p.rec.ev(map[string]any{"e": "Recv", "src": sp, "dst": rp, "m": int(m.ID), "v": b2i(m.intact())})
		}
		return true
	}
}

// runCutInsideFrame: the peer resets the connection after it has read only part of a large frame; the sender's
// write fails half-way, it reconnects and must send the whole frame again (or report a dead letter).
// conclusive is false when the sender's write was not reported as failed (the kernel took the whole frame).
func runCutInsideFrame(seed int64, size int) (ev []map[string]any, conclusive bool, err error) {
	ensureRmsg()
	rng := rand.New(rand.NewSource(seed))
	rec := &recvRecorder{}
	a, _, err := startRemotingSystemWith(vivid.WithActorSystemRemotingReconnectLimit(3))
	if err != nil {
		return nil, false, err
	}
	defer func() { go a.Stop(2 * time.Second) }()
	peer := &fakePeer{addr: fmt.Sprintf("127.0.0.1:%d", freePort()), rec: rec, cutFirstAfter: 50000 + rng.Intn(150000)}
	if err := peer.up(); err != nil {
		return nil, false, err
	}
	defer peer.down()
	var sendFailed atomic.Int64
	if _, err := a.ActorOf(vivid.ActorFN(func(ctx vivid.ActorContext) {
		switch m := ctx.Message().(type) {
		case *vivid.OnLaunch:
			ctx.EventStream().Subscribe(ctx, ves.DeathLetterEvent{})
			ctx.EventStream().Subscribe(ctx, ves.RemotingMessageSendFailedEvent{})
		case ves.RemotingMessageSendFailedEvent:
			sendFailed.Add(1)
		case ves.DeathLetterEvent:
			if r, ok := m.Envelope.Message().(*rmsg); ok {
				rec.ev(map[string]any{"e": "DLocal", "m": int(r.ID)})
			}
		}
	}), vivid.WithActorName("dl-observer")); err != nil {
		return nil, false, err
	}
	toB, _ := a.CreateRef(peer.addr, "/recvB")
	started := make(chan vivid.ActorContext, 1)
	if _, err := a.ActorOf(vivid.ActorFN(func(ctx vivid.ActorContext) {
		if _, ok := ctx.Message().(*vivid.OnLaunch); ok {
			started <- ctx
		}
	}), vivid.WithActorName("snd")); err != nil {
		return nil, false, err
	}
	sctx := <-started
	done := make(chan struct{})
	go func() {
		defer close(done)
		for id, sz := range []int{64, size, 80, 96} {
			rec.ev(map[string]any{"e": "Sent", "src": "/snd", "dst": "/recvB", "m": id + 1, "k": "tell"})
			sctx.Tell(toB, newRmsg(uint32(id+1), "tell", sz, rng))
		}
	}()
	select {
	case <-done:
	case <-time.After(20 * time.Second):
		return nil, false, fmt.Errorf("the four Tell calls did not return within 20 s")
	}
	// everything that will arrive arrives shortly after the last Tell returned
	waitFor(3*time.Second, func() bool {
		rec.mu.Lock()
		defer rec.mu.Unlock()
		n := 0
		for _, e := range rec.events {
			if e["e"] == "Recv" || e["e"] == "DLocal" {
				n++
			}
		}
		return n >= 4
	})
	time.Sleep(300 * time.Millisecond)
	rec.ev(map[string]any{"e": "End", "k": "faulty-strict"})
	rec.mu.Lock()
	defer rec.mu.Unlock()
	return append([]map[string]any{}, rec.events...), sendFailed.Load() > 0, nil
}

// runPeerRestart: the peer process goes away (its sockets are closed) and comes back on the same address.
func runPeerRestart(seed int64) ([]map[string]any, error) {
	ensureRmsg()
	rng := rand.New(rand.NewSource(seed))
	rec := &recvRecorder{}
	a, _, err := startRemotingSystemWith(vivid.WithActorSystemRemotingReconnectLimit(1))
	if err != nil {
		return nil, err
	}
	defer func() { go a.Stop(2 * time.Second) }()
	peer := &fakePeer{addr: fmt.Sprintf("127.0.0.1:%d", freePort()), rec: rec}
	if err := peer.up(); err != nil {
		return nil, err
	}
	defer peer.down()
	if _, err := a.ActorOf(vivid.ActorFN(func(ctx vivid.ActorContext) {
		switch m := ctx.Message().(type) {
		case *vivid.OnLaunch:
			ctx.EventStream().Subscribe(ctx, ves.DeathLetterEvent{})
		case ves.DeathLetterEvent:
			if r, ok := m.Envelope.Message().(*rmsg); ok {
				rec.ev(map[string]any{"e": "DLocal", "m": int(r.ID)})
			}
		}
	}), vivid.WithActorName("dl-observer")); err != nil {
		return nil, err
	}
	toB, _ := a.CreateRef(peer.addr, "/recvB")
	started := make(chan vivid.ActorContext, 1)
	if _, err := a.ActorOf(vivid.ActorFN(func(ctx vivid.ActorContext) {
		if _, ok := ctx.Message().(*vivid.OnLaunch); ok {
			started <- ctx
		}
	}), vivid.WithActorName("snd")); err != nil {
		return nil, err
	}
	sctx := <-started
	id := 0
	send := func(k int, gap time.Duration) {
		for i := 0; i < k; i++ {
			id++
			rec.ev(map[string]any{"e": "Sent", "src": "/snd", "dst": "/recvB", "m": id, "k": "tell"})
			sctx.Tell(toB, newRmsg(uint32(id), "tell", 20+rng.Intn(200), rng))
			time.Sleep(gap)
		}
	}
	send(10, time.Millisecond)
	time.Sleep(50 * time.Millisecond)
	peer.down()
	time.Sleep(30 * time.Millisecond)
	send(3, 5*time.Millisecond) // while the peer is down
	if err := peer.up(); err != nil {
		return nil, err
	}
	time.Sleep(50 * time.Millisecond)
	send(4, 60*time.Millisecond) // the sender finds out that its old connection is dead
	time.Sleep(400 * time.Millisecond)
	rec.ev(map[string]any{"e": "End", "k": "faulty"})
	// from here on the link is healthy again: everything must arrive
	rec.ev(map[string]any{"e": "Reset"})
	send(10, time.Millisecond)
	time.Sleep(400 * time.Millisecond)
	rec.ev(map[string]any{"e": "End", "k": "healthy"})
	rec.mu.Lock()
	defer rec.mu.Unlock()
	return append([]map[string]any{}, rec.events...), nil
}

func startRemotingSystemWith(ro ...vivid.ActorSystemRemotingOption) (*actor.System, string, error) {
	for try := 0; try < 5; try++ {
		port := freePort()
		addr := fmt.Sprintf("127.0.0.1:%d", port)
		sys := actor.NewSystem(vivid.WithActorSystemContext(context.Background()), vivid.WithActorSystemLogger(silentLogger),
			vivid.WithActorSystemStopTimeout(3*time.Second), vivid.WithActorSystemRemoting(addr), vivid.WithActorSystemRemotingOption(ro...))
		if err := sys.Start(); err == nil {
			return sys, addr, nil
		}
	}
	return nil, "", fmt.Errorf("cannot start a system with remoting")
}

func checkC14(c *core.Ctx) {
	ensureRmsg()
	dir, err := c.SpecDir("remoting")
	if err != nil {
		c.Broken("spec dir: %v", err)
		return
	}
	if !os_skipMC() {
		for _, cfg := range []string{"MC_Link.cfg", "MC_Link2.cfg", "MC_Link_flaky.cfg"} {
			r, err := tlc.Exec(tlc.Run{Dir: dir, Module: "Link", Config: cfg, Timeout: 5 * time.Minute})
			if err != nil || r.Violation != "" {
				c.Broken("model checking %s failed: %v %s\n%s", cfg, err, vio(r), tailOf(r))
				return
			}
			c.MC("Link/"+cfg, r)
		}
	}
	if !os_skipMC() {
		// self-test of the liveness property: with "a successful connect resets the attempt counter" a crash-looping peer keeps the sender busy for ever
		if r2, err := tlc.Exec(tlc.Run{Dir: dir, Module: "Link", Config: "MC_Link_flaky_reset.cfg", Timeout: 3 * time.Minute}); err == nil {
			c.Set("link_variant_reset_on_connect_violates", r2.ViolatedName)
		}
	}
	sender, _ := actor.NewRef("10.1.1.1:7000", "/sender")
	recv, _ := actor.NewRef("localhost", "/recv")
	base, err := remoting.VerifEncodeFrame(nil, mailbox.NewEnvelop(false, sender, recv, newRmsg(1, "tell", 0, rand.New(rand.NewSource(1)))))
	if err != nil {
		c.Broken("cannot encode a frame: %v", err)
		return
	}
	l0 := len(base) - 4
	mod := fmt.Sprintf("----------------------------- MODULE MC_FramingRT -----------------------------\nEXTENDS MC_Framing\nRT_X == <<%d, %d, %d>>\nRT_Cuts == {0, 1, 2, 3, 4, 5, %d, %d, %d}\n=============================================================================\n", l0+2, l0, l0+9, l0/2, l0+3, l0+4)
	_ = os.WriteFile(filepath.Join(dir, "MC_FramingRT.tla"), []byte(mod), 0o644)
	_ = os.WriteFile(filepath.Join(dir, "MC_RT_X.cfg"), []byte("SPECIFICATION Spec\nCONSTANTS\n  Sizes <- RT_X\n  Cuts <- RT_Cuts\n  PersistentReader = TRUE\n  BreakAllowed = TRUE\nVIEW View\nINVARIANTS NothingLost InOrderOnce CompleteFramesOnly\nPROPERTY AllDelivered\nCHECK_DEADLOCK FALSE\n"), 0o644)
	_ = os.WriteFile(filepath.Join(dir, "Gen_RT_X.cfg"), []byte("INIT Init\nNEXT Next\nCONSTANTS\n  Sizes <- RT_X\n  Cuts <- RT_Cuts\n  PersistentReader = TRUE\n  BreakAllowed = TRUE\nINVARIANT Emit\nCHECK_DEADLOCK FALSE\n"), 0o644)
	if !os_skipMC() {
		r, err := tlc.Exec(tlc.Run{Dir: dir, Module: "MC_FramingRT", Config: "MC_RT_X.cfg", Timeout: 10 * time.Minute})
		if err != nil || r.Violation != "" {
			c.Broken("model checking Framing with resets failed: %v %s\n%s", err, vio(r), tailOf(r))
			return
		}
		c.MC("MC_Framing/resets", r)
	}
	var behs []*framingBehaviour
	var perr error
	r, err := tlc.Exec(tlc.Run{Dir: dir, Module: "MC_FramingRT", Config: "Gen_RT_X.cfg", Workers: 1, Timeout: 10 * time.Minute,
		Args: []string{"-simulate", fmt.Sprintf("num=%d", core.Pick(c, 300, 4000)), "-depth", "200", "-seed", fmt.Sprint(c.Seed)},
		OnLine: func(s string) {
			if !strings.HasPrefix(s, "BEHAV ") {
				return
			}
			b := &framingBehaviour{}
			if err := json.Unmarshal([]byte(s[6:]), b); err != nil {
				perr = err
				return
			}
			behs = append(behs, b)
		}})
	if err != nil || perr != nil || r.Violation != "" {
		c.Broken("behaviour generation (resets): %v %v %s\n%s", err, perr, vio(r), tailOf(r))
		return
	}
	c.Add("tlc_behaviours_generated", int64(len(behs)))
	var traces []*Trace
	var mu sync.Mutex
	var wg sync.WaitGroup
	sem := make(chan struct{}, 12)
	nontrivial := 0
	add := func(name, class string, scen any, ev []map[string]any, err error) {
		mu.Lock()
		defer mu.Unlock()
		if err != nil {
			c.Broken("%s: %v", name, err)
			return
		}
		c.Add("evaluations", 1)
		nontrivial++
		traces = append(traces, &Trace{Events: ev, Class: class, Name: name, Scenario: scen})
	}
	for bi, b := range behs {
		wg.Add(1)
		sem <- struct{}{}
		go func(bi int, b *framingBehaviour) {
			defer wg.Done()
			defer func() { <-sem }()
			ev, err := runBrokenStream(b, nil, c.Seed+int64(bi))
			add(fmt.Sprintf("reset#%d", bi), "reset", b, ev, err)
		}(bi, b)
	}
	// bad frames in an otherwise healthy stream
	rng := rand.New(rand.NewSource(c.Seed))
	for i := 0; i < core.Pick(c, 60, 600); i++ {
		n := 3 + rng.Intn(4)
		b := &framingBehaviour{}
		kinds := make([]string, n)
		bad := []string{"garbage", "garbage", "oversize"}[rng.Intn(3)]
		badAt := rng.Intn(n - 1)
		for k := 0; k < n; k++ {
			kinds[k] = "ok"
			b.Sizes = append(b.Sizes, l0+rng.Intn(300))
			if k == badAt {
				kinds[k] = bad
				b.Sizes[k] = []int{0, 1, 7, 40, 200}[rng.Intn(5)]
				if bad == "garbage" && b.Sizes[k] == 0 {
					b.Sizes[k] = 3 // a zero length is the close handshake, not a frame
				}
			}
			b.Steps = append(b.Steps, framingStep{Op: "w", At: k + 1})
		}
		b.Steps = append(b.Steps, framingStep{Op: "r", At: 1 << 29})
		wg.Add(1)
		sem <- struct{}{}
		go func(i int, b *framingBehaviour, kinds []string) {
			defer wg.Done()
			defer func() { <-sem }()
			ev, err := runBrokenStream(b, kinds, c.Seed*31+int64(i))
			cls := "bad-frame-garbage"
			for _, k := range kinds {
				if k == "oversize" {
					cls = "bad-frame-oversize"
				}
			}
			add(fmt.Sprintf("badframe#%d", i), cls, map[string]any{"behaviour": b, "kinds": kinds}, ev, err)
		}(i, b, kinds)
	}
	wg.Wait()
	if c.IsBroken() {
		return
	}
	// the sending side against an unreachable peer and a restarting peer (real time: few scenarios)
	for i, limit := range core.Pick(c, []int{0, 1}, []int{0, 1, 2, 0, 1}) {
		ev, _, err := runUnreachable(3, limit, c.Seed+int64(i))
		add(fmt.Sprintf("unreachable-limit%d#%d", limit, i), "tell_unreachable_peer", map[string]any{"messages": 3, "reconnect_limit": limit}, ev, err)
	}
	for i, limit := range core.Pick(c, []int{1, 2}, []int{0, 1, 2, 3, 1, 2}) {
		n := 1 + i%2
		ev, err := runResettingPeer(n, limit, c.Seed+int64(i))
		add(fmt.Sprintf("resetting-peer-limit%d#%d", limit, i), "peer_resets_after_handshake", map[string]any{"messages": n, "reconnect_limit": limit}, ev, err)
	}
	inconclusive := 0
	for i := 0; i < core.Pick(c, 2, 6); i++ {
		size := []int{3500000, 2000000, 3900000}[i%3]
		ev, conclusive, err := runCutInsideFrame(c.Seed+int64(i), size)
		if err == nil && !conclusive {
			inconclusive++ // the kernel accepted the whole frame before the reset: a tolerated loss, nothing to judge
			continue
		}
		add(fmt.Sprintf("cut-inside-frame#%d", i), "cut_inside_large_frame", map[string]any{"seed": c.Seed + int64(i), "frame_bytes": size}, ev, err)
	}
	c.Set("cut_inside_frame_runs_inconclusive", inconclusive)
	for i := 0; i < core.Pick(c, 2, 10); i++ {
		ev, err := runPeerRestart(c.Seed + int64(i))
		add(fmt.Sprintf("peer-restart#%d", i), "peer_restart", map[string]any{"seed": c.Seed + int64(i)}, ev, err)
	}
	if c.IsBroken() {
		return
	}
	res := ValidateTraces(c, "remoting", "FaultMon", "FaultMon.cfg", traces, deliveryDefaults)
	res.Report(c, "FaultMon")
	c.Add("traces_validated_against_impl", int64(res.Validated))
	c.Set("distinct_nontrivial", nontrivial)
	c.Set("rule", "receiver: TLC-simulated behaviours of Framing.tla with a connection reset after an arbitrary number of bytes (inside a length prefix, inside a body, at a boundary) replayed on the real connection actor over a scripted net.Conn; streams with an undecodable or an over-long frame among valid ones; sender: a real system telling to an address where nobody listens (ReconnectLimit 0..2) with a dead-letter observer, Tell latency and a local probe; a peer that answers the handshake and resets every connection (bounded attempts, dead letters); a peer system that stops and comes back on the same address. Judged by FaultMon. Every scenario contains a fault.")
	if len(traces) > 0 {
		c.Sample(map[string]any{"name": traces[0].Name, "events": head(traces[0].Events, 20)})
		c.Sample(map[string]any{"name": traces[len(traces)-1].Name, "events": head(traces[len(traces)-1].Events, 30)})
	}
	c.Assume("the byte at which a kernel write fails is not controllable: for sender-side faults only what the peer actually received and what the sender reported are judged (a message accepted by the kernel and lost with the connection is tolerated)")
	c.Assume("TellReturnsPromptly uses real time: a Tell is prompt when it returns within 50 ms and the sending actor handles a local probe within 100 ms")
}

var _ = net.Dial
