package checks

import (
	"context"
	"errors"
	"fmt"
	"math/rand"
	"strings"
	"sync"
	"sync/atomic"
	"time"

	"github.com/kercylan98/vivid"
	"github.com/kercylan98/vivid/internal/actor"
	"github.com/kercylan98/vivid/internal/verifhook"
)

// C04, the asker's side of the registry (specs/future/Registry.tla): one asker makes several Asks with time-outs from a
// nanosecond to seconds (the timer of a tiny one fires before or while the future is registered), some are answered,
// and then the asker ends by one of the ways an actor can end - immediate kill, poison kill, failure with decision
// Stop, failure with decision Restart that is turned into a termination by a kill arriving while the restart waits for
// a slow child, termination of the parent.  Ungated: real goroutines, real timers.  Judged by AskLifeMon.

type lifeGo struct{ Asks []lifeAsk }
type lifeAsk struct {
	ID      int
	Timeout time.Duration
	Reply   bool
}
type lifeReq struct {
	ID    int
	Reply bool
}
type lifeRep struct{ ID int }
type lifeFail struct{}

var lifeRoutes = []string{"kill", "pkill", "fail-stop", "restart-kill", "parent-kill", "restart-then-kill"}

func runAskerLife(seed int64, round int) (*Trace, error) {
	rng := rand.New(rand.NewSource(seed*7919 + int64(round)))
	route := lifeRoutes[round%len(lifeRoutes)]
	t0 := time.Now()
	us := func() int { return int(time.Since(t0).Microseconds()) }
	var mu sync.Mutex
	var events []map[string]any
	ev := func(e map[string]any) {
		mu.Lock()
		e["t"] = us()
		events = append(events, e)
		mu.Unlock()
	}
	// a pause between the creation of a future and its registration: the window in which a tiny timer fires
	var askerCtx atomic.Pointer[vivid.ActorContext]
	delayUS := []int{0, 0, 30, 120}[rng.Intn(4)]
	verifhook.Set(func(point string, obj, arg any) {
		if point == "ctx.ask.register" && delayUS > 0 {
			if p := askerCtx.Load(); p != nil && any(*p) == obj {
				time.Sleep(time.Duration(delayUS) * time.Microsecond)
			}
		}
	})
	defer verifhook.Set(nil)
	sys := actor.NewSystem(vivid.WithActorSystemContext(context.Background()), vivid.WithActorSystemLogger(silentLogger), vivid.WithActorSystemStopTimeout(2*time.Second))
	if err := sys.Start(); err != nil {
		return nil, err
	}
	defer func() { go sys.Stop(2 * time.Second) }()

	target, err := sys.ActorOf(vivid.ActorFN(func(ctx vivid.ActorContext) {
		if m, ok := ctx.Message().(lifeReq); ok {
			ev(map[string]any{"e": "Req", "m": m.ID})
			if m.Reply {
				ctx.Reply(lifeRep{ID: m.ID})
			}
		}
	}), vivid.WithActorName("target"))
	if err != nil {
		return nil, err
	}
	var wg sync.WaitGroup
	var done sync.Map // id -> true once some waiter has its result
	asked := make(chan struct{}, 4)
	dead := make(chan struct{}, 4)
	slowChild := route == "restart-kill"
	childKill := make(chan struct{}, 4)
	var launches atomic.Int32
	askInKill := rng.Intn(3) == 0
	var extraMu sync.Mutex
	var extra []lifeAsk
	var issue func(ctx vivid.ActorContext, a lifeAsk)
	askerBehaviour := func(ctx vivid.ActorContext) {
		switch m := ctx.Message().(type) {
		case *vivid.OnLaunch:
			askerCtx.Store(&ctx)
			if launches.Add(1) == 1 && slowChild {
				_, _ = ctx.ActorOf(vivid.ActorFN(func(cctx vivid.ActorContext) {
					if _, ok := cctx.Message().(*vivid.OnKill); ok {
						childKill <- struct{}{}
						time.Sleep(40 * time.Millisecond) // the restart of the parent waits for this child
					}
				}), vivid.WithActorName("slow"))
			}
		case *vivid.OnKill:
			// an Ask made while the asker is already being stopped or restarted (flushing state on the way out)
			if askInKill {
				extraMu.Lock()
				a := lifeAsk{ID: 100 + len(extra), Timeout: 4 * time.Second, Reply: len(extra)%2 == 0}
				extra = append(extra, a)
				extraMu.Unlock()
				issue(ctx, a)
			}
		case lifeGo:
			for _, a := range m.Asks {
				issue(ctx, a)
			}
			asked <- struct{}{}
		case lifeFail:
			ctx.Failed("scripted failure of the asker")
		}
	}
	issue = func(ctx vivid.ActorContext, a lifeAsk) {
		{
			{
				ev(map[string]any{"e": "Ask", "m": a.ID, "n": int(a.Timeout / time.Microsecond)})
				start := time.Now()
				f := ctx.Ask(target, lifeReq{ID: a.ID, Reply: a.Reply}, a.Timeout)
				for _, w := range []string{"w1", "w2"} {
					w := w
					wg.Add(1)
					go func() {
						defer wg.Done()
						r, err := f.Result()
						el := int(time.Since(start) / time.Microsecond)
						out := ""
						switch {
						case err != nil && errors.Is(err, vivid.ErrorFutureTimeout):
							out = "timer"
						case err != nil && errors.Is(err, vivid.ErrorActorDeaded):
							out = "death"
						case err != nil:
							out = "err:" + err.Error()
						default:
							if rep, ok := r.(lifeRep); ok && rep.ID == a.ID {
								out = "own"
							} else {
								out = fmt.Sprintf("foreign:%v", r)
							}
						}
						done.Store(a.ID, true)
						ev(map[string]any{"e": "Done", "m": a.ID, "s": out, "v": el, "a": w})
					}()
				}
			}
		}
	}
	decision := vivid.SupervisionDecisionStop
	if strings.HasPrefix(route, "restart") {
		decision = vivid.SupervisionDecisionRestart
	}
	maker := vivid.SupervisionStrategyDecisionMakerFN(func(sctx vivid.SupervisionContext) (vivid.SupervisionDecision, string) {
		return decision, "scripted"
	})
	var asker vivid.ActorRef
	spawned := make(chan error, 1)
	parent, err := sys.ActorOf(vivid.ActorFN(func(ctx vivid.ActorContext) {
		switch m := ctx.Message().(type) {
		case *vivid.OnLaunch:
			r, err := ctx.ActorOf(vivid.ActorFN(askerBehaviour), vivid.WithActorName("asker"))
			asker = r
			spawned <- err
		case *vivid.OnKilled:
			// the parent is told of the asker's termination (not of a restart)
			if asker != nil && m.Ref.Equals(asker) {
				dead <- struct{}{}
			}
		}
	}), vivid.WithActorName("parent"), vivid.WithActorSupervisionStrategy(vivid.OneForOneStrategy(maker)))
	if err != nil {
		return nil, err
	}
	select {
	case err := <-spawned:
		if err != nil {
			return nil, err
		}
	case <-time.After(2 * time.Second):
		return nil, fmt.Errorf("the asker was not spawned")
	}
	// the Asks of this round: at least one long one, tiny ones around it
	// (a time-out of zero or less means "no time-out": such an Ask ends with its reply or with the asker)
	timeouts := []time.Duration{time.Nanosecond, time.Microsecond, 20 * time.Microsecond, 2 * time.Millisecond, 4 * time.Second, 4 * time.Second, 0, -1}
	n := 2 + rng.Intn(4)
	var asks []lifeAsk
	long := rng.Intn(n)
	for i := 0; i < n; i++ {
		a := lifeAsk{ID: i + 1, Timeout: timeouts[rng.Intn(len(timeouts))], Reply: rng.Intn(4) == 0}
		if i == long {
			a.Timeout, a.Reply = 4*time.Second, false
		}
		asks = append(asks, a)
	}
	sys.Tell(asker, lifeGo{Asks: asks})
	select {
	case <-asked:
	case <-time.After(2 * time.Second):
		return nil, fmt.Errorf("the asker did not issue its requests")
	}
	time.Sleep(time.Duration(rng.Intn(3)) * time.Millisecond)
	ev(map[string]any{"e": "Trigger", "s": route})
	switch route {
	case "kill":
		sys.Kill(asker, false, "scenario")
	case "pkill":
		sys.Kill(asker, true, "scenario")
	case "fail-stop":
		sys.Tell(asker, lifeFail{})
	case "restart-kill":
		// the restart waits for the slow child; the kill arrives in that window
		sys.Tell(asker, lifeFail{})
		select {
		case <-childKill:
		case <-time.After(2 * time.Second):
			return nil, fmt.Errorf("the restart did not reach the child")
		}
		sys.Kill(asker, false, "kill during restart")
	case "restart-then-kill":
		sys.Tell(asker, lifeFail{})
		time.Sleep(5 * time.Millisecond)
		sys.Kill(asker, false, "scenario")
	case "parent-kill":
		sys.Kill(parent, rng.Intn(2) == 0, "scenario")
	}
	select {
	case <-dead:
		ev(map[string]any{"e": "AskerDead"})
	case <-time.After(3 * time.Second):
		return nil, fmt.Errorf("route %s: the asker did not terminate", route)
	}
	// everything the dead asker had asked must be complete by now; give the waiters' goroutines time to say so
	allDone := func() bool {
		extraMu.Lock()
		all := append(append([]lifeAsk{}, asks...), extra...)
		extraMu.Unlock()
		for _, a := range all {
			if _, ok := done.Load(a.ID); !ok {
				return false
			}
		}
		return true
	}
	for limit := time.Now().Add(1500 * time.Millisecond); time.Now().Before(limit) && !allDone(); {
		time.Sleep(time.Millisecond)
	}
	time.Sleep(2 * time.Millisecond) // the second waiter of the last future
	extraMu.Lock()
	asks = append(asks, extra...)
	extraMu.Unlock()
	for _, a := range asks {
		if _, ok := done.Load(a.ID); !ok {
			ev(map[string]any{"e": "Pending", "m": a.ID})
		}
	}
	reg, agents := sys.VerifFutureCount()
	ev(map[string]any{"e": "Check", "v": reg + agents})
	mu.Lock()
	out := append([]map[string]any{}, events...)
	mu.Unlock()
	return &Trace{Events: out, Class: "asker-ends-" + route, Name: fmt.Sprintf("life#%d", round),
		Scenario: map[string]any{"route": route, "ask_in_onkill": askInKill, "asks": asks, "register_delay_us": delayUS, "seed": seed, "round": round}}, nil
}
