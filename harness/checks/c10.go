package checks

import (
	"bufio"
	"bytes"
	"context"
	"encoding/json"
	"errors"
	"fmt"
	"math/rand"
	"os"
	"os/exec"
	"path/filepath"
	"regexp"
	"sort"
	"strings"
	"sync"
	"sync/atomic"
	"time"

	"github.com/kercylan98/vivid"
	"github.com/kercylan98/vivid/internal/actor"
	"github.com/kercylan98/vivid/internal/verifhook"
	"github.com/kercylan98/vivid/pkg/ves"
	"github.com/kercylan98/vivid/verifharness/core"
	"github.com/kercylan98/vivid/verifharness/ctl"
	"github.com/kercylan98/vivid/verifharness/tlc"
)

func init() {
	register("C10", checkC10)
	subcommands["c10-stress"] = c10Stress
}

var confineDefaults = map[string]any{"e": "", "o": "", "k": "", "g": 0, "t": "", "L": []any{}, "N": []any{}, "v": 0, "s": ""}

// ---- part A: lockset trace of the children tables ----

type accessRecorder struct {
	mu     sync.Mutex
	locks  map[uint64][]string
	turn   map[uint64]string
	events []map[string]any
}

func (r *accessRecorder) hook(point string, obj any, arg any) {
	g := ctl.GoID()
	switch point {
	case "mb.turn":
		path := ""
		if env, ok := arg.(vivid.Envelop); ok && env.Receiver() != nil {
			path = env.Receiver().GetPath()
		}
		r.mu.Lock()
		r.turn[g] = path
		r.mu.Unlock()
	case "mb.turned":
		r.mu.Lock()
		delete(r.turn, g)
		r.mu.Unlock()
	case "lock.acq":
		r.mu.Lock()
		r.locks[g] = append(r.locks[g], fmt.Sprint(arg))
		r.mu.Unlock()
	case "lock.rel":
		r.mu.Lock()
		ls := r.locks[g]
		for i := len(ls) - 1; i >= 0; i-- {
			if ls[i] == fmt.Sprint(arg) {
				ls = append(ls[:i], ls[i+1:]...)
				break
			}
		}
		r.locks[g] = ls
		r.mu.Unlock()
	case "ctx.children.r", "ctx.children.w":
		c, ok := obj.(*actor.Context)
		if !ok || c == nil || c.Ref() == nil {
			return
		}
		r.mu.Lock()
		held := make([]any, 0, len(r.locks[g]))
		for _, l := range r.locks[g] {
			held = append(held, l)
		}
		r.events = append(r.events, map[string]any{"e": "Acc", "o": c.Ref().GetPath(), "k": point[len(point)-1:], "g": int(g), "t": r.turn[g], "L": held})
		r.mu.Unlock()
	}
}

type c10Actor struct {
	depth int
	fail  *int32
}

type c10Fail struct{}
type c10Ping struct{ N int }

func (a *c10Actor) OnReceive(ctx vivid.ActorContext) {
	switch m := ctx.Message().(type) {
	case *vivid.OnLaunch:
		// every actor of the stress is a subscriber: its termination removes it from the stream while others publish
		ctx.EventStream().Subscribe(ctx, ves.ActorSpawnedEvent{})
		if a.depth < 1 {
			// an unnamed child, spawned from the actor's own goroutine while other goroutines spawn unnamed actors too:
			// the name the library picks must be free
			if _, err := ctx.ActorOf(&c10Actor{depth: a.depth + 1, fail: a.fail}); err != nil && errors.Is(err, vivid.ErrorActorAlreadyExists) {
				fmt.Println("STRESS-INCONSISTENT-RESULT an unnamed spawn was refused: " + err.Error())
			}
		}
	case c10Fail:
		if a.fail != nil {
			atomic.AddInt32(a.fail, 1)
		}
		panic("scripted failure")
	case c10Ping:
		if ctx.Sender() != nil {
			ctx.Reply(m)
		}
	}
}

func runConfineTrace(seed int64) ([]map[string]any, error) {
	rec := &accessRecorder{locks: map[uint64][]string{}, turn: map[uint64]string{}}
	verifhook.Set(rec.hook)
	defer verifhook.Set(nil)
	sys := actor.NewSystem(vivid.WithActorSystemContext(context.Background()), vivid.WithActorSystemLogger(silentLogger), vivid.WithActorSystemStopTimeout(2*time.Second))
	if err := sys.Start(); err != nil {
		return nil, err
	}
	rng := rand.New(rand.NewSource(seed))
	spawnSome := func(n int) []vivid.ActorRef {
		var refs []vivid.ActorRef
		done := make(chan struct{})
		go func() { // an external goroutine, as an application would call the system API
			defer close(done)
			for i := 0; i < n; i++ {
				ref, err := sys.ActorOf(&c10Actor{})
				if err == nil {
					refs = append(refs, ref)
				}
			}
		}()
		<-done
		return refs
	}
	var all []vivid.ActorRef
	for round := 0; round < 3; round++ {
		refs := spawnSome(2 + rng.Intn(2))
		all = append(all, refs...)
		time.Sleep(20 * time.Millisecond)
		// kill some of them from yet another goroutine; the root hears about each death in its own turn
		done := make(chan struct{})
		go func() {
			defer close(done)
			for _, r := range refs[:1+rng.Intn(len(refs))] {
				sys.Kill(r, false, "c10")
			}
		}()
		<-done
		time.Sleep(40 * time.Millisecond)
	}
	_ = sys.Stop(2 * time.Second)
	rec.mu.Lock()
	defer rec.mu.Unlock()
	return append([]map[string]any{}, rec.events...), nil
}

// ---- part B: ungated stress in a child process ----

func c10Stress(args []string) int {
	dur := 1500 * time.Millisecond
	seed := int64(1)
	if len(args) > 0 {
		if d, err := time.ParseDuration(args[0]); err == nil {
			dur = d
		}
	}
	if len(args) > 1 {
		fmt.Sscan(args[1], &seed)
	}
	maker := vivid.SupervisionStrategyDecisionMakerFN(func(sctx vivid.SupervisionContext) (vivid.SupervisionDecision, string) {
		return vivid.SupervisionDecisionRestart, "stress"
	})
	sys := actor.NewSystem(vivid.WithActorSystemContext(context.Background()), vivid.WithActorSystemLogger(silentLogger), vivid.WithActorSystemStopTimeout(3*time.Second))
	if err := sys.Start(); err != nil {
		fmt.Println("STRESS-ERROR", err)
		return 2
	}
	var mu sync.Mutex
	var refs []vivid.ActorRef
	var fails int32
	stop := make(chan struct{})
	var wg sync.WaitGroup
	worker := func(id int, f func(rng *rand.Rand)) {
		wg.Add(1)
		go func() {
			defer wg.Done()
			rng := rand.New(rand.NewSource(seed*100 + int64(id)))
			for {
				select {
				case <-stop:
					return
				default:
				}
				f(rng)
			}
		}()
	}
	pick := func(rng *rand.Rand) vivid.ActorRef {
		mu.Lock()
		defer mu.Unlock()
		if len(refs) == 0 {
			return nil
		}
		return refs[rng.Intn(len(refs))]
	}
	var ops int64
	for i := 0; i < 4; i++ { // spawners / killers
		worker(i, func(rng *rand.Rand) {
			atomic.AddInt64(&ops, 1)
			mu.Lock()
			n := len(refs)
			mu.Unlock()
			if n < 24 || (n < 48 && rng.Intn(2) == 0) {
				ref, err := sys.ActorOf(&c10Actor{fail: &fails}, vivid.WithActorSupervisionStrategy(vivid.OneForOneStrategy(maker)))
				if err != nil && errors.Is(err, vivid.ErrorActorAlreadyExists) {
					fmt.Println("STRESS-INCONSISTENT-RESULT an unnamed spawn was refused: " + err.Error())
				}
				if err == nil {
					mu.Lock()
					refs = append(refs, ref)
					mu.Unlock()
				}
				return
			}
			// kill one and forget it
			mu.Lock()
			var r vivid.ActorRef
			if len(refs) > 0 {
				i := rng.Intn(len(refs))
				r = refs[i]
				refs = append(refs[:i], refs[i+1:]...)
			}
			mu.Unlock()
			if r != nil {
				sys.Kill(r, rng.Intn(2) == 0, "stress")
			}
		})
	}
	for i := 4; i < 7; i++ { // tell / ask / fail / find
		worker(i, func(rng *rand.Rand) {
			atomic.AddInt64(&ops, 1)
			r := pick(rng)
			if r == nil {
				time.Sleep(time.Millisecond)
				return
			}
			switch rng.Intn(5) {
			case 0:
				sys.Tell(r, c10Ping{N: 1})
			case 1:
				f := sys.Ask(r, c10Ping{N: 2}, 20*time.Millisecond)
				_, _ = f.Result()
			case 2:
				sys.Tell(r, c10Fail{})
			case 3:
				_, _ = sys.FindActor(r.GetPath())
			case 4:
				f := sys.Ask(r, c10Ping{N: 3}, 10*time.Millisecond)
				f.Close(nil)
			}
		})
	}
	silent, _ := sys.ActorOf(vivid.ActorFN(func(ctx vivid.ActorContext) {}), vivid.WithActorName("silent"))
	for i := 9; i < 11; i++ { // several goroutines complete one future at the same instant (Future methods are documented as concurrent)
		worker(i, func(rng *rand.Rand) {
			atomic.AddInt64(&ops, 1)
			f := sys.Ask(silent, c10Ping{N: 9}, time.Duration(1+rng.Intn(3))*time.Millisecond)
			var gate, ready sync.WaitGroup
			gate.Add(1)
			for k := 0; k < 3; k++ {
				ready.Add(1)
				go func(k int) {
					defer ready.Done()
					gate.Wait()
					f.Close(fmt.Errorf("closer %d", k))
				}(k)
			}
			gate.Done()
			ready.Wait()
			if r, err := f.Result(); r != nil && err != nil {
				fmt.Println("STRESS-INCONSISTENT-RESULT message and error together")
			}
		})
	}
	for i := 7; i < 9; i++ { // event stream from outside
		worker(i, func(rng *rand.Rand) {
			atomic.AddInt64(&ops, 1)
			es := sys.EventStream()
			switch rng.Intn(3) {
			case 0:
				es.Subscribe(sys, ves.ActorSpawnedEvent{})
			case 1:
				es.Publish(sys, ves.ActorSpawnedEvent{})
			case 2:
				es.Unsubscribe(sys, ves.ActorSpawnedEvent{})
			}
		})
	}
	time.Sleep(dur)
	close(stop)
	wg.Wait()
	// let the system settle: the registry and the root's table stop changing and agree with each other
	settled := false
	lastSig := ""
	for i := 0; i < 100 && !settled; i++ {
		time.Sleep(150 * time.Millisecond)
		top := 0
		for _, p := range sys.VerifLiveActors() {
			if strings.Count(p, "/") == 1 && p != "/" {
				top++
			}
		}
		sig := fmt.Sprintf("%d/%d/%d", len(sys.VerifLiveActors()), top, len(sys.VerifRootChildren()))
		settled = sig == lastSig
		lastSig = sig
	}
	time.Sleep(200 * time.Millisecond)
	out := bufio.NewWriter(os.Stdout)
	emit := func(e map[string]any) {
		b, _ := json.Marshal(e)
		fmt.Fprintf(out, "EV %s\n", b)
	}
	var nodes []any
	rootKids := sys.VerifRootChildren()
	sort.Strings(rootKids)
	kids := make([]any, 0, len(rootKids))
	for _, k := range rootKids {
		kids = append(kids, k)
	}
	nodes = append(nodes, map[string]any{"a": "/", "p": "", "c": kids, "v": 1})
	for _, st := range sys.VerifContexts() {
		if st.State == 2 {
			continue // terminated, about to leave the registry
		}
		parent := st.Path[:strings.LastIndex(st.Path, "/")]
		if parent == "" {
			parent = "/"
		}
		sort.Strings(st.Children)
		ch := make([]any, 0, len(st.Children))
		for _, k := range st.Children {
			ch = append(ch, k)
		}
		nodes = append(nodes, map[string]any{"a": st.Path, "p": parent, "c": ch, "v": 1})
	}
	emit(map[string]any{"e": "Tree", "N": nodes})
	fmt.Fprintf(out, "STRESS-OPS %d fails=%d\n", atomic.LoadInt64(&ops), atomic.LoadInt32(&fails))
	out.Flush()
	done := make(chan struct{})
	go func() { _ = sys.Stop(3 * time.Second); close(done) }()
	select {
	case <-done:
	case <-time.After(8 * time.Second):
		fmt.Println("STRESS-STOP-TIMEOUT")
	}
	return 0
}

var raceFrame = regexp.MustCompile(`^\s+(github\.com/kercylan98/vivid/\S+)\(\)\s*$`)

// harnessCrash reports whether the goroutine that died was executing harness code (a scripted actor, a driver
// goroutine or a Verif* accessor) rather than library code called by the library itself.
func harnessCrash(stderr string) bool {
	i := strings.Index(stderr, "\ngoroutine ")
	if i < 0 {
		return false
	}
	stack := stderr[i+1:]
	if j := strings.Index(stack, "\n\n"); j > 0 {
		stack = stack[:j]
	}
	// the innermost frame that is neither the Go runtime nor the standard library decides: a library function that
	// panics is the library's fault even when a harness goroutine called it (the API is documented as concurrent)
	for _, line := range strings.Split(stack, "\n")[1:] {
		if strings.HasPrefix(line, "\t") || line == "" {
			continue
		}
		fn := strings.TrimSpace(line)
		if strings.HasPrefix(fn, "runtime.") || strings.HasPrefix(fn, "runtime/") || strings.HasPrefix(fn, "internal/") || strings.HasPrefix(fn, "sync.") ||
			strings.HasPrefix(fn, "sync/") || strings.HasPrefix(fn, "panic(") || strings.HasPrefix(fn, "created by") || strings.HasPrefix(fn, "reflect.") {
			continue
		}
		return strings.Contains(fn, "verifharness") || strings.Contains(fn, ".Verif")
	}
	return false
}

// parseRaces extracts, for each race report, the first library frame of both accesses.
func parseRaces(stderr string) []string {
	var out []string
	seen := map[string]bool{}
	for _, block := range strings.Split(stderr, "WARNING: DATA RACE")[1:] {
		if i := strings.Index(block, "=================="); i > 0 {
			block = block[:i]
		}
		var tops []string
		for _, sect := range regexp.MustCompile(`(?m)^(Read|Write|Previous read|Previous write|Atomic|Previous atomic)[^\n]*\n`).Split(block, -1)[1:] {
			for _, line := range strings.Split(sect, "\n") {
				if m := raceFrame.FindStringSubmatch(line); m != nil && !strings.Contains(m[1], "verifharness") {
					tops = append(tops, m[1])
					break
				}
				if strings.TrimSpace(line) == "" {
					break
				}
			}
			if len(tops) == 2 {
				break
			}
		}
		if len(tops) == 0 {
			continue
		}
		sort.Strings(tops)
		key := strings.Join(tops, " | ")
		if !seen[key] {
			seen[key] = true
			out = append(out, key)
		}
	}
	sort.Strings(out)
	return out
}

func runStress(c *core.Ctx, bin string, dur time.Duration, seed int64) (events []map[string]any, races []string, detail string) {
	cmd := exec.Command(bin, "c10-stress", dur.String(), fmt.Sprint(seed))
	cmd.Env = append(os.Environ(), "GORACE=halt_on_error=0")
	var stdout, stderr bytes.Buffer
	cmd.Stdout, cmd.Stderr = &stdout, &stderr
	err := cmd.Run()
	anomaly := false
	for _, line := range strings.Split(stdout.String(), "\n") {
		if strings.HasPrefix(line, "EV ") {
			var e map[string]any
			if json.Unmarshal([]byte(line[3:]), &e) == nil {
				events = append(events, e)
			}
		}
		if strings.HasPrefix(line, "STRESS-OPS") {
			detail = line
		}
		if strings.HasPrefix(line, "STRESS-INCONSISTENT-RESULT") && !anomaly {
			anomaly = true
			events = append(events, map[string]any{"e": "Anomaly", "s": strings.TrimPrefix(line, "STRESS-INCONSISTENT-RESULT ")})
		}
	}
	se := stderr.String()
	races = parseRaces(se)
	survived := err == nil
	if _, isExit := err.(*exec.ExitError); isExit && len(races) > 0 && strings.Contains(stdout.String(), "STRESS-OPS") {
		survived = true // the race runtime exits with 66 after reporting races: not a crash
	}
	first := ""
	if !survived && harnessCrash(se) {
		c.Broken("the stress process died inside the harness (not a verdict about the library):\n%s", tailStr(se, 1200))
	}
	if !survived {
		first = firstLineOf(se)
		// the tree projection of a dead process is meaningless
		events = nil
	}
	events = append([]map[string]any{{"e": "Survived", "v": b2i(survived), "s": first}}, events...)
	return events, races, detail
}

func checkC10(c *core.Ctx) {
	c.Ev.Level = "other"
	dir, err := c.SpecDir("confine")
	if err != nil {
		c.Broken("spec dir: %v", err)
		return
	}
	if !os_skipMC() {
		r, err := tlc.Exec(tlc.Run{Dir: dir, Module: "MC_Confine", Config: "MC_Confine_fix.cfg", Timeout: 5 * time.Minute})
		if err != nil || r.Violation != "" {
			c.Broken("model checking MC_Confine_fix failed on the model of record: %v %s\n%s", err, vio(r), tailOf(r))
			return
		}
		c.MC("MC_Confine_fix", r)
		r2, err := tlc.Exec(tlc.Run{Dir: dir, Module: "MC_Confine", Config: "MC_Confine_orig.cfg", Timeout: 5 * time.Minute})
		if err != nil {
			c.Broken("model checking MC_Confine_orig: %v", err)
			return
		}
		c.Set("model_without_root_turn_lock_violates", r2.ViolatedName)
	}
	var traces []*Trace
	// A: lockset traces
	for i := 0; i < core.Pick(c, 4, 20); i++ {
		ev, err := runConfineTrace(c.Seed + int64(i))
		if err != nil {
			c.Broken("confinement trace: %v", err)
			return
		}
		c.Add("evaluations", 1)
		c.Add("recorded_accesses", int64(len(ev)))
		traces = append(traces, &Trace{Events: ev, Class: "children-table-accesses", Name: fmt.Sprintf("confine#%d", i), Scenario: map[string]any{"seed": c.Seed + int64(i), "what": "external goroutines spawn and kill root children in three rounds; children spawn a grandchild in their own turn"}})
	}
	// B: stress in child processes
	runs := core.Pick(c, 3, 10)
	dur := core.Pick(c, 1500*time.Millisecond, 4*time.Second)
	for i := 0; i < runs; i++ {
		ev, _, detail := runStress(c, os.Args[0], dur, c.Seed*10+int64(i))
		c.Add("evaluations", 1)
		c.Set("last_stress_run", detail)
		traces = append(traces, &Trace{Events: ev, Class: "concurrent-api-stress", Name: fmt.Sprintf("stress#%d", i), Scenario: map[string]any{"seed": c.Seed*10 + int64(i), "duration": dur.String(),
			"what": "4 goroutines ActorOf/Kill, 3 goroutines Tell/Ask/fail/FindActor/Future.Close, 2 goroutines event stream Subscribe/Publish/Unsubscribe; actors restart on failure; tree projected at quiescence"}})
	}
	// C: the same stress built with the race detector as an observer (quick: one short run, thorough: three longer ones)
	{
		bin := filepath.Join(c.Scratch.Dir, "vcheck-race")
		build := exec.Command("go1.26", "build", "-race", "-tags", "verif", "-o", bin, "./cmd/vcheck")
		build.Dir = filepath.Join(core.VerifDir(), "harness")
		build.Env = append(os.Environ(), "GOFLAGS=-mod=mod", "GOPROXY=off", "GOSUMDB=off", "GOTOOLCHAIN=local", "CGO_ENABLED=1")
		if out, err := build.CombinedOutput(); err != nil {
			c.Broken("race build failed: %v\n%s", err, tailStr(string(out), 1500))
			return
		}
		allRaces := map[string]bool{}
		for i := 0; i < core.Pick(c, 1, 3); i++ {
			ev, races, _ := runStress(c, bin, core.Pick(c, 2500*time.Millisecond, 3*time.Second), c.Seed*20+int64(i))
			c.Add("evaluations", 1)
			traces = append(traces, &Trace{Events: ev, Class: "concurrent-api-stress-race-build", Name: fmt.Sprintf("race-stress#%d", i), Scenario: map[string]any{"seed": c.Seed*20 + int64(i)}})
			for _, r := range races {
				allRaces[r] = true
			}
		}
		var keys []string
		for k := range allRaces {
			keys = append(keys, k)
		}
		sort.Strings(keys)
		c.Set("race_reports", keys)
		for _, k := range keys {
			traces = append(traces, &Trace{Events: []map[string]any{{"e": "Race", "s": k}}, Class: "race:" + k, Name: "race " + k, Scenario: map[string]any{"functions": k}})
		}
	}
	res := ValidateTraces(c, "confine", "ConfineMon", "ConfineMon.cfg", traces, confineDefaults)
	res.Report(c, "ConfineMon")
	c.Add("traces_validated_against_impl", int64(res.Validated))
	c.Set("distinct_nontrivial", len(traces))
	c.Set("explanation", "Confine.tla models who touches an actor's children table from which thread under which protection (external System.ActorOf under actorOfLock; the root's own turn on child death and on stop; ordinary actors in their own turn) with two-step accesses; TLC checks that no two threads are ever inside conflicting accesses, and shows the race for the variant in which the root's turn takes no lock. On the code: (A) every access to a children table is recorded through hooks with goroutine, the turn being executed and the locks held; ConfineMon (TLC) applies the lockset discipline (virgin / exclusive / shared / shared-modified; a shared-modified table whose candidate protection set becomes empty is a violation) - this does not need the racy interleaving to happen; (B) ungated stress of the documented-concurrent API (ActorOf, Kill, Tell, Ask, FindActor, Future.Close, event stream calls, failing and restarting actors) in a child process: the process must survive (a Go fatal error such as 'concurrent map writes' is a violation) and at quiescence every registered actor is listed by its parent and no children table holds an unregistered path; (C, thorough) the same stress built with -race: each distinct pair of library functions in a race report is a violation.")
	c.Set("rule", "lockset traces differ by seed (number of spawns and kills per round); stress runs differ by seed")
	if len(traces) > 0 {
		c.Sample(map[string]any{"class": traces[0].Class, "trace_head": head(traces[0].Events, 8)})
	}
	c.Assume("absence of races on memory the runs never touch is not decided; the race detector is an observer of the stress executions and part of the trusted base (thorough tier)")
}
