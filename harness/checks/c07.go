package checks

import (
	"context"
	"encoding/json"
	"errors"
	"fmt"
	"math/rand"
	"os"
	"regexp"
	"runtime"
	"sort"
	"strings"
	"sync"
	"sync/atomic"
	"time"

	"github.com/kercylan98/vivid"
	"github.com/kercylan98/vivid/internal/actor"
	"github.com/kercylan98/vivid/verifharness/core"
	"github.com/kercylan98/vivid/verifharness/ctl"
	"github.com/kercylan98/vivid/verifharness/tlc"
)

func init() { register("C07", checkC07) }

const lifeModelVariant = "fix"

var lifeDefaults = map[string]any{"e": "", "p": "", "op": "", "r": "", "alive": 0, "gor": 0, "pend": 0, "slow": 0, "fail": 0}

type lifeStep struct {
	P  string `json:"p"`
	Pc string `json:"pc"`
}

type lifeBehaviour struct {
	Steps []lifeStep `json:"steps"`
}

type lifeScenario struct {
	Script   map[string][]string `json:"script"`
	Remoting bool                `json:"remoting"`
	// LateSpawn: once the system is up, a goroutine outside the system spawns one more top-level actor whose OnPrelaunch
	// takes 60 ms - while the scripted callers may already be stopping the system.  Whether that spawn succeeds or is
	// refused is its own business; after a successful Stop no actor is alive
	LateSpawn bool `json:"late_spawn,omitempty"`
	// BadRemoting: the system is configured with a remoting address without a port: Start fails in its first step (and
	// cleans up after itself); what is checked is that nothing hangs and no goroutine of the system is left
	BadRemoting bool `json:"bad_remoting,omitempty"`
	// SlowMS > 0: one actor of the tree sleeps that long in its OnKill handler (slow to terminate);
	// StopTimeoutMS is then the time-out passed to Stop (0 and negative values mean "time out at once")
	SlowMS        int `json:"slow_ms,omitempty"`
	StopTimeoutMS int `json:"stop_timeout_ms,omitempty"`
	// Busy: what the actor tree is in the middle of when Stop / cancel arrives:
	// "remote-send" (needs Remoting) = an actor is inside a Tell to a node nobody listens on (the send is being retried);
	// "graceful-restart" = an actor failed at launch, its supervisor decided GracefulRestart, and the tear-down is
	// waiting for a child that takes 150 ms to terminate
	Busy string `json:"busy,omitempty"`
}

// lateActor: an actor whose pre-launch hook is slow.
type lateActor struct{}

func (*lateActor) OnReceive(vivid.ActorContext) {}
func (*lateActor) OnPrelaunch(vivid.PrelaunchContext) error {
	time.Sleep(60 * time.Millisecond)
	return nil
}

func classifyLifeErr(err error) string {
	switch {
	case err == nil:
		return "ok"
	case errors.Is(err, vivid.ErrorActorSystemAlreadyStarted):
		return "already-started"
	case errors.Is(err, vivid.ErrorActorSystemAlreadyStopped):
		return "already-stopped"
	case errors.Is(err, vivid.ErrorActorSystemNotStarted):
		return "not-started"
	case errors.Is(err, vivid.ErrorActorSystemStopFailed):
		return "stop-failed"
	}
	return "other"
}

var reGoroutine = regexp.MustCompile(`(?m)^goroutine (\d+) \[`)

// libGoroutines returns the ids of goroutines whose stack lies in the library (or its scheduler dependency).
func libGoroutines() map[string]string {
	buf := make([]byte, 1<<20)
	for {
		n := runtime.Stack(buf, true)
		if n < len(buf) {
			buf = buf[:n]
			break
		}
		buf = make([]byte, 2*len(buf))
	}
	out := map[string]string{}
	for _, blk := range strings.Split(string(buf), "\n\n") {
		m := reGoroutine.FindStringSubmatch(blk)
		if m == nil {
			continue
		}
		if strings.Contains(blk, "verifharness") {
			continue
		}
		if strings.Contains(blk, "github.com/kercylan98/vivid/internal/") || strings.Contains(blk, "reugn/go-quartz") {
			out[m[1]] = blk
		}
	}
	return out
}

var lifePortMu sync.Mutex
var lifePort = 21000

type lifeRun struct {
	Events []map[string]any
	Steps  int
	Drift  int
	Hang   bool
	Leak   []string
}

func runLifeScenario(sc *lifeScenario, schedule []lifeStep, seed int64) *lifeRun {
	installDispatch()
	run := &lifeRun{}
	before := libGoroutines()
	ctx, cancel := context.WithCancel(context.Background())
	opts := []vivid.ActorSystemOption{vivid.WithActorSystemContext(ctx), vivid.WithActorSystemLogger(silentLogger), vivid.WithActorSystemStopTimeout(2 * time.Second)}
	if sc.Remoting {
		lifePortMu.Lock()
		lifePort++
		addr := fmt.Sprintf("127.0.0.1:%d", lifePort)
		lifePortMu.Unlock()
		opts = append(opts, vivid.WithActorSystemRemoting(addr))
	}
	if sc.BadRemoting {
		opts = append(opts, vivid.WithActorSystemRemoting("127.0.0.1"))
	}
	sys := actor.NewSystem(opts...)
	c := ctl.New()
	c.Filter = func(point string, obj any) bool {
		return strings.HasPrefix(point, "sys.") && obj == any(sys) || point == "h.cancel"
	}
	c.BirthPoints["sys.g.park"] = true
	c.ParkPoints["sys.g.park"] = true
	c.ExitPoints["sys.g.exit"] = true
	c.SpawnPoints["sys.start.guardian"] = true
	ng := 0
	c.NewRole = func(point string, obj any) string {
		ng++
		if ng == 1 {
			return "guardian"
		}
		return fmt.Sprintf("guardian%d", ng)
	}
	ctl.Activate(c)
	defer ctl.Deactivate(c)
	var mu sync.Mutex
	ev := func(e map[string]any) {
		mu.Lock()
		run.Events = append(run.Events, e)
		mu.Unlock()
	}
	started := false
	cancelled := false
	startFailed := false
	var stopping atomic.Bool
	names := make([]string, 0, len(sc.Script))
	for n := range sc.Script {
		names = append(names, n)
	}
	sort.Strings(names)
	for _, n := range names {
		name := n
		script := sc.Script[n]
		c.Go(name, func() {
			for _, op := range script {
				switch op {
				case "start":
					ev(map[string]any{"e": "Call", "p": name, "op": "start"})
					err := sys.Start()
					res := classifyLifeErr(err)
					if res == "other" && sc.BadRemoting {
						res = "start-failed"
						mu.Lock()
						startFailed = true
						mu.Unlock()
					}
					ev(map[string]any{"e": "Ret", "p": name, "op": "start", "r": res, "fail": b2i(sc.BadRemoting)})
					if err == nil {
						mu.Lock()
						started = true
						mu.Unlock()
					}
					if err == nil && sc.LateSpawn {
						go func() {
							time.Sleep(time.Duration(seed%4) * time.Millisecond)
							_, _ = sys.ActorOf(&lateActor{}, vivid.WithActorName("late"))
						}()
					}
					// The actor tree is created only while no stop is under way: spawning from outside the system
					// concurrently with its termination is not part of this property (that race belongs to C10/C06).
					if err == nil && !stopping.Load() {
						switch sc.Busy {
						case "remote-send":
							ensureRmsg()
							dead, _ := sys.CreateRef(fmt.Sprintf("127.0.0.1:%d", freePort()), "/nobody")
							_, _ = sys.ActorOf(vivid.ActorFN(func(actx vivid.ActorContext) {
								if _, ok := actx.Message().(*vivid.OnLaunch); ok && dead != nil {
									actx.Tell(dead, newRmsg(1, "tell", 8, randSrc(1)))
								}
							}))
						case "graceful-restart":
							maker := vivid.SupervisionStrategyDecisionMakerFN(func(vivid.SupervisionContext) (vivid.SupervisionDecision, string) {
								return vivid.SupervisionDecisionGracefulRestart, "scripted"
							})
							launches := 0
							_, _ = sys.ActorOf(vivid.ActorFN(func(pctx vivid.ActorContext) {
								if _, ok := pctx.Message().(*vivid.OnLaunch); ok {
									_, _ = pctx.ActorOf(vivid.ActorFN(func(fctx vivid.ActorContext) {
										if _, ok := fctx.Message().(*vivid.OnLaunch); ok {
											launches++
											_, _ = fctx.ActorOf(vivid.ActorFN(func(sctx vivid.ActorContext) {
												if _, ok := sctx.Message().(*vivid.OnKill); ok {
													time.Sleep(150 * time.Millisecond)
												}
											}))
											if launches == 1 {
												fctx.Failed("fails at its first launch")
											}
										}
									}))
								}
							}), vivid.WithActorSupervisionStrategy(vivid.OneForOneStrategy(maker)))
						}
						// a small tree: one parent with two children
						_, _ = sys.ActorOf(vivid.ActorFN(func(actx vivid.ActorContext) {
							switch actx.Message().(type) {
							case *vivid.OnLaunch:
								for k := 0; k < 2; k++ {
									_, _ = actx.ActorOf(vivid.ActorFN(func(vivid.ActorContext) {}))
								}
							case *vivid.OnKill:
								if sc.SlowMS > 0 {
									time.Sleep(time.Duration(sc.SlowMS) * time.Millisecond)
								}
							}
						}))
					}
				case "stop":
					ev(map[string]any{"e": "Call", "p": name, "op": "stop"})
					var err error
					if sc.SlowMS > 0 {
						err = sys.Stop(time.Duration(sc.StopTimeoutMS) * time.Millisecond)
					} else {
						err = sys.Stop()
					}
					ev(map[string]any{"e": "Ret", "p": name, "op": "stop", "r": classifyLifeErr(err), "slow": b2i(sc.SlowMS > 0 && sc.SlowMS >= sc.StopTimeoutMS)})
				case "cancel":
					c.Yield("h.cancel", sys, nil)
					stopping.Store(true)
					ev(map[string]any{"e": "Call", "p": name, "op": "cancel"})
					cancel()
					mu.Lock()
					cancelled = true
					mu.Unlock()
					ev(map[string]any{"e": "Ret", "p": name, "op": "cancel", "r": "ok"})
				}
			}
		})
	}
	settle := func(role string) bool {
		if err := c.WaitSettled(4 * time.Second); err != nil {
			ev(map[string]any{"e": "Hang", "p": role})
			run.Hang = true
			return false
		}
		return true
	}
	finish := func() {
		// final observation
		pend := len(c.Waiters())
		stopped := false
		for _, e := range run.Events {
			if e["e"] == "Ret" && e["op"] == "stop" && e["r"] == "ok" {
				stopped = true
			}
		}
		alive, gor := 0, 0
		if ((started && (stopped || cancelled)) || startFailed) && !run.Hang {
			deadline := time.Now().Add(1500 * time.Millisecond)
			for {
				alive = len(sys.VerifLiveActors())
				now := libGoroutines()
				run.Leak = nil
				for id, blk := range now {
					if _, ok := before[id]; !ok {
						run.Leak = append(run.Leak, firstLines(blk, 8))
					}
				}
				gor = len(run.Leak)
				if (alive == 0 && gor == 0) || time.Now().After(deadline) {
					break
				}
				time.Sleep(5 * time.Millisecond)
			}
		}
		if started && !stopped && !cancelled && !run.Hang && pend == 0 {
			// started and never stopped: the system must simply be up - its tree alive, its scheduler delivering
			stopCalled := false
			for _, e := range run.Events {
				if e["e"] == "Ret" && e["op"] == "stop" && e["r"] != "not-started" {
					stopCalled = true
				}
			}
			if !stopCalled {
				fired := make(chan struct{}, 1)
				if _, err := sys.ActorOf(vivid.ActorFN(func(actx vivid.ActorContext) {
					switch actx.Message().(type) {
					case *vivid.OnLaunch:
						_ = actx.Scheduler().Once(actx.Ref(), 20*time.Millisecond, "tick")
					case string:
						select {
						case fired <- struct{}{}:
						default:
						}
					}
				})); err == nil {
					got := 0
					select {
					case <-fired:
						got = 1
					case <-time.After(1500 * time.Millisecond):
					}
					ev(map[string]any{"e": "Up", "alive": len(sys.VerifLiveActors()), "gor": got})
				} else {
					ev(map[string]any{"e": "Up", "alive": 0, "gor": 0})
				}
			}
		}
		ev(map[string]any{"e": "Final", "alive": alive, "gor": gor, "pend": pend})
		// clean-up outside the trace
		c.FreeRun()
		cancel()
		done := make(chan struct{})
		go func() { _ = sys.Stop(500 * time.Millisecond); close(done) }()
		select {
		case <-done:
		case <-time.After(2 * time.Second):
		}
	}
	if !settle("init") {
		finish()
		return run
	}
	point := func(st lifeStep) string {
		if st.Pc == "cancel" {
			return "h.cancel"
		}
		return "sys." + st.Pc
	}
	for _, st := range schedule {
		if st.P == "env" {
			deadline := time.Now().Add(3 * time.Second)
			for !sys.VerifGuardClosed() && time.Now().Before(deadline) {
				time.Sleep(200 * time.Microsecond)
			}
			continue
		}
		w := c.FindWait(st.P, 300*time.Millisecond)
		if w == nil || w.Point != point(st) {
			run.Drift++
			break
		}
		if w.Point == "sys.stop.kill" {
			stopping.Store(true)
		}
		c.Release(w)
		run.Steps++
		if !settle(st.P) {
			finish()
			return run
		}
	}
	rng := rand.New(rand.NewSource(seed))
	idle := 0
	for {
		ws := c.Waiters()
		if len(ws) == 0 {
			// a goroutine woken through a channel may still be on its way; after a cancel that is the guardian, which has the
			// whole shutdown before it - on a loaded machine it may need more than a few milliseconds to reach its first hook
			mu.Lock()
			maxIdle := 3
			if cancelled {
				maxIdle = 250
			}
			mu.Unlock()
			if idle < maxIdle && c.Parked() > 0 {
				idle++
				time.Sleep(2 * time.Millisecond)
				continue
			}
			break
		}
		idle = 0
		sort.Slice(ws, func(i, j int) bool { return ws[i].Role < ws[j].Role })
		w := ws[rng.Intn(len(ws))]
		if w.Point == "sys.stop.kill" {
			stopping.Store(true)
		}
		t1 := time.Now()
		c.Release(w)
		run.Steps++
		ok := settle(w.Role)
		if w.Point == "sys.stop.wait" && sc.SlowMS > 0 && w.Role != "guardian" {
			// how long the call stayed in its wait for the tree: bounded by the time-out it was given
			ev(map[string]any{"e": "StopWaited", "p": w.Role, "alive": int(time.Since(t1).Milliseconds()), "gor": sc.StopTimeoutMS})
		}
		if !ok {
			break
		}
	}
	finish()
	return run
}

func firstLines(s string, n int) string {
	ls := strings.Split(s, "\n")
	if len(ls) > n {
		ls = ls[:n]
	}
	return strings.Join(ls, "\n")
}

func checkC07(c *core.Ctx) {
	dir, err := c.SpecDir("syslife")
	if err != nil {
		c.Broken("spec dir: %v", err)
		return
	}
	v := lifeModelVariant
	fams := []string{"A", "B", "C", "D", "E", "F", "G"}
	if os_skipMC() {
		fams = fams[:0]
	}
	for _, f := range fams {
		cfg := "MC_" + f + "_" + v + ".cfg"
		r, err := tlc.Exec(tlc.Run{Dir: dir, Module: "MC_SysLife", Config: cfg, Timeout: 5 * time.Minute})
		if err != nil || r.Violation != "" {
			c.Broken("model checking %s failed on the model of record: %v %s\n%s", cfg, err, vio(r), tailOf(r))
			return
		}
		c.MC("MC_SysLife/"+cfg, r)
	}
	var traces []*Trace
	distinct := map[string]bool{}
	genFams := []string{"A", "B", "C", "D", "E", "F", "G"}
	if only := os.Getenv("VERIF_ONLY_FAM"); only != "" {
		genFams = strings.Split(only, ",")
	}
	for fi, f := range genFams {
		cfg := "Gen_" + f + "_" + v + ".cfg"
		var sc lifeScenario
		var behav []lifeBehaviour
		var perr error
		args := []string{}
		exhaustive := f == "A" || f == "B" || f == "C"
		if !exhaustive || !c.Thorough() && f != "A" {
			args = []string{"-simulate", fmt.Sprintf("num=%d", core.Pick(c, 60, 600)), "-depth", "100", "-seed", fmt.Sprint(c.Seed + int64(fi))}
			exhaustive = false
		}
		r, err := tlc.Exec(tlc.Run{Dir: dir, Module: "MC_SysLifeGen", Config: cfg, Workers: 1, Timeout: 10 * time.Minute, Args: args,
			OnLine: func(s string) {
				switch {
				case strings.HasPrefix(s, "SCEN "):
					if err := json.Unmarshal([]byte(s[5:]), &sc); err != nil {
						perr = err
					}
				case strings.HasPrefix(s, "BEHAV "):
					var b lifeBehaviour
					if err := json.Unmarshal([]byte(s[6:]), &b); err != nil {
						perr = err
						return
					}
					behav = append(behav, b)
				}
			}})
		if err != nil || perr != nil || r.Violation != "" || sc.Script == nil {
			c.Broken("behaviour generation %s: %v %v %s\n%s", cfg, err, perr, vio(r), tailOf(r))
			return
		}
		c.Add("tlc_behaviours_generated", int64(len(behav)))
		for bi, b := range behav {
			s2 := sc
			s2.Remoting = bi%7 == 3
			run := runLifeScenario(&s2, b.Steps, c.Seed+int64(bi))
			c.Add("evaluations", 1)
			c.Add("replayed_steps", int64(run.Steps))
			c.Add("drift_behaviours", int64(run.Drift))
			distinct[traceSig2(run.Events)] = true
			traces = append(traces, &Trace{Events: run.Events, Class: "tlc-" + f, Name: fmt.Sprintf("%s#%d", cfg, bi),
				Scenario: map[string]any{"scenario": s2, "schedule": b.Steps, "seed": c.Seed + int64(bi), "leak": run.Leak}})
		}
	}
	// random scripts and schedules beyond the modelled families
	rng := rand.New(rand.NewSource(c.Seed))
	ops := []string{"start", "stop", "cancel", "start", "stop"}
	nRandom := core.Pick(c, 150, 2000)
	if os.Getenv("VERIF_ONLY_FAM") != "" {
		nRandom = 0
	}
	for i := 0; i < nRandom; i++ {
		sc := &lifeScenario{Script: map[string][]string{}, Remoting: rng.Intn(6) == 0}
		pick := rng.Intn(8)
		if b := os.Getenv("VERIF_ONLY_BUSY"); b == "remote-send" {
			pick = 0
		} else if b == "graceful-restart" {
			pick = 1
		}
		switch pick {
		case 0:
			sc.Busy, sc.Remoting = "remote-send", true
		case 1:
			sc.Busy = "graceful-restart"
		}
		if rng.Intn(5) == 0 {
			sc.SlowMS = 700
			sc.StopTimeoutMS = []int{0, -1000, 1, 30}[rng.Intn(4)]
			sc.Remoting = false
		}
		sc.LateSpawn = sc.SlowMS == 0 && rng.Intn(3) == 0
		if rng.Intn(10) == 0 {
			// Start fails in its first step
			sc = &lifeScenario{Script: map[string][]string{"a": [][]string{{"start"}, {"start", "stop"}, {"start", "start"}}[rng.Intn(3)]}, BadRemoting: true}
			run := runLifeScenario(sc, nil, c.Seed*991+int64(i))
			c.Add("evaluations", 1)
			traces = append(traces, &Trace{Events: run.Events, Class: "start-fails", Name: fmt.Sprintf("random#%d", i), Scenario: map[string]any{"scenario": sc, "seed": c.Seed*991 + int64(i), "leak": run.Leak}})
			continue
		}
		for k := 0; k < 1+rng.Intn(3); k++ {
			var s []string
			for j := 0; j < 1+rng.Intn(4); j++ {
				s = append(s, ops[rng.Intn(len(ops))])
			}
			sc.Script[string(rune('a'+k))] = s
		}
		run := runLifeScenario(sc, nil, c.Seed*31+int64(i))
		c.Add("evaluations", 1)
		c.Add("replayed_steps", int64(run.Steps))
		distinct[traceSig2(run.Events)] = true
		traces = append(traces, &Trace{Events: run.Events, Class: "random", Name: fmt.Sprintf("random#%d", i),
			Scenario: map[string]any{"scenario": sc, "seed": c.Seed*31 + int64(i), "leak": run.Leak}})
	}
	res := ValidateTraces(c, "syslife", "LifeMon", "LifeMon.cfg", traces, lifeDefaults)
	res.Report(c, "LifeMon")
	c.Add("traces_validated_against_impl", int64(res.Validated))
	c.Set("distinct_nontrivial", len(distinct))
	c.Set("rule", "TLC behaviours of SysLife (families A..E: 1-3 callers with scripts over start/stop/cancel; A exhaustive, the others exhaustive in the thorough tier and simulated in the quick tier) are replayed hook by hook on a real actor.System with a small actor tree (every 7th with remoting), plus random scripts of 1-3 callers x 1-4 calls under random schedules; each trace of calls/returns and the final observation (registered actors, library goroutines left) is judged by LifeMon. Distinct by event sequence; all are non-trivial (at least one call).")
	if len(traces) > 0 {
		c.Sample(traces[0].Events)
		c.Sample(traces[len(traces)-1].Events)
	}
	c.Assume("the actor tree used in the scenarios terminates when poison-killed (C06)")
	c.Assume("a call that does not reach its next hook point within 4 s is reported as a hang")
}

func traceSig2(ev []map[string]any) string {
	var sb strings.Builder
	for _, e := range ev {
		fmt.Fprintf(&sb, "%v/%v/%v/%v;", e["e"], e["p"], e["op"], e["r"])
	}
	return sb.String()
}
