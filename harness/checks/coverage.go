package checks

import (
	"fmt"
	"path/filepath"
	"sort"
	"time"

	"github.com/kercylan98/vivid/verifharness/core"
	"github.com/kercylan98/vivid/verifharness/tlc"
)

// vcheck --coverage : vacuity guard.  Runs the exhaustive configurations of record with TLC's -coverage 1 and lists
// every action of a specification that was never taken (a property is not exercised by behaviour that never happens).
func init() {
	subcommands["--coverage"] = func(args []string) int {
		type mc struct{ spec, module, cfg string }
		list := []mc{
			{"mailbox", "MC_Mailbox", "MC_Q_fix.cfg"}, {"ring", "Ring", "MC_Ring_quick.cfg"}, {"syslife", "MC_SysLife", "MC_A_fix.cfg"},
			{"actorsys", "MC_ActorSys", "MC_T3_fix.cfg"}, {"future", "MC_Future", "MC_A_fix.cfg"}, {"remoting", "Link", "MC_Link.cfg"},
			{"remoting", "Handshake", "MC_Handshake_fix.cfg"}, {"sched", "MC_Sched", "MC_Sched_pair.cfg"}, {"gossip", "MC_Gossip", "MC_Join3.cfg"},
			{"gossip", "MC_Gossip", "MC_Fault3.cfg"}, {"gossip", "MC_Gossip", "MC_FD2.cfg"}, {"confine", "MC_Confine", "MC_Confine_fix.cfg"},
			{"future", "Registry", "MC_Registry_fix.cfg"}, {"remoting", "Link", "MC_Link_flaky.cfg"}, {"gossip", "MC_Gossip", "MC_Restart2_mi.cfg"},
			{"syslife", "MC_SysLife", "MC_F_fix.cfg"}, {"syslife", "MC_SysLife", "MC_G_fix.cfg"},
			{"syslife", "MC_SysLife", "MC_B_fix.cfg"}, {"syslife", "MC_SysLife", "MC_C_fix.cfg"}, {"syslife", "MC_SysLife", "MC_D_fix.cfg"}, {"syslife", "MC_SysLife", "MC_E_fix.cfg"},
		}
		sc, err := tlc.NewScratch()
		if err != nil {
			fmt.Println(err)
			return 2
		}
		defer sc.Close()
		bad := 0
		for _, m := range list {
			dir := sc.Sub(m.spec + "-" + m.cfg)
			if err := tlc.CopySpecs(filepath.Join(core.VerifDir(), "specs", m.spec), dir); err != nil {
				fmt.Println(m.spec, err)
				continue
			}
			r, err := tlc.Exec(tlc.Run{Dir: dir, Module: m.module, Config: m.cfg, Timeout: 20 * time.Minute, Args: []string{"-coverage", "1"}})
			if err != nil {
				fmt.Printf("%s/%s: %v\n", m.spec, m.cfg, err)
				continue
			}
			var never []string
			for a, n := range r.CoverageGen {
				if n == 0 {
					never = append(never, a)
				}
			}
			sort.Strings(never)
			fmt.Printf("%s/%s: %d distinct states, %d actions seen, never taken: %v\n", m.spec, m.cfg, r.Distinct, len(r.Coverage), never)
			bad += len(never)
		}
		if bad > 0 {
			return 1
		}
		return 0
	}
}
