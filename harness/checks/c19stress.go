package checks

import (
	"context"
	"fmt"
	"sync"
	"sync/atomic"
	"time"

	"github.com/kercylan98/vivid"
	"github.com/kercylan98/vivid/internal/actor"
	"github.com/kercylan98/vivid/internal/verifhook"
	"github.com/kercylan98/vivid/verifharness/core"
)

// Ungated part of C19: two goroutines publish continuously while a third subscribes and unsubscribes an actor.
// Every publication takes its number from a shared counter BEFORE Publish is called; the subscriber thread reads the
// counter AFTER Unsubscribe has returned and BEFORE the next Subscribe is called.  A publication whose number lies in
// that window started after Unsubscribe returned and ended before Subscribe began: it must not reach the actor.
func runStreamStress(c *core.Ctx, rounds int) ([]*Trace, error) {
	verifhook.Set(nil)
	sys := actor.NewSystem(vivid.WithActorSystemContext(context.Background()), vivid.WithActorSystemLogger(silentLogger), vivid.WithActorSystemStopTimeout(2*time.Second))
	if err := sys.Start(); err != nil {
		return nil, err
	}
	defer func() { go sys.Stop(2 * time.Second) }()
	var mu sync.Mutex
	var delivered []int
	started := make(chan vivid.ActorContext, 1)
	if _, err := sys.ActorOf(vivid.ActorFN(func(ctx vivid.ActorContext) {
		switch m := ctx.Message().(type) {
		case *vivid.OnLaunch:
			started <- ctx
		case evA:
			mu.Lock()
			delivered = append(delivered, m.ID)
			mu.Unlock()
		}
	}), vivid.WithActorName("s")); err != nil {
		return nil, err
	}
	sctx := <-started
	var counter atomic.Int64
	stop := make(chan struct{})
	var wg sync.WaitGroup
	var donePub [2]atomic.Int64 // per publisher: number of its last publication whose Publish call has returned
	for p := 0; p < 2; p++ {
		wg.Add(1)
		go func(p int) {
			defer wg.Done()
			es := sys.EventStream()
			for {
				select {
				case <-stop:
					return
				default:
				}
				id := int(counter.Add(1)) // taken before the call starts
				es.Publish(sys, evA{ID: id*2 + p})
				donePub[p].Store(int64(id)) // stored after the call has returned
				if id%64 == 0 {
					time.Sleep(20 * time.Microsecond)
				}
			}
		}(p)
	}
	// publications of publisher p with from < number <= to[p] started after Unsubscribe returned and had returned before Subscribe was called
	type window struct {
		from int
		to   [2]int
	}
	var windows []window
	es := sys.EventStream()
	for r := 0; r < rounds; r++ {
		es.Subscribe(sctx, evA{})
		for i := 0; i < r%200; i++ {
			_ = i
		}
		es.Unsubscribe(sctx, evA{})
		from := int(counter.Load())
		// let the publishers run for a while with the actor unsubscribed
		for spin := 0; int(counter.Load()) < from+8 && spin < 100000; spin++ {
		}
		windows = append(windows, window{from, [2]int{int(donePub[0].Load()), int(donePub[1].Load())}})
	}
	close(stop)
	wg.Wait()
	time.Sleep(300 * time.Millisecond)
	mu.Lock()
	defer mu.Unlock()
	inWindow := func(enc int) bool {
		id, p := enc/2, enc%2
		lo, hi := 0, len(windows)
		for lo < hi {
			mid := (lo + hi) / 2
			switch {
			case id <= windows[mid].from:
				hi = mid
			case id > windows[mid].to[p] && (mid+1 >= len(windows) || id <= windows[mid+1].from):
				return false // between this window's end and the next window's start: subscribed (or racing) - nothing to say
			case id > windows[mid].to[p]:
				lo = mid + 1
			default:
				return true
			}
		}
		return false
	}
	var traces []*Trace
	bad := 0
	for _, id := range delivered {
		if !inWindow(id) {
			continue
		}
		bad++
		if bad > 20 {
			break
		}
		ev := []map[string]any{{"e": "Sub", "a": "s", "s": "A"}, {"e": "Unsub", "a": "s", "s": "A"}, {"e": "Pub", "a": "p", "m": id, "s": "A"},
			{"e": "Deliv", "a": "s", "k": "event", "m": id, "s": "A", "i": 1}}
		traces = append(traces, &Trace{Events: ev, Class: "parallel-stream-stress", Name: fmt.Sprintf("publication %d after Unsubscribe returned", id),
			Scenario: map[string]any{"rounds": rounds, "what": "two goroutines publish continuously, a third subscribes and unsubscribes actor s; the publication started after Unsubscribe had returned and before the next Subscribe was called"}})
	}
	// a sample of ordinary rounds, so that the monitor sees what a clean round looks like
	ok := []map[string]any{{"e": "Sub", "a": "s", "s": "A"}, {"e": "Unsub", "a": "s", "s": "A"}, {"e": "Pub", "a": "p", "m": 1, "s": "A"}}
	traces = append(traces, &Trace{Events: ok, Class: "parallel-stream-stress", Name: "clean round", Scenario: map[string]any{"rounds": rounds, "deliveries_outside_windows": len(delivered) - bad}})
	c.Set("stream_stress_publications", int(counter.Load()))
	c.Set("stream_stress_rounds", rounds)
	return traces, nil
}

type c19done struct{}

// runSubscriberRespawnStress: a parent re-spawns child "c" under the same name as soon as it hears of its termination;
// every incarnation subscribes at launch and asks to be replaced after it has received an event; a publisher
// publishes all the time.  An incarnation that is subscribed must receive events: if the rounds stop advancing, the
// current incarnation is subscribed and deaf.
func runSubscriberRespawnStress(rounds int) ([]*Trace, error) {
	verifhook.Set(nil)
	sys := actor.NewSystem(vivid.WithActorSystemContext(context.Background()), vivid.WithActorSystemLogger(silentLogger), vivid.WithActorSystemStopTimeout(2*time.Second))
	if err := sys.Start(); err != nil {
		return nil, err
	}
	defer func() { go sys.Stop(2 * time.Second) }()
	var round atomic.Int64
	finished := make(chan struct{})
	child := func() vivid.Actor {
		got := 0
		return vivid.ActorFN(func(ctx vivid.ActorContext) {
			switch ctx.Message().(type) {
			case *vivid.OnLaunch:
				ctx.EventStream().Subscribe(ctx, evA{})
			case evA:
				got++
				if got == 1 {
					ctx.Tell(ctx.Parent(), c19done{})
				}
			}
		})
	}
	if _, err := sys.ActorOf(vivid.ActorFN(func(ctx vivid.ActorContext) {
		switch m := ctx.Message().(type) {
		case *vivid.OnLaunch:
			_, _ = ctx.ActorOf(child(), vivid.WithActorName("c"))
		case c19done:
			if s := ctx.Sender(); s != nil {
				ctx.Kill(s, false, "next incarnation")
			}
		case *vivid.OnKilled:
			if m.Ref.Equals(ctx.Ref()) {
				return
			}
			if round.Add(1) >= int64(rounds) {
				close(finished)
				return
			}
			_, _ = ctx.ActorOf(child(), vivid.WithActorName("c"))
		}
	}), vivid.WithActorName("p")); err != nil {
		return nil, err
	}
	stop := make(chan struct{})
	go func() {
		id := 0
		for {
			select {
			case <-stop:
				return
			default:
			}
			id++
			sys.EventStream().Publish(sys, evA{ID: id})
			if id%8 == 0 {
				time.Sleep(5 * time.Microsecond)
			}
		}
	}()
	defer close(stop)
	deaf := false
	last, lastChange := int64(-1), time.Now()
	for {
		select {
		case <-finished:
		case <-time.After(5 * time.Millisecond):
			if r := round.Load(); r != last {
				last, lastChange = r, time.Now()
				continue
			}
			if time.Since(lastChange) < 1500*time.Millisecond {
				continue
			}
			deaf = true
		}
		break
	}
	ev := []map[string]any{{"e": "Sub", "a": "c", "s": "A"}, {"e": "Pub", "a": "p", "m": 1, "s": "A"}}
	if !deaf {
		ev = append(ev, map[string]any{"e": "Deliv", "a": "c", "k": "event", "m": 1, "s": "A", "i": 1})
	}
	ev = append(ev, map[string]any{"e": "QEnd"})
	return []*Trace{{Events: ev, Class: "subscriber-respawn-stress", Name: fmt.Sprintf("subscriber respawn stress (%d of %d rounds)", round.Load(), rounds),
		Scenario: map[string]any{"rounds": rounds, "completed": round.Load(), "what": "child 'c' subscribes at launch and is replaced under the same name after its first event; a publisher publishes continuously; the incarnation of the last round received nothing for 1.5 s"}}}, nil
}

// runManySubscribers: many actors subscribed to one type, one publisher that publishes a burst from inside one turn.
// Every subscriber must see the publisher's events in publication order, each once (StreamMon.PublisherOrder,
// ExactlyOnce, DeliveredToEverySubscriber).  Ungated: real mailboxes, real goroutines.
func runManySubscribers(seed int64, nSubs, nPubs int) (*Trace, error) {
	verifhook.Set(nil)
	sys := actor.NewSystem(vivid.WithActorSystemContext(context.Background()), vivid.WithActorSystemLogger(silentLogger), vivid.WithActorSystemStopTimeout(2*time.Second))
	if err := sys.Start(); err != nil {
		return nil, err
	}
	defer func() { go sys.Stop(2 * time.Second) }()
	var mu sync.Mutex
	var events []map[string]any
	ev := func(e map[string]any) { mu.Lock(); events = append(events, e); mu.Unlock() }
	var ready, got atomic.Int64
	for i := 0; i < nSubs; i++ {
		name := fmt.Sprintf("s%d", i)
		if _, err := sys.ActorOf(vivid.ActorFN(func(ctx vivid.ActorContext) {
			switch m := ctx.Message().(type) {
			case *vivid.OnLaunch:
				ctx.EventStream().Subscribe(ctx, evA{})
				ev(map[string]any{"e": "Sub", "a": name, "s": "A"})
				ready.Add(1)
			case evA:
				ev(map[string]any{"e": "Deliv", "a": name, "k": "event", "m": m.ID, "i": 1, "s": "A"})
				got.Add(1)
			}
		}), vivid.WithActorName(name)); err != nil {
			return nil, err
		}
	}
	for i := 0; i < 3000 && int(ready.Load()) < nSubs; i++ {
		time.Sleep(time.Millisecond)
	}
	if int(ready.Load()) < nSubs {
		return nil, fmt.Errorf("only %d of %d subscribers launched", ready.Load(), nSubs)
	}
	pub, err := sys.ActorOf(vivid.ActorFN(func(ctx vivid.ActorContext) {
		if s, ok := ctx.Message().(string); ok && s == "go" {
			for id := 1; id <= nPubs; id++ {
				ev(map[string]any{"e": "Pub", "a": "pub", "m": id, "s": "A"})
				ctx.EventStream().Publish(ctx, evA{ID: id})
			}
		}
	}), vivid.WithActorName("pub"))
	if err != nil {
		return nil, err
	}
	sys.Tell(pub, "go")
	want := int64(nSubs * nPubs)
	for i := 0; i < 5000 && got.Load() < want; i++ {
		time.Sleep(time.Millisecond)
	}
	time.Sleep(20 * time.Millisecond)
	ev(map[string]any{"e": "QBegin", "s": "rest"})
	ev(map[string]any{"e": "QEnd"})
	mu.Lock()
	out := append([]map[string]any{}, events...)
	mu.Unlock()
	return &Trace{Events: out, Class: "many-subscribers", Name: fmt.Sprintf("many-subscribers#%d", seed),
		Scenario: map[string]any{"subscribers": nSubs, "publications": nPubs, "publisher": "one actor, one turn"}}, nil
}
