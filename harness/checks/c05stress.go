package checks

import (
	"context"
	"fmt"
	"sync"
	"sync/atomic"
	"time"

	"github.com/kercylan98/vivid"
	"github.com/kercylan98/vivid/internal/actor"
	"github.com/kercylan98/vivid/internal/verifhook"
	"github.com/kercylan98/vivid/pkg/ves"
)

type c5greet struct{ From string }

// Ungated part of C05: a parent spawns thousands of children while (a) an actor subscribed to ActorSpawnedEvent greets
// every announced reference and (b) an outside goroutine that knows the naming scheme tells each child by path as soon as
// FindActor resolves it.  The spawning goroutine is delayed for a few microseconds at the hook just before the child's
// OnLaunch is enqueued (what a pre-emption at that instruction does).  Every child records its first two messages:
// the first one must be OnLaunch.
func runFirstMessageStress(children int, byPath bool) ([]*Trace, error) {
	var target atomic.Pointer[actor.Context]
	var ph atomic.Int64
	verifhook.Set(func(point string, obj any, arg any) {
		if point == "ctx.actorof.launch" {
			if c, ok := obj.(*actor.Context); ok && c == target.Load() {
				time.Sleep(30 * time.Microsecond)
			}
		}
		// a consumer that has found the system queue empty is held for a moment before it looks at the pause flag: what
		// happens to the mailbox in between (OnLaunch enqueued, mailbox resumed) meets a consumer that is already past
		// the system queue
		if point == "mb.ph.load_paused" && ph.Add(1)%3 == 0 {
			time.Sleep(40 * time.Microsecond)
		}
	})
	defer verifhook.Set(nil)
	sys := actor.NewSystem(vivid.WithActorSystemContext(context.Background()), vivid.WithActorSystemLogger(silentLogger), vivid.WithActorSystemStopTimeout(2*time.Second))
	if err := sys.Start(); err != nil {
		return nil, err
	}
	defer func() { go sys.Stop(2 * time.Second) }()
	var mu sync.Mutex
	first := make([]string, children) // "launch" | "greet:<from>"
	if _, err := sys.ActorOf(vivid.ActorFN(func(ctx vivid.ActorContext) {
		switch m := ctx.Message().(type) {
		case *vivid.OnLaunch:
			ctx.EventStream().Subscribe(ctx, ves.ActorSpawnedEvent{})
		case ves.ActorSpawnedEvent:
			ctx.Tell(m.ActorRef, c5greet{From: "spawned-event"})
		}
	}), vivid.WithActorName("greeter")); err != nil {
		return nil, err
	}
	time.Sleep(20 * time.Millisecond)
	done := make(chan struct{})
	next := make(chan struct{}, 1)
	if _, err := sys.ActorOf(vivid.ActorFN(func(ctx vivid.ActorContext) {
		switch ctx.Message().(type) {
		case *vivid.OnLaunch:
			if c, ok := ctx.(*actor.Context); ok {
				target.Store(c)
			}
			ctx.TellSelf(c5greet{From: "go"})
		case c5greet:
			for i := 0; i < children; i++ {
				i := i
				_, err := ctx.ActorOf(vivid.ActorFN(func(cctx vivid.ActorContext) {
					kind := ""
					switch m := cctx.Message().(type) {
					case *vivid.OnLaunch:
						kind = "launch"
					case c5greet:
						kind = "greet:" + m.From
					default:
						return
					}
					mu.Lock()
					if first[i] == "" {
						first[i] = kind
					}
					mu.Unlock()
				}), vivid.WithActorName(fmt.Sprintf("k%d", i)))
				if err != nil {
					break
				}
				select {
				case next <- struct{}{}:
				default:
				}
			}
			close(done)
		}
	}), vivid.WithActorName("p")); err != nil {
		return nil, err
	}
	stop := make(chan struct{})
	if byPath {
		go func() {
			i := 0
			for i < children {
				select {
				case <-stop:
					return
				default:
				}
				ref, err := sys.FindActor(fmt.Sprintf("%s/p/k%d", sys.Ref().GetAddress(), i))
				if err != nil || ref == nil {
					continue
				}
				sys.Tell(ref, c5greet{From: "path"})
				i++
			}
		}()
	}
	select {
	case <-done:
	case <-time.After(120 * time.Second):
		close(stop)
		return nil, fmt.Errorf("first-message stress did not finish")
	}
	close(stop)
	time.Sleep(300 * time.Millisecond)
	mu.Lock()
	defer mu.Unlock()
	var traces []*Trace
	counts := map[string]int{}
	for i, k := range first {
		counts[k]++
		if k == "" || k == "launch" || len(traces) >= 12 {
			continue
		}
		from := k[len("greet:"):]
		ev := []map[string]any{{"e": "Spawn", "a": "k", "p": "p"}, {"e": "Deliv", "a": "k", "k": "user", "m": 1, "i": 1, "s": "greet"}, {"e": "Deliv", "a": "k", "k": "launch", "i": 1}}
		traces = append(traces, &Trace{Events: ev, Class: "first-message-" + from, Name: fmt.Sprintf("child k%d: first message is a greeting sent via %s", i, from),
			Scenario: map[string]any{"children": children, "by_path_sender": byPath, "first_messages": counts}})
	}
	ok := []map[string]any{{"e": "Spawn", "a": "k", "p": "p"}, {"e": "Deliv", "a": "k", "k": "launch", "i": 1}, {"e": "Deliv", "a": "k", "k": "user", "m": 1, "i": 1, "s": "greet"}}
	traces = append(traces, &Trace{Events: ok, Class: "first-message-stress", Name: "ordinary child", Scenario: map[string]any{"children": children, "by_path_sender": byPath, "first_messages": counts}})
	return traces, nil
}
