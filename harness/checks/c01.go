package checks

import (
	"encoding/json"
	"fmt"
	"math/rand"
	"os"
	"os/exec"
	"path/filepath"
	"strings"
	"sync"
	"time"

	"github.com/kercylan98/vivid/verifharness/core"
	"github.com/kercylan98/vivid/verifharness/tlc"
)

func init() { register("C01", checkC01) }

// the Mailbox model of record follows the repaired re-election rule (fix: commit in /repo)
const mbModelVariant = "fix"

var mbDefaults = map[string]any{"e": "", "th": "", "m": "", "sys": 0, "inh": 0, "sender": "", "paused": 0, "ulen": 0, "live": 0}

type mbBehaviours struct {
	cfg   string
	scen  *mbScenario
	behav [][]mbStep
}

// mbGenerate runs the generator module in simulation mode and collects scenario + behaviours.
func mbGenerate(c *core.Ctx, dir, cfg string, num int, seed int64) (*mbBehaviours, *tlc.Result, error) {
	out := &mbBehaviours{cfg: cfg}
	var mu sync.Mutex
	var perr error
	r, err := tlc.Exec(tlc.Run{Dir: dir, Module: "MC_MailboxGen", Config: cfg, Workers: 1, Timeout: 10 * time.Minute,
		Args: []string{"-simulate", fmt.Sprintf("num=%d", num), "-depth", "400", "-seed", fmt.Sprint(seed)},
		OnLine: func(s string) {
			mu.Lock()
			defer mu.Unlock()
			switch {
			case strings.HasPrefix(s, "SCEN "):
				if out.scen == nil {
					sc := &mbScenario{}
					if err := json.Unmarshal([]byte(s[5:]), sc); err != nil {
						perr = err
					}
					out.scen = sc
				}
			case strings.HasPrefix(s, "BEHAV "):
				var b []mbStep
				if err := json.Unmarshal([]byte(s[6:]), &b); err != nil {
					perr = err
					return
				}
				out.behav = append(out.behav, b)
			}
		}})
	if err == nil && perr != nil {
		err = perr
	}
	return out, r, err
}

func mbRandomScenario(rng *rand.Rand) *mbScenario {
	sc := &mbScenario{Callers: map[string][][]string{}, MsgScript: map[string][][]string{}}
	nSenders := 2 + rng.Intn(4)
	nMsgs := 0
	newMsg := func(sys bool) string {
		nMsgs++
		id := fmt.Sprintf("m%d", nMsgs)
		if sys {
			id = fmt.Sprintf("y%d", nMsgs)
			sc.Sys = append(sc.Sys, id)
		}
		sc.MsgScript[id] = nil
		return id
	}
	for s := 1; s <= nSenders; s++ {
		var script [][]string
		for k := 0; k < 2+rng.Intn(6); k++ {
			m := newMsg(rng.Intn(4) == 0)
			// some handlers act on their own mailbox
			switch rng.Intn(10) {
			case 0:
				sc.MsgScript[m] = [][]string{{"enq", newMsg(false)}}
			case 1:
				sc.MsgScript[m] = [][]string{{"pause"}}
			case 2:
				sc.MsgScript[m] = [][]string{{"resume"}}
			case 3:
				sc.MsgScript[m] = [][]string{{"pause"}, {"enq", newMsg(true)}, {"resume"}}
			}
			script = append(script, []string{"enq", m})
		}
		sc.Callers[fmt.Sprintf("s%d", s)] = script
	}
	for p := 1; p <= rng.Intn(3); p++ {
		var script [][]string
		for k := 0; k < 1+rng.Intn(4); k++ {
			if rng.Intn(2) == 0 {
				script = append(script, []string{"pause"})
			} else {
				script = append(script, []string{"resume"})
			}
		}
		if rng.Intn(2) == 0 {
			script = append(script, []string{"resume"})
		}
		sc.Callers[fmt.Sprintf("p%d", p)] = script
	}
	for i := 1; i <= 64; i++ {
		sc.Pool = append(sc.Pool, fmt.Sprintf("c%d", i))
	}
	sc.RingSize = []int64{1, 2, 4, 256}[rng.Intn(4)]
	return sc
}

// mbSupervisionScenario is the mailbox-level shape of a supervised failure: the handler of a user message pauses its own
// mailbox (Context.failed) with mail queued behind it, and the supervisor's answer - system messages whose handlers
// pause and resume the mailbox - arrives from another goroutine at any moment, in particular while the consumer is on
// its way out.  At rest the mailbox must be unpaused with everything handled.
func mbSupervisionScenario(rng *rand.Rand) *mbScenario {
	sc := &mbScenario{Callers: map[string][][]string{}, MsgScript: map[string][][]string{}}
	n := 0
	user := func(script [][]string) string {
		n++
		id := fmt.Sprintf("m%d", n)
		sc.MsgScript[id] = script
		return id
	}
	system := func(script [][]string) string {
		n++
		id := fmt.Sprintf("y%d", n)
		sc.Sys = append(sc.Sys, id)
		sc.MsgScript[id] = script
		return id
	}
	var s1 [][]string
	for k := 0; k < rng.Intn(2); k++ {
		s1 = append(s1, []string{"enq", user(nil)})
	}
	s1 = append(s1, []string{"enq", user([][]string{{"pause"}})}) // the failing message
	for k := 0; k < 1+rng.Intn(3); k++ {
		s1 = append(s1, []string{"enq", user(nil)})
	}
	sc.Callers["s1"] = s1
	// the supervisor's answer: (pause command,) resume command - or a second pause/resume pair after an escalation
	var sup [][]string
	if rng.Intn(2) == 0 {
		sup = append(sup, []string{"enq", system([][]string{{"pause"}})})
	}
	sup = append(sup, []string{"enq", system([][]string{{"resume"}})})
	if rng.Intn(3) == 0 {
		sup = append(sup, []string{"enq", system(nil)})
	}
	sc.Callers["s2"] = sup
	if rng.Intn(3) == 0 {
		sc.Callers["s3"] = [][]string{{"enq", user(nil)}, {"enq", system(nil)}}
	}
	for i := 1; i <= 64; i++ {
		sc.Pool = append(sc.Pool, fmt.Sprintf("c%d", i))
	}
	sc.RingSize = []int64{1, 2, 4, 256}[rng.Intn(4)]
	return sc
}

// mbSupervisionTraces runs n supervision-shaped scenarios under seeded fine-grained schedules.
func mbSupervisionTraces(c *core.Ctx, n int) ([]*Trace, bool) {
	rng := rand.New(rand.NewSource(c.Seed*313 + 7))
	var traces []*Trace
	var mu sync.Mutex
	var wg sync.WaitGroup
	sem := make(chan struct{}, 12)
	for i := 0; i < n; i++ {
		sc := mbSupervisionScenario(rng)
		wg.Add(1)
		sem <- struct{}{}
		go func(i int, sc *mbScenario) {
			defer wg.Done()
			defer func() { <-sem }()
			run := runMailboxScenario(sc, nil, c.Seed*104729+int64(i))
			mu.Lock()
			defer mu.Unlock()
			if run.Stuck != "" {
				c.Broken("supervision-shaped mailbox scenario %d: controller stuck: %s", i, run.Stuck)
				return
			}
			c.Add("evaluations", 1)
			c.Add("replayed_steps", int64(run.Steps))
			traces = append(traces, &Trace{Events: run.Events, Class: "mailbox-supervision-shape", Name: fmt.Sprintf("mbsup#%d", i), Scenario: map[string]any{"scenario": sc, "seed": c.Seed*104729 + int64(i)}})
		}(i, sc)
	}
	wg.Wait()
	return traces, !c.IsBroken()
}

func checkC01(c *core.Ctx) {
	dir, err := c.SpecDir("mailbox")
	if err != nil {
		c.Broken("spec dir: %v", err)
		return
	}
	v := mbModelVariant
	// 1. model checking: safety on every interleaving, NoSpin (liveness) under weak fairness
	mcs := []string{"MC_Q_" + v + "_live.cfg", "MC_H_" + v + ".cfg", "MC_P_" + v + "_live.cfg", "MC_W_" + v + "_live.cfg", "MC_S_" + v + "_live.cfg"}
	if c.Thorough() {
		mcs = append(mcs, "MC_R_"+v+"_live.cfg")
	}
	if os.Getenv("VERIF_SKIP_MC") != "" {
		mcs = nil
	}
	for _, cfg := range mcs {
		r, err := tlc.Exec(tlc.Run{Dir: dir, Module: "MC_Mailbox", Config: cfg, Timeout: core.Pick(c, 4*time.Minute, 40*time.Minute)})
		if err != nil || r.Violation != "" {
			c.Broken("model checking %s failed on the model of record: %v %s\n%s", cfg, err, vio(r), tailOf(r))
			return
		}
		c.MC("MC_Mailbox/"+cfg, r)
	}
	gens := []string{"Gen_Q_" + v + ".cfg", "Gen_H_" + v + ".cfg", "Gen_P_" + v + ".cfg", "Gen_W_" + v + ".cfg", "Gen_S_" + v + ".cfg", "Gen_R_" + v + ".cfg"}
	traces, distinct, ok := mbCollectTraces(c, dir, gens, core.Pick(c, 300, 4000), core.Pick(c, 600, 8000))
	if !ok {
		return
	}
	// 3b. no controller: real cores and real memory ordering
	pp, nmsg, err := runMailboxPingPong(core.Pick(c, 5*time.Second, 40*time.Second), 4)
	if err != nil {
		c.Broken("%v", err)
		return
	}
	traces = append(traces, pp...)
	c.Set("ungated_ping_pong_messages", nmsg)
	// 4. TLC judges every recorded trace with the monitor
	res := ValidateTraces(c, "mailbox", "MailboxMon", "MailboxMon.cfg", traces, mbDefaults)
	res.Report(c, "MailboxMon")
	c.Add("traces_validated_against_impl", int64(res.Validated))
	c.Add("trace_events", int64(res.Events))
	c.Set("distinct_nontrivial", len(distinct))
	c.Set("rule", "TLC-simulated behaviours of the Mailbox spec (configs Q,H,P[,R,S]) are replayed hook by hook on the real UnboundedMailbox and completed by a seeded random scheduler; in addition random scenarios (2-5 senders, up to ~40 messages, pause/resume callers, handlers acting on their own mailbox, ring sizes 1..256) run under random fine-grained schedules. Non-trivial: a handler invocation overlapped an Enqueue/Pause/Resume call of another goroutine; distinct by event sequence.")
	if len(traces) > 0 {
		c.Sample(map[string]any{"name": traces[0].Name, "events": head(traces[0].Events, 30)})
		c.Sample(map[string]any{"name": traces[len(traces)-1].Name, "events": head(traces[len(traces)-1].Events, 30)})
	}
	c.Assume("the ring queues are linearisable FIFO queues (decided by C02's ring specification and replay)")
	c.Assume("Go's sync/atomic operations are sequentially consistent; each hook point is placed immediately before one atomic operation")
}

func head(ev []map[string]any, n int) []map[string]any {
	if len(ev) > n {
		return ev[:n]
	}
	return ev
}

func traceSignature(ev []map[string]any) string {
	var sb strings.Builder
	for _, e := range ev {
		fmt.Fprintf(&sb, "%v/%v/%v;", e["e"], e["th"], e["m"])
	}
	return sb.String()
}

// traceHasOverlap: some call (Enq/Pause/Resume) by a thread was in progress while a handler was running.
func traceHasOverlap(ev []map[string]any) bool {
	in := 0
	open := 0
	for _, e := range ev {
		switch e["e"] {
		case "HandleIn":
			in++
			if open > 0 {
				return true
			}
		case "HandleOut":
			in--
		case "EnqCall", "PauseCall", "ResumeCall":
			if e["inh"] == 0 {
				open++
				if in > 0 {
					return true
				}
			}
		case "EnqRet", "PauseRet", "ResumeRet":
			if e["inh"] == 0 {
				open--
			}
		}
	}
	return false
}

// mbCollectTraces generates TLC behaviours of the Mailbox spec (simulation) for the given generator
// configurations, replays them hook by hook on the real mailbox, adds random scenarios and returns the traces.
func mbCollectTraces(c *core.Ctx, dir string, gens []string, perCfg, nRandom int) ([]*Trace, map[string]bool, bool) {
	v := mbModelVariant
	_ = v
	// 2. behaviours generated by TLC, replayed step by step on the real mailbox
	var traces []*Trace
	var mu sync.Mutex
	type job struct {
		sc    *mbScenario
		sched []mbStep
		seed  int64
		class string
		name  string
	}
	var jobs []job
	for gi, g := range gens {
		b, r, err := mbGenerate(c, dir, g, perCfg, c.Seed*131+int64(gi))
		if err != nil || b.scen == nil || (r != nil && r.Violation != "") {
			c.Broken("behaviour generation %s failed: %v %s\n%s", g, err, vio(r), tailOf(r))
			return nil, nil, false
		}
		c.Add("tlc_behaviours_generated", int64(len(b.behav)))
		for bi, bh := range b.behav {
			sc := *b.scen
			sc.RingSize = []int64{1, 2, 256}[bi%3]
			jobs = append(jobs, job{&sc, bh, c.Seed + int64(bi), "tlc-" + strings.TrimSuffix(g, ".cfg"), fmt.Sprintf("%s#%d", g, bi)})
		}
	}
	// 3. larger scenarios than TLC enumerates, random fine-grained schedules
	rng := rand.New(rand.NewSource(c.Seed))
	for i := 0; i < nRandom; i++ {
		jobs = append(jobs, job{mbRandomScenario(rng), nil, c.Seed*7919 + int64(i), "random", fmt.Sprintf("random#%d", i)})
	}
	sem := make(chan struct{}, 12)
	var wg sync.WaitGroup
	distinct := map[string]bool{}
	for _, j := range jobs {
		wg.Add(1)
		sem <- struct{}{}
		go func(j job) {
			defer wg.Done()
			defer func() { <-sem }()
			run := runMailboxScenario(j.sc, j.sched, j.seed)
			mu.Lock()
			defer mu.Unlock()
			if run.Stuck != "" {
				c.Broken("scenario %s: controller stuck: %s", j.name, run.Stuck)
				return
			}
			c.Add("evaluations", 1)
			c.Add("replayed_steps", int64(run.Steps))
			c.Add("conformance_steps", int64(run.Conform))
			c.Add("conformance_mismatch_steps", int64(run.Mismatch))
			c.Add("drift_behaviours", int64(run.Drift))
			c.Add("messages_handled", int64(run.Handled))
			if os.Getenv("VERIF_DEBUG") != "" && run.Drift > 0 && c.Get("debug_printed") < 2 {
				c.Add("debug_printed", 1)
				b, _ := json.Marshal(map[string]any{"name": j.name, "sc": j.sc, "events": run.Events})
				fmt.Println("DEBUG", string(b))
			}
			sig := traceSignature(run.Events)
			if !distinct[sig] && traceHasOverlap(run.Events) {
				distinct[sig] = true
			}
			traces = append(traces, &Trace{Events: run.Events, Class: j.class, Name: j.name,
				Scenario: map[string]any{"scenario": j.sc, "schedule": j.sched, "seed": j.seed}})
		}(j)
	}
	wg.Wait()
	if c.IsBroken() {
		return nil, nil, false
	}
	return traces, distinct, true
}

// ---- ungated: real cores, real memory ordering ----
//
// The controlled scheduler explores sequentially consistent interleavings of the hook points; it cannot see an effect
// that no such interleaving has (an operation that is not atomic any more and is re-ordered by the processor).  This run
// uses no controller and no hooks: cmd/pingpong is built WITHOUT the verif tag and run as a child process (see there).
// The trace given to MailboxMon holds, per mailbox, the last message only.
func runMailboxPingPong(d time.Duration, boxes int) ([]*Trace, int64, error) {
	dir := os.Getenv("VERIF_DIR")
	bin := filepath.Join(dir, ".build", fmt.Sprintf("pingpong-%d", os.Getpid()))
	build := exec.Command("go1.26", "build", "-o", bin, "./cmd/pingpong")
	build.Dir = filepath.Join(dir, "harness")
	if out, err := build.CombinedOutput(); err != nil {
		return nil, 0, fmt.Errorf("building cmd/pingpong without the verif tag: %v\n%s", err, out)
	}
	defer os.Remove(bin)
	out, err := exec.Command(bin, d.String(), fmt.Sprint(boxes)).Output()
	if err != nil {
		return nil, 0, fmt.Errorf("pingpong child: %v", err)
	}
	var traces []*Trace
	var total int64
	for _, line := range strings.Split(strings.TrimSpace(string(out)), "\n") {
		var r struct {
			Box  int   `json:"box"`
			N    int64 `json:"n"`
			Lost bool  `json:"lost"`
		}
		if json.Unmarshal([]byte(line), &r) != nil {
			continue
		}
		total += r.N
		id := fmt.Sprintf("m%d", r.N)
		ev := []map[string]any{{"e": "EnqCall", "th": "s1", "m": id}, {"e": "EnqRet", "th": "s1", "m": id}}
		ulen := 1
		if !r.Lost {
			ulen = 0
			ev = append(ev, map[string]any{"e": "Start", "th": "c1"}, map[string]any{"e": "HandleIn", "th": "c1", "m": id, "sender": "s1"}, map[string]any{"e": "HandleOut", "th": "c1", "m": id})
		}
		ev = append(ev, map[string]any{"e": "Quiescent", "paused": 0, "ulen": ulen, "live": 0})
		traces = append(traces, &Trace{Events: ev, Class: "mailbox-ping-pong-ungated", Name: fmt.Sprintf("pingpong#%d", r.Box),
			Scenario: map[string]any{"messages": r.N, "lost_after_message": r.Lost, "what": "uninstrumented build: one sender plays ping-pong with the handler of a real mailbox, two goroutines poll IsPaused"}})
	}
	if len(traces) != boxes {
		return nil, 0, fmt.Errorf("pingpong child reported %d of %d mailboxes", len(traces), boxes)
	}
	return traces, total, nil
}
