package checks

import (
	"context"
	"encoding/json"
	"errors"
	"fmt"
	"strings"
	"sync"
	"time"

	"github.com/kercylan98/vivid"
	"github.com/kercylan98/vivid/internal/actor"
	"github.com/kercylan98/vivid/internal/verifhook"
	"github.com/kercylan98/vivid/pkg/ves"
	"github.com/kercylan98/vivid/verifharness/core"
	"github.com/kercylan98/vivid/verifharness/tlc"
)

func init() { register("C20", checkC20) }

// C20: scheduled messages.  Sched.tla is model checked (key derivation, ownership, timing of firings);
// TLC-simulated behaviours of the model (API calls placed on a discrete clock) are replayed on real actor
// systems with one clock value = schedTick of real time; the recorded trace (schedule / stop / firing /
// delivery / dead letter, each with a monotonic timestamp) is validated by TLC against SchedMon.

const schedTick = 100 * time.Millisecond

var schedDefaults = map[string]any{"e": "", "a": "", "r": "", "x": "", "k": "", "s": "", "d": 0, "m": 0, "t": 0, "tb": 0, "v": 0}

type schedBehaviour struct {
	Paths []string `json:"paths"`
	Steps []struct {
		T int   `json:"t"`
		O []any `json:"o"`
	} `json:"steps"`
	// ArmOnDeath: every scripted actor arms a Once job for itself while it handles the OnKilled that names itself (the last
	// user code of an incarnation, on termination and on restart alike) - a job that must never fire
	ArmOnDeath bool `json:"arm_on_death,omitempty"`
}

type schedTok struct {
	X   *schedExec
	Tok int
	Pad string
}

type schedCmd struct {
	Op       string // once | loop | cron-invalid | cancel | clear | fail
	Ref      string
	Recv     vivid.ActorRef
	RecvName string
	D        time.Duration
	Tok      int
}

type schedKill struct{ Name string }

type schedExec struct {
	mu         sync.Mutex
	start      time.Time
	events     []map[string]any
	refs       map[string]vivid.ActorRef
	refsCh     chan struct{}
	names      []string
	failAt     map[string]int
	killAt     map[string]int
	arrived    map[int]int
	armOnDeath bool
	deathTok   int
}

func (x *schedExec) ms() int { return int(time.Since(x.start) / time.Millisecond) }

func (x *schedExec) ev(e map[string]any) {
	x.mu.Lock()
	x.events = append(x.events, e)
	x.mu.Unlock()
}

func padFor(tok int) string { return fmt.Sprintf("payload-%d-é✓", tok*7919) }

type schedChild struct {
	x    *schedExec
	name string
	inst int
}

func (a *schedChild) OnReceive(ctx vivid.ActorContext) {
	x := a.x
	switch m := ctx.Message().(type) {
	case *vivid.OnLaunch:
		if a.inst > 1 {
			x.mu.Lock()
			tb := x.failAt[a.name]
			x.mu.Unlock()
			x.ev(map[string]any{"e": "Stop", "a": a.name, "r": "*", "s": "restart", "tb": tb, "t": x.ms()})
		}
	case *vivid.OnKilled:
		if x.armOnDeath && m.Ref != nil && m.Ref.Equals(ctx.Ref()) {
			x.mu.Lock()
			x.deathTok++
			tok := 9000 + x.deathTok
			x.mu.Unlock()
			ref := fmt.Sprintf("on-death-%d", tok)
			tb := x.ms()
			if err := ctx.Scheduler().Once(ctx.Ref(), schedTick, schedTok{X: x, Tok: tok, Pad: padFor(tok)}, vivid.WithSchedulerReference(ref)); err == nil {
				x.ev(map[string]any{"e": "Sched", "a": a.name, "r": ref, "x": a.name, "k": "once", "d": int(schedTick / time.Millisecond), "m": tok, "tb": tb, "t": x.ms()})
			}
		}
	case schedTok:
		if m.X != x {
			return
		}
		x.mu.Lock()
		x.arrived[m.Tok]++
		x.mu.Unlock()
		x.ev(map[string]any{"e": "Deliv", "m": m.Tok, "a": a.name, "t": x.ms(), "v": b2i(m.Pad == padFor(m.Tok))})
	case schedCmd:
		s := ctx.Scheduler()
		switch m.Op {
		case "once", "loop":
			msg := schedTok{X: x, Tok: m.Tok, Pad: padFor(m.Tok)}
			tb := x.ms()
			var err error
			if m.Op == "once" {
				err = s.Once(m.Recv, m.D, msg, vivid.WithSchedulerReference(m.Ref))
			} else {
				err = s.Loop(m.Recv, m.D, msg, vivid.WithSchedulerReference(m.Ref))
			}
			if err != nil {
				x.ev(map[string]any{"e": "SchedError", "a": a.name, "r": m.Ref, "s": err.Error()})
				return
			}
			x.ev(map[string]any{"e": "Sched", "a": a.name, "r": m.Ref, "x": m.RecvName, "k": m.Op, "d": int(m.D / time.Millisecond), "m": m.Tok, "tb": tb, "t": x.ms()})
		case "cron-invalid":
			before := s.Exists(m.Ref)
			err := s.Cron(ctx.Ref(), "this is not a cron expression", schedTok{X: x, Tok: m.Tok, Pad: padFor(m.Tok)}, vivid.WithSchedulerReference(m.Ref))
			res := "ok"
			if err != nil {
				res = "other"
				if errors.Is(err, vivid.ErrorCronParse) {
					res = "parse-error"
				}
			}
			x.ev(map[string]any{"e": "CronBad", "a": a.name, "r": m.Ref, "s": res, "v": b2i(s.Exists(m.Ref) && !before)})
		case "cancel":
			known := s.Exists(m.Ref)
			tb := x.ms()
			err := s.Cancel(m.Ref)
			t := x.ms()
			res := "ok"
			if err != nil {
				res = "other"
				if errors.Is(err, vivid.ErrorNotFound) {
					res = "notfound"
				}
			}
			x.ev(map[string]any{"e": "Cancel", "a": a.name, "r": m.Ref, "s": res, "v": b2i(known)})
			if known {
				x.ev(map[string]any{"e": "Stop", "a": a.name, "r": m.Ref, "s": "cancel", "tb": tb, "t": t})
			}
		case "cron":
			// a valid expression with a seconds field: every second
			msg := schedTok{X: x, Tok: m.Tok, Pad: padFor(m.Tok)}
			tb := x.ms()
			if err := s.Cron(m.Recv, "* * * * * *", msg, vivid.WithSchedulerReference(m.Ref)); err != nil {
				x.ev(map[string]any{"e": "SchedError", "a": a.name, "r": m.Ref, "s": err.Error()})
				return
			}
			x.ev(map[string]any{"e": "Sched", "a": a.name, "r": m.Ref, "x": m.RecvName, "k": "cron", "d": 1000, "m": m.Tok, "tb": tb, "t": x.ms()})
		case "stall":
			_ = s.Loop(m.Recv, m.D, newRmsg(1, "tell", 16, randSrc(1)), vivid.WithSchedulerReference("stall-remote"))
		case "clear":
			tb := x.ms()
			s.Clear()
			x.ev(map[string]any{"e": "Stop", "a": a.name, "r": "*", "s": "clear", "tb": tb, "t": x.ms()})
		case "fail":
			x.mu.Lock()
			x.failAt[a.name] = x.ms()
			x.mu.Unlock()
			panic("scripted failure")
		}
	}
}

type schedTop struct{ x *schedExec }

func (t *schedTop) OnReceive(ctx vivid.ActorContext) {
	x := t.x
	switch m := ctx.Message().(type) {
	case *vivid.OnLaunch:
		ctx.EventStream().Subscribe(ctx, ves.DeathLetterEvent{})
		for _, name := range x.names {
			name := name
			inst := 0
			provider := vivid.ActorProviderFN(func() vivid.Actor {
				inst++
				return &schedChild{x: x, name: name, inst: inst}
			})
			ref, err := ctx.ActorOf(provider.Provide(), vivid.WithActorName(name), vivid.WithActorProvider(provider))
			if err != nil {
				x.ev(map[string]any{"e": "SpawnError", "a": name, "s": err.Error()})
				continue
			}
			x.mu.Lock()
			x.refs[name] = ref
			x.mu.Unlock()
		}
		close(x.refsCh)
	case schedKill:
		x.mu.Lock()
		ref := x.refs[m.Name]
		tb := x.ms()
		x.killAt[m.Name] = tb
		x.mu.Unlock()
		x.ev(map[string]any{"e": "RecvDown", "a": m.Name, "tb": tb})
		ctx.Kill(ref, false, "scripted kill")
	case *vivid.OnKilled:
		for name, ref := range x.refsSnapshot() {
			if m.Ref != nil && ref.Equals(m.Ref) {
				x.mu.Lock()
				tb := x.killAt[name]
				x.mu.Unlock()
				x.ev(map[string]any{"e": "Stop", "a": name, "r": "*", "s": "down", "tb": tb, "t": x.ms()})
			}
		}
	case ves.DeathLetterEvent:
		msg := m.Envelope.Message()
		if sm, ok := msg.(*actor.SchedulerMessage); ok {
			msg = sm.Message
		}
		if tk, ok := msg.(schedTok); ok && tk.X == x {
			x.mu.Lock()
			x.arrived[tk.Tok]++
			x.mu.Unlock()
			x.ev(map[string]any{"e": "DL", "m": tk.Tok, "t": x.ms()})
		}
	}
}

func (x *schedExec) refsSnapshot() map[string]vivid.ActorRef {
	x.mu.Lock()
	defer x.mu.Unlock()
	out := make(map[string]vivid.ActorRef, len(x.refs))
	for k, v := range x.refs {
		out[k] = v
	}
	return out
}

var schedHookOnce sync.Once

func installSchedHook() {
	schedHookOnce.Do(func() {
		verifhook.Set(func(point string, obj any, arg any) {
			if point != "sched.fire" {
				return
			}
			if tk, ok := obj.(schedTok); ok && tk.X != nil {
				tk.X.ev(map[string]any{"e": "Fire", "m": tk.Tok, "t": tk.X.ms()})
			}
		})
	})
}

// runSchedBehaviour replays one TLC behaviour in real time; healthy is false when the canary timer was late.
func runSchedBehaviour(b *schedBehaviour, remoteStall bool) (events []map[string]any, healthy bool, modelArrivals, realArrivals map[int]int, err error) {
	installSchedHook()
	x := &schedExec{refs: map[string]vivid.ActorRef{}, refsCh: make(chan struct{}), failAt: map[string]int{}, killAt: map[string]int{}, arrived: map[int]int{}, armOnDeath: b.ArmOnDeath}
	for _, p := range b.Paths {
		x.names = append(x.names, strings.TrimPrefix(p, "/"))
	}
	name := func(p any) string { return strings.TrimPrefix(fmt.Sprint(p), "/") }
	sysOpts := []vivid.ActorSystemOption{vivid.WithActorSystemContext(context.Background()), vivid.WithActorSystemLogger(silentLogger), vivid.WithActorSystemStopTimeout(2 * time.Second)}
	if remoteStall {
		ensureRmsg()
		sysOpts = append(sysOpts, vivid.WithActorSystemRemoting(fmt.Sprintf("127.0.0.1:%d", freePort())))
	}
	sys := actor.NewSystem(sysOpts...)
	if err := sys.Start(); err != nil {
		return nil, false, nil, nil, err
	}
	defer func() { go sys.Stop(2 * time.Second) }()
	x.start = time.Now()
	maker := vivid.SupervisionStrategyDecisionMakerFN(func(sctx vivid.SupervisionContext) (vivid.SupervisionDecision, string) {
		return vivid.SupervisionDecisionRestart, "scripted"
	})
	top, err := sys.ActorOf(&schedTop{x: x}, vivid.WithActorName("t"), vivid.WithActorSupervisionStrategy(vivid.OneForOneStrategy(maker)))
	if err != nil {
		return nil, false, nil, nil, err
	}
	select {
	case <-x.refsCh:
	case <-time.After(5 * time.Second):
		return nil, false, nil, nil, fmt.Errorf("scenario actors did not start")
	}
	refs := x.refsSnapshot()
	if len(refs) != len(x.names) {
		return x.events, false, nil, nil, fmt.Errorf("could not spawn all scenario actors: %v", x.events)
	}
	// canary: how late do timers fire while this scenario runs?
	stopCanary := make(chan struct{})
	maxLate := time.Duration(0)
	var cwg sync.WaitGroup
	cwg.Add(1)
	go func() {
		defer cwg.Done()
		for {
			select {
			case <-stopCanary:
				return
			default:
			}
			t0 := time.Now()
			time.Sleep(4 * time.Millisecond)
			if late := time.Since(t0) - 4*time.Millisecond; late > maxLate {
				maxLate = late
			}
		}
	}()
	if remoteStall {
		// one more job, not judged: a loop whose receiver lives on a node nobody listens on; every firing of it
		// spends seconds in connection attempts - the other jobs of the system must not notice
		dead, err := sys.CreateRef(fmt.Sprintf("127.0.0.1:%d", freePort()), "/nobody")
		if err != nil {
			return nil, false, nil, nil, err
		}
		sys.Tell(refs[x.names[0]], schedCmd{Op: "stall", Recv: dead, D: schedTick})
		time.Sleep(10 * time.Millisecond)
	}
	base := time.Now()
	x.mu.Lock()
	x.start = base
	x.mu.Unlock()
	modelArrivals = map[int]int{}
	idx, lastT, maxT := 0, -1, 0
	for _, st := range b.Steps {
		if st.T != lastT {
			idx, lastT = 0, st.T
		}
		if st.T > maxT {
			maxT = st.T
		}
		kind := fmt.Sprint(st.O[0])
		switch kind {
		case "tick", "init":
			continue
		case "deliver", "deadletter":
			modelArrivals[int(st.O[4].(float64))]++
			continue
		}
		at := base.Add(time.Duration(st.T)*schedTick + time.Duration(idx)*4*time.Millisecond)
		idx++
		if d := time.Until(at); d > 0 {
			time.Sleep(d)
		}
		a := name(st.O[1])
		switch kind {
		case "sched":
			rn := name(st.O[3])
			sys.Tell(refs[a], schedCmd{Op: fmt.Sprint(st.O[4]), Ref: fmt.Sprint(st.O[2]), Recv: refs[rn], RecvName: rn,
				D: time.Duration(st.O[5].(float64)) * schedTick, Tok: int(st.O[6].(float64))})
		case "cron":
			rn := name(st.O[3])
			sys.Tell(refs[a], schedCmd{Op: "cron", Ref: fmt.Sprint(st.O[2]), Recv: refs[rn], RecvName: rn, Tok: int(st.O[4].(float64))})
		case "cron-invalid":
			sys.Tell(refs[a], schedCmd{Op: "cron-invalid", Ref: fmt.Sprint(st.O[2]), Tok: 1000 + idx})
		case "cancel":
			sys.Tell(refs[a], schedCmd{Op: "cancel", Ref: fmt.Sprint(st.O[2])})
		case "clear":
			sys.Tell(refs[a], schedCmd{Op: "clear"})
		case "restart":
			sys.Tell(refs[a], schedCmd{Op: "fail"})
		case "kill":
			sys.Tell(top, schedKill{Name: a})
		}
	}
	time.Sleep(time.Until(base.Add(time.Duration(maxT+1)*schedTick + 300*time.Millisecond)))
	close(stopCanary)
	cwg.Wait()
	healthy = maxLate < 25*time.Millisecond
	x.ev(map[string]any{"e": "End", "t": x.ms(), "v": b2i(healthy)})
	x.mu.Lock()
	events = append([]map[string]any{}, x.events...)
	// arrivals within the model's horizon (the run continues for a tail after the last clock value)
	realArrivals = map[int]int{}
	horizon := maxT*int(schedTick/time.Millisecond) + 60
	for _, e := range events {
		if (e["e"] == "Deliv" || e["e"] == "DL") && e["t"].(int) <= horizon {
			realArrivals[e["m"].(int)]++
		}
	}
	x.mu.Unlock()
	return events, healthy, modelArrivals, realArrivals, nil
}

func checkC20(c *core.Ctx) {
	c.Ev.Level = "model_checking"
	dir, err := c.SpecDir("sched")
	if err != nil {
		c.Broken("spec dir: %v", err)
		return
	}
	if !os_skipMC() {
		cfgs := []string{"MC_Sched_pair.cfg"}
		for _, cfg := range cfgs {
			r, err := tlc.Exec(tlc.Run{Dir: dir, Module: "MC_Sched", Config: cfg, Timeout: 15 * time.Minute})
			if err != nil || r.Violation != "" {
				c.Broken("model checking %s failed on the model of record: %v %s\n%s", cfg, err, vio(r), tailOf(r))
				return
			}
			c.MC(cfg, r)
		}
		// the model with the key derivation path ++ ":" ++ reference must show the collision (self-test of the properties)
		r, err := tlc.Exec(tlc.Run{Dir: dir, Module: "MC_Sched", Config: "MC_Sched_concat.cfg", Timeout: 5 * time.Minute})
		if err != nil {
			c.Broken("model checking MC_Sched_concat: %v\n%s", err, tailOf(r))
			return
		}
		c.Set("concat_key_model_violates", r.ViolatedName)
	}
	var traces []*Trace
	seen := map[string]bool{}
	unhealthy, mismatched := 0, 0
	for gi, gen := range []string{"Gen_Sched_plain.cfg", "Gen_Sched_colon.cfg"} {
		var behs []*schedBehaviour
		var perr error
		num := core.Pick(c, 90, 1200)
		if gi == 1 {
			num = core.Pick(c, 40, 400)
		}
		r, err := tlc.Exec(tlc.Run{Dir: dir, Module: "MC_SchedGen", Config: gen, Workers: 1, Timeout: 10 * time.Minute,
			Args: []string{"-simulate", fmt.Sprintf("num=%d", num), "-depth", "80", "-seed", fmt.Sprint(c.Seed*3 + int64(gi))},
			OnLine: func(s string) {
				if !strings.HasPrefix(s, "BEHAV ") {
					return
				}
				if seen[s] {
					return
				}
				seen[s] = true
				b := &schedBehaviour{}
				if err := json.Unmarshal([]byte(s[6:]), b); err != nil {
					perr = err
					return
				}
				behs = append(behs, b)
			}})
		if err != nil || perr != nil || r.Violation != "" {
			c.Broken("behaviour generation %s: %v %v %s\n%s", gen, err, perr, vio(r), tailOf(r))
			return
		}
		c.Add("tlc_behaviours_generated", int64(len(behs)))
		var mu sync.Mutex
		var wg sync.WaitGroup
		var again []int // behaviours during whose run the canary timer was late: run once more, fewer at a time
		replay := func(bi int, b *schedBehaviour, last bool) {
			{
				b.ArmOnDeath = bi%3 == 1
				ev, healthy, model, real, err := runSchedBehaviour(b, false)
				mu.Lock()
				defer mu.Unlock()
				if err != nil {
					c.Broken("scheduler replay %s#%d: %v", gen, bi, err)
					return
				}
				if !healthy && !last {
					again = append(again, bi)
					return
				}
				c.Add("evaluations", 1)
				if !healthy {
					unhealthy++ // timers were late on this machine during both runs: nothing is concluded from it
					return
				}
				for tok, n := range model {
					if d := real[tok] - n; d < -1 || d > 1 {
						mismatched++
					}
				}
				cls := "sched-plain"
				if gi == 1 {
					cls = "sched-colon-in-name"
				}
				traces = append(traces, &Trace{Events: ev, Class: cls, Name: fmt.Sprintf("%s#%d", gen, bi), Scenario: b})
			}
		}
		sem := make(chan struct{}, 8)
		for bi, b := range behs {
			wg.Add(1)
			sem <- struct{}{}
			go func(bi int, b *schedBehaviour) {
				defer wg.Done()
				defer func() { <-sem }()
				replay(bi, b, false)
			}(bi, b)
		}
		wg.Wait()
		// a loaded machine: the runs that could not be judged are repeated two at a time
		sem2 := make(chan struct{}, 2)
		c.Add("runs_repeated_timers_late", int64(len(again)))
		for _, bi := range again {
			wg.Add(1)
			sem2 <- struct{}{}
			go func(bi int) {
				defer wg.Done()
				defer func() { <-sem2 }()
				replay(bi, behs[bi], true)
			}(bi)
		}
		wg.Wait()
	}
	// directed: valid cron expressions (every second), cancelled / cleared / left running; 3.5 s each, run in parallel
	{
		var wg sync.WaitGroup
		var mu sync.Mutex
		for i := 0; i < core.Pick(c, 3, 12); i++ {
			wg.Add(1)
			go func(i int) {
				defer wg.Done()
				b := &schedBehaviour{Paths: []string{"/a", "/b"}}
				add := func(t int, o ...any) {
					b.Steps = append(b.Steps, struct {
						T int   `json:"t"`
						O []any `json:"o"`
					}{T: t, O: o})
				}
				add(0, "cron", "/a", "c1", "/b", float64(1))
				add(0, "cron", "/b", "c2", "/b", float64(2))
				switch i % 4 {
				case 0:
					add(14, "cancel", "/a", "c1", "ok")
				case 1:
					add(16, "clear", "/b")
				case 2:
					add(15, "kill", "/a")
				case 3:
					add(13, "restart", "/b")
				}
				add(34, "tick")
				ev, healthy, _, _, err := runSchedBehaviour(b, false)
				mu.Lock()
				defer mu.Unlock()
				if err != nil {
					c.Broken("scheduler replay cron#%d: %v", i, err)
					return
				}
				c.Add("evaluations", 1)
				if !healthy {
					unhealthy++
					return
				}
				traces = append(traces, &Trace{Events: ev, Class: "sched-cron-every-second", Name: fmt.Sprintf("cron#%d", i), Scenario: b})
			}(i)
		}
		wg.Wait()
	}
	// directed: local jobs next to a job whose remote receiver is unreachable
	for i := 0; i < core.Pick(c, 2, 8) && !c.IsBroken(); i++ {
		b := &schedBehaviour{Paths: []string{"/a", "/b"}}
		add := func(t int, o ...any) {
			b.Steps = append(b.Steps, struct {
				T int   `json:"t"`
				O []any `json:"o"`
			}{T: t, O: o})
		}
		add(0, "sched", "/b", "r", "/b", "once", float64(2+i%2), float64(1), true)
		add(0, "sched", "/b", "s", "/a", "loop", float64(1), float64(2), true)
		add(1, "sched", "/a", "r", "/b", "once", float64(3), float64(3), true)
		add(6, "tick")
		ev, healthy, _, _, err := runSchedBehaviour(b, true)
		if err != nil {
			c.Broken("scheduler replay remote-stall#%d: %v", i, err)
			break
		}
		c.Add("evaluations", 1)
		if !healthy {
			unhealthy++
			continue
		}
		traces = append(traces, &Trace{Events: ev, Class: "sched-next-to-unreachable-remote-receiver", Name: fmt.Sprintf("remote-stall#%d", i), Scenario: b})
	}
	if c.IsBroken() {
		return
	}
	c.Set("runs_discarded_timers_late", unhealthy)
	c.Set("model_vs_real_arrival_count_differences", mismatched)
	if unhealthy*3 > len(traces)+unhealthy {
		c.Broken("timers were late in %d of %d runs: the machine is too loaded to judge real-time scenarios", unhealthy, len(traces)+unhealthy)
		return
	}
	res := ValidateTraces(c, "sched", "SchedMon", "SchedMon.cfg", traces, schedDefaults)
	res.Report(c, "SchedMon")
	c.Add("traces_validated_against_impl", int64(res.Validated))
	c.Set("distinct_nontrivial", len(traces))
	c.Set("rule", "TLC-simulated behaviours of Sched (at most two API calls per clock value, no re-use of a reference whose job is queued except on top of a live loop job, where the call is a no-op), de-duplicated; each is non-trivial (at least one scheduled job)")
	for i := 0; i < len(traces) && i < 2; i++ {
		c.Sample(map[string]any{"behaviour": traces[i].Scenario, "trace_head": head(traces[i].Events, 12)})
	}
	c.Assume("one model clock value = 100 ms of real time; a run is judged only if a canary timer was never more than 25 ms late; margins: a firing under way when a stop took effect may surface up to 35 ms (hook) / 150 ms (delivery) later; lower bounds use 45 ms slack")
	c.Assume("go-quartz (third party) provides the timer queue; its clock cannot be virtualised without changing the module")
}
