package checks

import (
	"encoding/json"
	"fmt"
	"os"
	"strings"

	"github.com/kercylan98/vivid/verifharness/core"
)

// monitorTable: monitor module -> where it lives and the defaults of its trace lines.
var monitorTable = map[string]struct {
	spec, cfg string
	defaults  func() map[string]any
}{
	"CodecMon":    {"wire", "CodecMon.cfg", func() map[string]any { return codecDefaults }},
	"MailboxMon":  {"mailbox", "MailboxMon.cfg", func() map[string]any { return mbDefaults }},
	"LifeMon":     {"syslife", "LifeMon.cfg", func() map[string]any { return lifeDefaults }},
	"SchedMon":    {"sched", "SchedMon.cfg", func() map[string]any { return schedDefaults }},
	"RingMon":     {"ring", "RingMon.cfg", func() map[string]any { return ringDefaults }},
	"FaultMon":    {"remoting", "FaultMon.cfg", func() map[string]any { return deliveryDefaults }},
	"DeliveryMon": {"remoting", "DeliveryMon.cfg", func() map[string]any { return deliveryDefaults }},
	"TransMon":    {"loctrans", "TransMon.cfg", func() map[string]any { return transDefaults }},
	"ConvergeMon": {"gossip", "ConvergeMon.cfg", func() map[string]any { return gossipDefaults }},
	"AskMon":      {"future", "AskMon.cfg", func() map[string]any { return askDefaults }},
	"AskLifeMon":  {"future", "AskLifeMon.cfg", func() map[string]any { return askLifeDefaults }},
	"ConfineMon":  {"confine", "ConfineMon.cfg", func() map[string]any { return confineDefaults }},
}

func init() { subcommands["--replay"] = replayFile }

// replayFile re-validates the trace recorded in a replay file (written next to a VIOLATION line) against its
// TLA+ monitor and prints the scenario, the rule and the offending event. Exit 1 when the monitor rejects it again.
func replayFile(args []string) int {
	if len(args) < 1 {
		fmt.Println("usage: vcheck --replay <replay file>")
		return 2
	}
	b, err := os.ReadFile(args[0])
	if err != nil {
		fmt.Println("BROKEN-CHECK", err)
		return 2
	}
	var rp struct {
		Property string           `json:"property"`
		Monitor  string           `json:"monitor"`
		Class    string           `json:"class"`
		Detail   string           `json:"detail"`
		Scenario any              `json:"scenario"`
		Trace    []map[string]any `json:"trace"`
	}
	if err := json.Unmarshal(b, &rp); err != nil {
		fmt.Println("BROKEN-CHECK", err)
		return 2
	}
	sc, _ := json.Marshal(rp.Scenario)
	fmt.Printf("property %s, monitor %s, class %s\n%s\nscenario: %.1500s\n", rp.Property, rp.Monitor, rp.Class, rp.Detail, sc)
	mod := strings.SplitN(rp.Monitor, ".", 2)[0]
	if mod == "ProcessCrash" || len(rp.Trace) == 0 {
		fmt.Println("(no trace to validate: the violation is a crash of the process or a table verdict; see 'detail' and 'scenario')")
		return 0
	}
	spec, cfg, defaults := "", "", map[string]any(nil)
	if e, ok := monitorTable[mod]; ok {
		spec, cfg, defaults = e.spec, e.cfg, e.defaults()
	} else if _, err := os.Stat(core.VerifDir() + "/specs/asmon/" + mod + ".tla"); err == nil {
		spec, cfg, defaults = "asmon", mod+".cfg", asDefaults
	} else {
		fmt.Printf("no monitor module %q known to the replay command\n", mod)
		return 2
	}
	// JSON numbers come back as float64: the monitors compare integers
	for _, e := range rp.Trace {
		for k, v := range e {
			if f, ok := v.(float64); ok && f == float64(int64(f)) {
				e[k] = int64(f)
			}
		}
	}
	c, err := core.NewCtx(rp.Property, "quick")
	if err != nil {
		fmt.Println("BROKEN-CHECK", err)
		return 2
	}
	defer c.Scratch.Close()
	res := ValidateTraces(c, spec, mod, cfg, []*Trace{{Events: rp.Trace, Class: rp.Class, Name: "replay", Scenario: rp.Scenario}}, defaults)
	if c.IsBroken() {
		fmt.Println("BROKEN-CHECK the monitor did not run on the recorded trace")
		return 2
	}
	if len(res.Rejected) == 0 {
		fmt.Println("the monitor accepts the recorded trace (the rule may belong to another configuration of the monitor)")
		return 0
	}
	rj := res.Rejected[0]
	fmt.Printf("REJECTED again: rule %s at event %d\n", rj.Rule, rj.Line)
	lo := rj.Line - 6
	if lo < 0 {
		lo = 0
	}
	for i := lo; i < rj.Line && i < len(rp.Trace); i++ {
		eb, _ := json.Marshal(rp.Trace[i])
		fmt.Printf("  %4d %s\n", i+1, eb)
	}
	return 1
}
