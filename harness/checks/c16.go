package checks

import (
	"encoding/json"
	"fmt"
	"os"
	"path/filepath"
	"runtime"
	"strings"
	"sync"
	"sync/atomic"
	"time"

	"github.com/kercylan98/vivid/internal/cluster"
	"github.com/kercylan98/vivid/internal/messages"
	"github.com/kercylan98/vivid/verifharness/core"
	"github.com/kercylan98/vivid/verifharness/tlc"
)

func init() { register("C16", checkC16) }

const vvMax = uint64(1<<63 - 1)

// vvRankValues maps the ranks 0..k of the model to real counters: 0,1,2,...,MAX-1,MAX.
func vvRankValues(k int) []uint64 {
	vals := make([]uint64, k+1)
	for r := 0; r <= k; r++ {
		vals[r] = uint64(r)
	}
	if k >= 2 {
		vals[k] = vvMax
		vals[k-1] = vvMax - 1
	}
	return vals
}

type vvDomain struct {
	Nodes []string         `json:"nodes"`
	K     int              `json:"k"`
	Vecs  []map[string]int `json:"vecs"`
}

// vvBuild constructs a real VersionVector with exactly the given entries (explicit zeros and
// the maximum counter included) by deserialising it with the real reader.
// vvIDPrefix is the width of the length prefix the real writer puts in front of a node id (learned from the writer, so
// that a consistent change of the wire format does not stop the check)
var vvIDPrefix = func() int {
	v, err := cluster.NewVersionVector().Increment("n1")
	if err != nil {
		return 4
	}
	w := messages.NewWriter()
	if err := cluster.WriteVersionVector(w, v); err != nil {
		return 4
	}
	if p := len(w.Bytes()) - 4 - 2 - 8; p == 1 || p == 2 || p == 4 {
		return p
	}
	return 4
}()

func vvBuild(nodes []string, ranks map[string]int, vals []uint64) (cluster.VersionVector, error) {
	w := messages.NewWriter()
	n := 0
	for _, nd := range nodes {
		if ranks[nd] >= 0 {
			n++
		}
	}
	w.WriteUint32(uint32(n))
	for _, nd := range nodes { // nodes are sorted by TLC's SetToSeq order; order is irrelevant for the reader
		if r := ranks[nd]; r >= 0 {
			switch vvIDPrefix {
			case 1:
				w.Write(uint8(len(nd)))
				w.WriteBytes([]byte(nd))
			case 2:
				w.WriteUint16(uint16(len(nd)))
				w.WriteBytes([]byte(nd))
			default:
				w.WriteString(nd)
			}
			w.WriteUint64(vals[r])
		}
	}
	if err := w.Err(); err != nil {
		return cluster.VersionVector{}, err
	}
	v, err := cluster.ReadVersionVector(messages.NewReader(w.Bytes()))
	if err == nil {
		return v, nil
	}
	// The reader refused a vector the API can produce (e.g. one holding the maximum counter). Build it
	// the other legitimate way - maximum-1 through the reader, then Increment - so that the refusal shows
	// up as a failed round trip in the tables instead of stopping the check.
	top := len(vals) - 1
	lower := map[string]int{}
	var bump []string
	for nd, r := range ranks {
		lower[nd] = r
		if r == top && top >= 1 {
			lower[nd] = top - 1
			bump = append(bump, nd)
		}
	}
	if len(bump) == 0 {
		return cluster.VersionVector{}, err
	}
	v, err2 := vvBuild(nodes, lower, vals)
	if err2 != nil {
		return cluster.VersionVector{}, err
	}
	for _, nd := range bump {
		if v, err2 = v.Increment(nd); err2 != nil {
			return cluster.VersionVector{}, err
		}
	}
	return v, nil
}

// vvKey renders a real vector as ranks over the node universe ("-1" absent, "-2" a counter
// outside the rank table or an entry for an unknown node).
func vvKey(nodes []string, v cluster.VersionVector, vals []uint64) string {
	known := map[string]bool{}
	out := ""
	for _, nd := range nodes {
		known[nd] = true
		r := -1
		if v.ContainsNode(nd) {
			r = -2
			c := v.Get(nd)
			for i, x := range vals {
				if x == c {
					r = i
				}
			}
		}
		out += fmt.Sprintf("%d,", r)
	}
	for _, nd := range v.Nodes() {
		if !known[nd] {
			out += "?" + nd
		}
	}
	return out
}

func vvSer(v cluster.VersionVector) string {
	w := messages.NewWriter()
	if err := cluster.WriteVersionVector(w, v); err != nil {
		return "ERR:" + err.Error()
	}
	return string(w.Bytes())
}

var vvOrd = map[cluster.VersionOrder]string{
	cluster.VersionEqual: "EQ", cluster.VersionBefore: "LT", cluster.VersionAfter: "GT", cluster.VersionConcurrent: "CC",
}

func ordName(o cluster.VersionOrder) string {
	if s, ok := vvOrd[o]; ok {
		return s
	}
	return fmt.Sprintf("?%d", int(o))
}

func checkC16(c *core.Ctx) {
	dir, err := c.SpecDir("vv")
	if err != nil {
		c.Broken("spec dir: %v", err)
		return
	}
	// 1. model checking of the transcription: laws on every triple of the domain; writes domain.json
	cfg := core.Pick(c, "MC_VV_quick.cfg", "MC_VV_thorough.cfg")
	r, err := tlc.Exec(tlc.Run{Dir: dir, Module: "MC_VV", Config: cfg, Timeout: core.Pick(c, 3*time.Minute, 25*time.Minute)})
	if err != nil || r.Violation != "" {
		c.Broken("MC_VV (%s) did not pass on the model: %v %s %s\n%s", cfg, err, vio(r), "", tailOf(r))
		return
	}
	c.MC("MC_VV/"+cfg, r)
	if c.Thorough() {
		// reachable-only variant: vectors produced by the API operations alone
		r2, err := tlc.Exec(tlc.Run{Dir: dir, Module: "MC_VV", Config: "MC_VV_reach.cfg", Timeout: 10 * time.Minute})
		if err != nil || r2.Violation != "" {
			c.Broken("MC_VV reach did not pass on the model: %v %s\n%s", err, vio(r2), tailOf(r2))
			return
		}
		c.MC("MC_VV/MC_VV_reach.cfg", r2)
		// domain.json was rewritten by the reach config: regenerate it from the main config's constants
		if _, err := tlc.Exec(tlc.Run{Dir: dir, Module: "MC_VV", Config: cfg, Timeout: time.Minute, Args: []string{"-simulate", "num=1", "-depth", "1"}}); err != nil {
			c.Broken("regenerating domain: %v", err)
			return
		}
	}
	// 2. evaluate the real implementation on TLC's domain
	var dom vvDomain
	b, err := os.ReadFile(filepath.Join(dir, "domain.json"))
	if err != nil {
		c.Broken("domain.json: %v", err)
		return
	}
	if err := json.Unmarshal(b, &dom); err != nil {
		c.Broken("domain.json: %v", err)
		return
	}
	vals := vvRankValues(dom.K)
	n := len(dom.Vecs)
	vecs := make([]cluster.VersionVector, n)
	index := map[string]int{}
	for i, rk := range dom.Vecs {
		v, err := vvBuild(dom.Nodes, rk, vals)
		if err != nil {
			c.Broken("cannot build domain vector %v: %v", rk, err)
			return
		}
		vecs[i] = v
		index[vvKey(dom.Nodes, v, vals)] = i + 1
	}
	if len(index) != n {
		c.Broken("domain vectors are not distinguishable through the API (%d of %d)", len(index), n)
		return
	}
	ser := make([]string, n)
	for i := range vecs {
		ser[i] = vvSer(vecs[i])
	}
	mutated := 0
	var mutatedAt []string
	chk := func(op string, idx ...int) {
		for _, i := range idx {
			if vvSer(vecs[i]) != ser[i] {
				mutated++
				if len(mutatedAt) < 5 {
					mutatedAt = append(mutatedAt, fmt.Sprintf("%s operand %v", op, dom.Vecs[i]))
				}
				// restore so that later cells are evaluated on the intended operand
				vecs[i], _ = vvBuild(dom.Nodes, dom.Vecs[i], vals)
			}
		}
	}
	// wireSame: v written and read back compares Equal with v and holds the same counter for every node of the universe
	wireSame := func(v cluster.VersionVector) bool {
		w := messages.NewWriter()
		if err := cluster.WriteVersionVector(w, v); err != nil {
			return false
		}
		rd := messages.NewReader(w.Bytes())
		back, err := cluster.ReadVersionVector(rd)
		if err != nil || rd.RemainingSize() != 0 || back.Compare(v) != cluster.VersionEqual || back.Size() != v.Size() {
			return false
		}
		for _, nd := range v.Nodes() {
			if back.Get(nd) != v.Get(nd) {
				return false
			}
		}
		return true
	}
	// node ids of unusual length, built through the API
	longIds := 0
	for _, ln := range []int{1, 17, 255, 256} {
		id := strings.Repeat("a", ln)
		if ln >= 6 {
			id = strings.Repeat("a", ln-5) + ":7000"
		}
		v, err := cluster.NewVersionVector().Increment(id)
		if err != nil {
			continue // not a legal id for this build: nothing to round-trip
		}
		if v, err = v.Increment(id); err != nil || !wireSame(v) {
			longIds++
		}
	}
	cmp := make([][]string, n)
	mrgWire := make([][]bool, n)
	mrg := make([][]int, n)
	rt := make([]int, n)
	inc := make([][]map[string]any, n)
	var evals int64
	for i := 0; i < n; i++ {
		cmp[i] = make([]string, n)
		mrg[i] = make([]int, n)
		mrgWire[i] = make([]bool, n)
		for j := 0; j < n; j++ {
			cmp[i][j] = ordName(vecs[i].Compare(vecs[j]))
			chk("Compare", i, j)
			m := vecs[i].Merge(vecs[j])
			chk("Merge", i, j)
			mrg[i][j] = index[vvKey(dom.Nodes, m, vals)]
			mrgWire[i][j] = wireSame(m)
			evals += 3
		}
		// serialisation round trip
		w := messages.NewWriter()
		if err := cluster.WriteVersionVector(w, vecs[i]); err == nil {
			rd := messages.NewReader(w.Bytes())
			if back, err := cluster.ReadVersionVector(rd); err == nil && rd.RemainingSize() == 0 {
				rt[i] = index[vvKey(dom.Nodes, back, vals)]
			}
		}
		chk("Write", i)
		inc[i] = make([]map[string]any, len(dom.Nodes))
		for p, nd := range dom.Nodes {
			o := map[string]any{"err": false, "cmpNewOld": "", "cmpOldNew": "", "plusOne": false, "othersSame": false, "wire": false}
			nv, err := vecs[i].Increment(nd)
			chk("Increment", i)
			if err != nil {
				o["err"] = true
			} else {
				o["cmpNewOld"] = ordName(nv.Compare(vecs[i]))
				o["cmpOldNew"] = ordName(vecs[i].Compare(nv))
				o["plusOne"] = nv.Get(nd) == vecs[i].Get(nd)+1
				same := true
				for _, other := range dom.Nodes {
					if other != nd && nv.Get(other) != vecs[i].Get(other) {
						same = false
					}
				}
				o["othersSame"] = same
				o["wire"] = wireSame(nv)
			}
			inc[i][p] = o
			evals += 3
		}
	}
	largeMerge, concurrentWire := vvLargeMerge(), vvConcurrentWire()
	evals += 8
	tables := map[string]any{"n": n, "nodes": dom.Nodes, "k": dom.K, "vecs": dom.Vecs,
		"cmp": cmp, "merge": mrg, "rt": rt, "inc": inc, "mutated": mutated, "mergeWire": mrgWire, "longIds": longIds,
		"largeMerge": largeMerge, "concurrentWire": concurrentWire}
	tb, _ := json.Marshal(tables)
	if err := os.WriteFile(filepath.Join(dir, "tables.json"), tb, 0o644); err != nil {
		c.Broken("tables.json: %v", err)
		return
	}
	// 3. TLC judges the implementation's tables with the monitor
	mr, err := tlc.Exec(tlc.Run{Dir: dir, Module: "VVMon", Config: "VVMon.cfg", Timeout: core.Pick(c, 3*time.Minute, 30*time.Minute), DumpJSON: "cex.json"})
	if err != nil || mr.TimedOut || (mr.Violation != "" && mr.Violation != "invariant") {
		c.Broken("VVMon did not run: %v %s\n%s", err, vio(mr), tailOf(mr))
		return
	}
	c.Add("evaluations", evals)
	c.Set("domain_vectors", n)
	c.Set("pairs", n*n)
	c.Set("triples", n*n*n)
	c.Set("distinct_nontrivial", countNontrivialPairs(dom))
	c.Set("rule", "every vector of the TLC-generated domain [Nodes -> {absent,0..K}] (ranks mapped to 0,1,..,MAX-1,MAX) is built with the real reader; every pair is fed to Compare and Merge, every vector to Increment(node) and Write/Read; all triples are judged through the tables by VVMon. A pair is non-trivial when the two vectors differ.")
	c.Set("traces_validated_against_impl", 1)
	c.Set("monitor_states", mr.Distinct)
	c.Set("exhaustive", true)
	c.Sample(map[string]any{"a": dom.Vecs[n/3], "b": dom.Vecs[2*n/3], "compare": cmp[n/3][2*n/3], "merge": dom.Vecs[max(mrg[n/3][2*n/3]-1, 0)]})
	c.Sample(map[string]any{"a": dom.Vecs[n-1], "increment": inc[n-1]})
	c.Assume("counters are represented by ranks mapped order-preservingly to {0,1,2,..,MAX-1,MAX}; other counter values are not evaluated")
	c.Assume("node ids are short ASCII strings")
	if mr.Violation == "invariant" {
		detail := fmt.Sprintf("law %s fails on the implementation's tables", mr.ViolatedName)
		var at any
		if sts, err := tlc.ReadDumpTrace(filepath.Join(dir, "cex.json")); err == nil && len(sts) > 0 {
			last := sts[len(sts)-1]
			var i, j int
			_ = json.Unmarshal(last["i"], &i)
			_ = json.Unmarshal(last["j"], &j)
			cell := map[string]any{"i": i, "j": j}
			if i >= 1 && i <= n {
				cell["a"] = dom.Vecs[i-1]
			}
			if j >= 1 && j <= n {
				cell["b"] = dom.Vecs[j-1]
				cell["compare"] = cmp[i-1][j-1]
				cell["merge_index"] = mrg[i-1][j-1]
			}
			at = cell
			detail += fmt.Sprintf(" at %v", cell)
		}
		if mr.ViolatedName == "OperandsUntouched" {
			detail += fmt.Sprintf(" (%v)", mutatedAt)
		}
		c.Violate(core.Violation{Monitor: "VVMon." + mr.ViolatedName, Class: "tables", Detail: detail, Scenario: at})
	}
}

func countNontrivialPairs(d vvDomain) int {
	n := len(d.Vecs)
	return n*n - n
}

func vio(r *tlc.Result) string {
	if r == nil {
		return "<no result>"
	}
	s := r.Violation
	if r.TimedOut {
		s += " (timed out)"
	}
	if r.ViolatedName != "" {
		s += " " + r.ViolatedName
	}
	return s
}

func tailOf(r *tlc.Result) string {
	if r == nil {
		return ""
	}
	o := r.Output
	if len(o) > 3000 {
		o = o[len(o)-3000:]
	}
	return o
}

// vvLargeMerge: "any set of node ids" includes large ones.  Two vectors with 40 000 ids each, disjoint, and a small third
// one; the observations that fail are counted: the merge holds every id of both, it is an upper bound of both, both
// orders give the same vector, a later merge with the small vector keeps everything.
func vvLargeMerge() int {
	mk := func(prefix string, n int) cluster.VersionVector {
		// through the real reader (Increment copies the vector: 40 000 of them would take minutes)
		nodes := make([]string, n)
		ranks := map[string]int{}
		for i := range nodes {
			nodes[i] = fmt.Sprintf("%s-%05d", prefix, i)
			ranks[nodes[i]] = 0
		}
		v, err := vvBuild(nodes, ranks, []uint64{1})
		if err != nil {
			return cluster.NewVersionVector()
		}
		return v
	}
	a, b, small := mk("a", 40000), mk("b", 40000), mk("c", 3)
	fails := 0
	ab, ba := a.Merge(b), b.Merge(a)
	if ab.Size() != 80000 || ba.Size() != 80000 {
		fails++
	}
	le := func(o cluster.VersionOrder) bool { return o == cluster.VersionBefore || o == cluster.VersionEqual }
	if !le(a.Compare(ab)) || !le(b.Compare(ab)) {
		fails++
	}
	if ab.Compare(ba) != cluster.VersionEqual {
		fails++
	}
	if abc := ab.Merge(small); abc.Size() != 80003 || !le(small.Compare(abc)) || abc.Compare(small.Merge(ab)) != cluster.VersionEqual {
		fails++
	}
	return fails
}

// vvConcurrentWire: vectors are serialised from many goroutines at once (gossip does); every goroutine round-trips its own
// vector many times and counts the results that differ from what it wrote.
func vvConcurrentWire() int {
	var fails atomic.Int64
	var wg sync.WaitGroup
	for g := 0; g < 48; g++ {
		wg.Add(1)
		go func(g int) {
			defer wg.Done()
			v := cluster.NewVersionVector()
			for i := 0; i < 400; i++ {
				v = v.MustIncrement(fmt.Sprintf("g%03d-%04d", g, i))
			}
			for r := 0; r < 60; r++ {
				w := messages.NewWriter()
				if err := cluster.WriteVersionVector(w, v); err != nil {
					fails.Add(1)
					continue
				}
				rd := messages.NewReader(w.Bytes())
				back, err := cluster.ReadVersionVector(rd)
				if err != nil || back.Compare(v) != cluster.VersionEqual || back.Size() != v.Size() {
					fails.Add(1)
				}
				runtime.Gosched()
			}
		}(g)
	}
	wg.Wait()
	return int(fails.Load())
}
