package checks

import (
	"context"
	"encoding/json"
	"errors"
	"fmt"
	"math/rand"
	"sort"
	"strings"
	"sync"
	"sync/atomic"
	"time"

	"github.com/kercylan98/vivid"
	"github.com/kercylan98/vivid/internal/actor"
	"github.com/kercylan98/vivid/verifharness/core"
	"github.com/kercylan98/vivid/verifharness/ctl"
	"github.com/kercylan98/vivid/verifharness/tlc"
)

func init() { register("C04", checkC04) }

const futModelVariant = "fix"

var askLifeDefaults = map[string]any{"e": "", "a": "", "s": "", "v": 0, "n": 0, "m": 0, "t": 0}
var askDefaults = map[string]any{"e": "", "a": "", "s": "", "v": 0, "n": 0, "p": ""}

type futStep struct {
	T  string `json:"t"`
	Pc string `json:"pc"`
}

type futScenario struct {
	Completers []string `json:"completers"`
	Pipers     []string `json:"pipers"`
	Waiters    []string `json:"waiters"`
	TimeoutUS  int      `json:"timeout_us"`
}

type futRun struct {
	Events []map[string]any
	Steps  int
	Drift  int
	Stuck  string
}

func futValueName(msg vivid.Message, err error) string {
	switch {
	case err == nil && msg == nil:
		return "unset"
	case err != nil && errors.Is(err, vivid.ErrorFutureTimeout):
		return "timer"
	case err != nil && errors.Is(err, vivid.ErrorActorDeaded):
		return "death"
	case err != nil:
		return "err:" + err.Error()
	}
	if s, ok := msg.(string); ok {
		return s
	}
	return fmt.Sprintf("%v", msg)
}

func futPoint(pc string) string {
	switch {
	case strings.HasPrefix(pc, "ask."):
		return "ctx." + pc
	case pc == "death.scan":
		return "h.kill"
	}
	return "fut." + pc
}

func has(list []string, s string) bool {
	for _, x := range list {
		if x == s {
			return true
		}
	}
	return false
}

var futDebug = false

func runFutureScenario(sc *futScenario, schedule []futStep, seed int64) *futRun {
	installDispatch()
	run := &futRun{}
	var mu sync.Mutex
	ev := func(e map[string]any) {
		mu.Lock()
		run.Events = append(run.Events, e)
		mu.Unlock()
	}
	sys := actor.NewSystem(vivid.WithActorSystemContext(context.Background()), vivid.WithActorSystemLogger(silentLogger), vivid.WithActorSystemStopTimeout(2*time.Second))
	if err := sys.Start(); err != nil {
		run.Stuck = "start: " + err.Error()
		return run
	}
	defer func() { go sys.Stop(time.Second) }()
	var askCtx atomic.Pointer[vivid.ActorContext]
	var agent atomic.Pointer[vivid.ActorRef]
	askerRef, _ := sys.ActorOf(vivid.ActorFN(func(ctx vivid.ActorContext) {
		if _, ok := ctx.Message().(*vivid.OnLaunch); ok {
			askCtx.Store(&ctx)
		}
	}), vivid.WithActorName("asker"))
	targetRef, _ := sys.ActorOf(vivid.ActorFN(func(ctx vivid.ActorContext) {
		if s, ok := ctx.Message().(string); ok && s == "req" {
			r := ctx.Sender()
			agent.Store(&r)
		}
	}), vivid.WithActorName("target"))
	fwdRefs := map[string]vivid.ActorRef{}
	for _, p := range sc.Pipers {
		name := p
		r, _ := sys.ActorOf(vivid.ActorFN(func(ctx vivid.ActorContext) {
			if pr, ok := ctx.Message().(*vivid.PipeResult); ok {
				ev(map[string]any{"e": "Fwd", "a": name, "s": futValueName(pr.Message, pr.Error)})
			}
		}), vivid.WithActorName("fwd-"+name))
		fwdRefs[name] = r
	}
	// a forwarder nobody ever pipes to: it must receive nothing
	bystander, _ := sys.ActorOf(vivid.ActorFN(func(ctx vivid.ActorContext) {
		if pr, ok := ctx.Message().(*vivid.PipeResult); ok {
			ev(map[string]any{"e": "Fwd", "a": "bystander", "s": futValueName(pr.Message, pr.Error)})
		}
	}), vivid.WithActorName("fwd-bystander"))
	for i := 0; i < 2000 && askCtx.Load() == nil; i++ {
		time.Sleep(100 * time.Microsecond)
	}
	if askCtx.Load() == nil {
		run.Stuck = "asker did not launch"
		return run
	}
	actx := *askCtx.Load()
	c := ctl.New()
	var fut atomic.Pointer[any]
	var askStarted atomic.Bool
	c.Filter = func(point string, obj any) bool {
		switch {
		case strings.HasPrefix(point, "ctx.ask."):
			return obj == any(actx)
		case strings.HasPrefix(point, "fut."):
			if !askStarted.Load() {
				return false
			}
			if f := fut.Load(); f != nil {
				return *f == obj
			}
			fut.CompareAndSwap(nil, &obj)
			return *fut.Load() == obj
		case strings.HasPrefix(point, "h."):
			return true
		}
		return false
	}
	c.BirthPoints["fut.close.cas"] = true
	c.ParkPoints["fut.result.wait"] = true
	c.ParkPoints["fut.pipe.wait"] = true
	c.ExitPoints["fut.close.end"] = true
	var t0 time.Time
	c.NewRoleArg = func(point string, obj any, arg any) string {
		if err, ok := arg.(error); ok && errors.Is(err, vivid.ErrorFutureTimeout) {
			ev(map[string]any{"e": "TimerFired", "v": int(time.Since(t0).Microseconds()), "n": sc.TimeoutUS})
			ev(map[string]any{"e": "Attempt", "a": "timer"})
			return "timer"
		}
		if err, ok := arg.(error); ok && errors.Is(err, vivid.ErrorActorDeaded) {
			return "death"
		}
		return "unknown-completer"
	}
	ctl.Activate(c)
	defer ctl.Deactivate(c)

	var theFuture vivid.Future[vivid.Message]
	var futReady atomic.Bool
	timeout := time.Duration(sc.TimeoutUS) * time.Microsecond
	c.Go("asker", func() {
		askStarted.Store(true)
		t0 = time.Now()
		theFuture = actx.Ask(targetRef, "req", timeout)
		futReady.Store(true)
	})
	finished := map[string]*atomic.Bool{}
	start := func(name string, body func()) {
		fin := &atomic.Bool{}
		finished[name] = fin
		c.Go(name, func() {
			c.Yield("h.go", nil, nil)
			body()
			fin.Store(true)
		})
	}
	for _, r := range sc.Completers {
		name := r
		switch name {
		case "timer":
		case "death":
			start("death", func() {
				c.Yield("h.kill", nil, nil)
				ev(map[string]any{"e": "Attempt", "a": "death"})
				sys.Kill(askerRef, false, "scenario")
			})
		default:
			start(name, func() {
				for i := 0; i < 20000 && agent.Load() == nil; i++ {
					time.Sleep(50 * time.Microsecond)
				}
				if a := agent.Load(); a != nil {
					ev(map[string]any{"e": "Attempt", "a": name})
					sys.Tell(*a, name)
					ev(map[string]any{"e": "AttemptEnd", "a": name})
				}
			})
		}
	}
	for _, p := range sc.Pipers {
		name := p
		start(name, func() {
			ev(map[string]any{"e": "PipeCall", "a": name})
			// how the caller hands over its list: a fresh one, one that names the forwarder twice, one it re-uses for
			// something else as soon as PipeTo has returned, one with spare capacity
			var list vivid.ActorRefs
			mode := int(seed+int64(len(name))+int64(name[len(name)-1])) % 4
			switch mode {
			case 1:
				list = vivid.ActorRefs{fwdRefs[name], fwdRefs[name]}
			case 3:
				list = make(vivid.ActorRefs, 1, 4)
				list[0] = fwdRefs[name]
			default:
				list = vivid.ActorRefs{fwdRefs[name]}
			}
			if err := theFuture.(interface{ PipeTo(vivid.ActorRefs) error }).PipeTo(list); err == nil {
				if mode == 2 && bystander != nil {
					list[0] = bystander // the caller's slice is the caller's again
				}
				ev(map[string]any{"e": "PipeRet", "a": name})
			}
		})
	}
	for _, w := range sc.Waiters {
		name := w
		start(name, func() {
			m, err := theFuture.Result()
			ev(map[string]any{"e": "Result", "a": name, "s": futValueName(m, err)})
		})
	}
	settle := func() bool {
		if err := c.WaitSettled(5 * time.Second); err != nil {
			run.Stuck = err.Error()
			for _, w := range c.Waiters() {
				run.Stuck += fmt.Sprintf(" [%s@%s]", w.Role, w.Point)
			}
			return false
		}
		return true
	}
	if !settle() {
		c.Abandon()
		return run
	}
	goReleased := false
	// threads that may act before Ask has returned: the killer ("death") is released from h.go at once
	releaseGo := func(all bool) bool {
		for _, w := range c.Waiters() {
			if w.Point == "h.go" && (all || w.Role == "death") {
				c.Release(w)
				if !settle() {
					return false
				}
			}
		}
		return true
	}
	if !releaseGo(false) {
		c.Abandon()
		return run
	}
	var completed atomic.Bool
	afterStep := func() bool {
		if !goReleased && futReady.Load() {
			goReleased = true
			// an observer outside the controller: tells the driver when the future has completed
			go func() { _ = theFuture.Wait(); completed.Store(true) }()
			return releaseGo(true)
		}
		return true
	}
	for _, st := range schedule {
		if st.Pc == "result.wait" {
			continue
		}
		w := c.FindWait(st.T, 150*time.Millisecond)
		if w == nil || w.Point != futPoint(st.Pc) {
			run.Drift++
			break
		}
		c.Release(w)
		run.Steps++
		if !settle() || !afterStep() {
			c.Abandon()
			return run
		}
	}
	rng := rand.New(rand.NewSource(seed))
	idle := 0
	for guard := 0; guard < 10000; guard++ {
		var ws []*ctl.Waiter
		for _, w := range c.Waiters() {
			if w.Point != "h.go" { // start gates are opened by afterStep once Ask has returned
				ws = append(ws, w)
			}
		}
		if len(ws) == 0 {
			// the timer goroutine may not have been born yet; waiters may be on their way out
			allDone := true
			for _, f := range finished {
				if !f.Load() {
					allDone = false
				}
			}
			if (allDone && completed.Load()) || idle > 1500 {
				break
			}
			idle++
			time.Sleep(100 * time.Microsecond)
			continue
		}
		idle = 0
		sort.Slice(ws, func(i, j int) bool { return ws[i].Role < ws[j].Role })
		w := ws[rng.Intn(len(ws))]
		if futDebug {
			ev(map[string]any{"e": "dbg", "a": w.Role, "s": w.Point})
		}
		c.Release(w)
		run.Steps++
		if !settle() || !afterStep() {
			c.Abandon()
			return run
		}
	}
	// let the forwarders (ungated actors) receive what was sent to them
	deadline := time.Now().Add(300 * time.Millisecond)
	for time.Now().Before(deadline) {
		mu.Lock()
		got := map[string]int{}
		piped := 0
		for _, e := range run.Events {
			if e["e"] == "Fwd" {
				got[fmt.Sprint(e["a"])]++
			}
			if e["e"] == "PipeRet" {
				piped++
			}
		}
		mu.Unlock()
		if len(got) >= piped {
			break
		}
		time.Sleep(200 * time.Microsecond)
	}
	time.Sleep(2 * time.Millisecond)
	pend := ""
	for n, f := range finished {
		if !f.Load() {
			pend += n + " "
		}
	}
	reg, agents := sys.VerifFutureCount()
	ev(map[string]any{"e": "Final", "v": reg + agents, "p": strings.TrimSpace(pend), "n": b2i(completed.Load())})
	c.FreeRun()
	return run
}

func checkC04(c *core.Ctx) {
	dir, err := c.SpecDir("future")
	if err != nil {
		c.Broken("spec dir: %v", err)
		return
	}
	v := futModelVariant
	fams := map[string]futScenario{
		"A": {Completers: []string{"r1", "r2", "timer"}, Pipers: []string{"p1", "p2"}, Waiters: []string{"w1"}},
		"B": {Completers: []string{"r1", "timer", "death"}, Pipers: []string{"p1"}, Waiters: []string{"w1", "w2"}},
		"C": {Completers: []string{"r1", "timer", "death"}, Pipers: []string{"p1", "p2"}, Waiters: []string{"w1"}},
	}
	names := []string{"A", "B", "C"}
	if !os_skipMC() {
		for _, f := range names {
			cfg := "MC_" + f + "_" + v + ".cfg"
			r, err := tlc.Exec(tlc.Run{Dir: dir, Module: "MC_Future", Config: cfg, Timeout: 5 * time.Minute})
			if err != nil || r.Violation != "" {
				c.Broken("model checking %s failed on the model of record: %v %s\n%s", cfg, err, vio(r), tailOf(r))
				return
			}
			c.MC("MC_Future/"+cfg, r)
		}
	}
	var traces []*Trace
	distinct := map[string]bool{}
	rng := rand.New(rand.NewSource(c.Seed))
	for fi, f := range names {
		var behav [][]futStep
		var perr error
		r, err := tlc.Exec(tlc.Run{Dir: dir, Module: "MC_FutureGen", Config: "Gen_" + f + "_" + v + ".cfg", Workers: 1, Timeout: 10 * time.Minute,
			Args: []string{"-simulate", fmt.Sprintf("num=%d", core.Pick(c, 120, 1500)), "-depth", "80", "-seed", fmt.Sprint(c.Seed*3 + int64(fi))},
			OnLine: func(s string) {
				if !strings.HasPrefix(s, "BEHAV ") {
					return
				}
				var b []futStep
				if err := json.Unmarshal([]byte(s[6:]), &b); err != nil {
					perr = err
					return
				}
				behav = append(behav, b)
			}})
		if err != nil || perr != nil || r.Violation != "" {
			c.Broken("behaviour generation %s: %v %v %s\n%s", f, err, perr, vio(r), tailOf(r))
			return
		}
		c.Add("tlc_behaviours_generated", int64(len(behav)))
		for bi, b := range behav {
			sc := fams[f]
			sc.TimeoutUS = []int{300, 1000, 3000}[rng.Intn(3)]
			run := runFutureScenario(&sc, b, c.Seed+int64(bi))
			if run.Stuck != "" {
				sb, _ := json.Marshal(b)
				fmt.Println("DEBUG-SCHEDULE", string(sb))
				c.Broken("future scenario %s#%d stuck: %s", f, bi, run.Stuck)
				return
			}
			c.Add("evaluations", 1)
			c.Add("replayed_steps", int64(run.Steps))
			c.Add("drift_behaviours", int64(run.Drift))
			distinct[traceSig3(run.Events)] = true
			traces = append(traces, &Trace{Events: run.Events, Class: "tlc-" + f, Name: fmt.Sprintf("%s#%d", f, bi),
				Scenario: map[string]any{"scenario": sc, "schedule": b, "seed": c.Seed + int64(bi)}})
		}
	}
	// random thread sets, time-outs and schedules
	for i := 0; i < core.Pick(c, 200, 3000); i++ {
		sc := futScenario{TimeoutUS: []int{100, 500, 2000, 20000}[rng.Intn(4)], Completers: []string{"timer"}}
		for _, r := range []string{"r1", "r2", "death"} {
			if rng.Intn(2) == 0 {
				sc.Completers = append(sc.Completers, r)
			}
		}
		for _, p := range []string{"p1", "p2"} {
			if rng.Intn(2) == 0 {
				sc.Pipers = append(sc.Pipers, p)
			}
		}
		for _, w := range []string{"w1", "w2"} {
			if rng.Intn(2) == 0 {
				sc.Waiters = append(sc.Waiters, w)
			}
		}
		run := runFutureScenario(&sc, nil, c.Seed*977+int64(i))
		if run.Stuck != "" {
			c.Broken("future random scenario %d stuck: %s", i, run.Stuck)
			return
		}
		c.Add("evaluations", 1)
		c.Add("replayed_steps", int64(run.Steps))
		distinct[traceSig3(run.Events)] = true
		traces = append(traces, &Trace{Events: run.Events, Class: "random", Name: fmt.Sprintf("random#%d", i),
			Scenario: map[string]any{"scenario": sc, "seed": c.Seed*977 + int64(i)}})
	}
	// identity re-use: a new actor under the name of a dead asker, a late answer to the dead one's request
	for i := 0; i < core.Pick(c, 2, 8); i++ {
		ev, err := runReincarnation(c.Seed + int64(i))
		if err != nil {
			c.Broken("reincarnation scenario: %v", err)
			return
		}
		c.Add("evaluations", 1)
		traces = append(traces, &Trace{Events: ev, Class: "asker-name-reused", Name: fmt.Sprintf("reincarnation#%d", i),
			Scenario: map[string]any{"what": "actor 'asker' asks and dies, a new 'asker' asks again, the first answer arrives late and before the second"}})
	}
	// ungated: real goroutines, thousands of futures
	nStress := core.Pick(c, 20000, 200000)
	st, _, err := runPipeStress(c.Seed, nStress, 3)
	if err != nil {
		c.Broken("pipe stress: %v", err)
		return
	}
	c.Add("evaluations", int64(nStress))
	c.Set("parallel_pipe_stress_futures", nStress)
	traces = append(traces, st...)
	// the asker's side: several Asks of one asker, then the asker ends (Registry.tla, judged by AskLifeMon)
	if !os_skipMC() {
		r, err := tlc.Exec(tlc.Run{Dir: dir, Module: "Registry", Config: "MC_Registry_fix.cfg", Timeout: 3 * time.Minute})
		if err != nil || r.Violation != "" {
			c.Broken("model checking Registry failed on the model of record: %v %s\n%s", err, vio(r), tailOf(r))
			return
		}
		c.MC("Registry/MC_Registry_fix.cfg", r)
		for _, v := range []string{"wipe", "scan"} {
			if r2, err := tlc.Exec(tlc.Run{Dir: dir, Module: "Registry", Config: "MC_Registry_" + v + ".cfg", Timeout: 3 * time.Minute}); err == nil {
				c.Set("registry_variant_"+v+"_violates", r2.ViolatedName)
			}
		}
	}
	var life []*Trace
	for i := 0; i < core.Pick(c, 90, 1200); i++ {
		t, err := runAskerLife(c.Seed, i)
		if err != nil {
			c.Broken("asker life scenario %d: %v", i, err)
			return
		}
		c.Add("evaluations", 1)
		life = append(life, t)
	}
	lres := ValidateTraces(c, "future", "AskLifeMon", "AskLifeMon.cfg", life, askLifeDefaults)
	lres.Report(c, "AskLifeMon")
	c.Add("traces_validated_against_impl", int64(lres.Validated))
	c.Set("asker_life_rounds", len(life))
	res := ValidateTraces(c, "future", "AskMon", "AskMon.cfg", traces, askDefaults)
	res.Report(c, "AskMon")
	c.Add("traces_validated_against_impl", int64(res.Validated))
	c.Set("distinct_nontrivial", len(distinct))
	c.Set("rule", "TLC-simulated behaviours of Future.tla (families A,B,C: repliers, timer, asker death, 1-2 PipeTo callers, 1-2 Result callers) are replayed on a real Ask (real Context.ask, real registry, real time.AfterFunc timer held at its first hook, forwarders are real actors), plus random thread sets with time-outs of 0.1-20 ms under random schedules; judged by AskMon. Distinct by event sequence; every scenario has at least two competing completions.")
	if len(traces) > 0 {
		c.Sample(traces[0].Events)
		c.Sample(traces[len(traces)-1].Events)
	}
	c.Assume("the timer is a real time.AfterFunc; TimeoutNotEarly is a one-sided real-time check (elapsed >= configured)")
	c.Assume("f.mu critical sections are atomic; hooks sit outside them")
}

func traceSig3(ev []map[string]any) string {
	var sb strings.Builder
	for _, e := range ev {
		if e["e"] == "TimerFired" {
			sb.WriteString("T;")
			continue
		}
		fmt.Fprintf(&sb, "%v/%v/%v;", e["e"], e["a"], e["s"])
	}
	return sb.String()
}
