package checks

import (
	"encoding/json"
	"fmt"
	"math/rand"
	"os"
	"path/filepath"
	"sort"
	"time"

	"github.com/kercylan98/vivid/internal/cluster"
	"github.com/kercylan98/vivid/verifharness/core"
	"github.com/kercylan98/vivid/verifharness/tlc"
)

func init() { register("C17", checkC17) }

type cvMember struct {
	Gen int    `json:"gen"`
	Lc  int    `json:"lc"`
	St  string `json:"st"`
	Ts  int    `json:"ts"`
}

type cvView struct {
	Mem map[string]cvMember `json:"mem"`
	VV  map[string]int      `json:"vv"`
	Ep  int                 `json:"ep"`
	Ts  int                 `json:"ts"`
}

type cvDomain struct {
	Ids   []string `json:"ids"`
	Views []cvView `json:"views"`
}

var cvStatus = map[string]cluster.MemberStatus{"up": cluster.MemberStatusUp, "suspect": cluster.MemberStatusSuspect,
	"joining": cluster.MemberStatusJoining, "unreachable": cluster.MemberStatusUnreachable, "down": cluster.MemberStatusDown,
	"leaving": cluster.MemberStatusLeaving, "exiting": cluster.MemberStatusExiting, "removed": cluster.MemberStatusRemoved}

// time ranks: member timestamps are small offsets from a fixed base; view timestamp rank 1 is
// "now" (inside any clock-skew window), rank 2 is ten hours ahead (outside a one-hour window).
func cvMemberTs(base int64, r int) int64 { return base + int64(r)*1000 }
func cvViewTs(base int64, r int) int64 {
	if r >= 2 {
		return base + int64(10*time.Hour)
	}
	return base
}

func cvBuild(ids []string, v cvView, base int64) *cluster.ClusterView {
	out := &cluster.ClusterView{ViewID: "v", Epoch: int64(v.Ep), Timestamp: cvViewTs(base, v.Ts),
		Members: map[string]*cluster.NodeState{}, ProtocolVersion: cluster.ProtocolVersion}
	vv := cluster.NewVersionVector()
	for _, id := range ids {
		m := v.Mem[id]
		if m.Gen != 0 {
			out.Members[id] = &cluster.NodeState{ID: id, ClusterName: "c", Address: id + ":1000", Generation: m.Gen,
				LogicalClock: uint64(m.Lc), Status: cvStatus[m.St], Timestamp: cvMemberTs(base, m.Ts), LastSeen: base,
				Metadata: map[string]string{}, Labels: map[string]string{}}
		}
		for k := 0; k < v.VV[id]; k++ {
			vv = vv.MustIncrement(id)
		}
	}
	out.VersionVector = vv
	return out
}

// cvProject reads a real view back into model terms; ok=false if some value has no model counterpart.
func cvProject(ids []string, cv *cluster.ClusterView, base int64) (cvView, bool) {
	ok := true
	v := cvView{Mem: map[string]cvMember{}, VV: map[string]int{}, Ep: int(cv.Epoch)}
	switch cv.Timestamp {
	case cvViewTs(base, 1):
		v.Ts = 1
	case cvViewTs(base, 2):
		v.Ts = 2
	default:
		v.Ts = -1
		ok = false
	}
	known := map[string]bool{}
	for _, id := range ids {
		known[id] = true
		v.Mem[id] = cvMember{St: "none"}
		if m := cv.Members[id]; m != nil {
			st := "?"
			for name, s := range cvStatus {
				if s == m.Status {
					st = name
				}
			}
			ts := int((m.Timestamp - base) / 1000)
			v.Mem[id] = cvMember{Gen: m.Generation, Lc: int(m.LogicalClock), St: st, Ts: ts}
			if st == "?" || m.ID != id {
				ok = false
			}
		}
		v.VV[id] = int(cv.VersionVector.Get(id))
	}
	for id := range cv.Members {
		if !known[id] {
			ok = false
		}
	}
	for _, nd := range cv.VersionVector.Nodes() {
		if !known[nd] {
			ok = false
		}
	}
	return v, ok
}

func cvKey(ids []string, v cvView) string {
	s := fmt.Sprintf("e%d t%d|", v.Ep, v.Ts)
	for _, id := range ids {
		m := v.Mem[id]
		s += fmt.Sprintf("%s:%d.%d.%s.%d/%d|", id, m.Gen, m.Lc, m.St, m.Ts, v.VV[id])
	}
	return s
}

type cvJob struct {
	domain string
	strat  int
	skew   bool
}

func checkC17(c *core.Ctx) {
	dir, err := c.SpecDir("cv")
	if err != nil {
		c.Broken("spec dir: %v", err)
		return
	}
	cfg := core.Pick(c, "MC_CV_quick.cfg", "MC_CV_thorough.cfg")
	r, err := tlc.Exec(tlc.Run{Dir: dir, Module: "MC_CV", Config: cfg, Timeout: core.Pick(c, 3*time.Minute, 30*time.Minute)})
	if err != nil || r.Violation != "" {
		c.Broken("MC_CV (%s) did not pass on the model: %v %s\n%s", cfg, err, vio(r), tailOf(r))
		return
	}
	c.MC("MC_CV/"+cfg, r)

	// (E: every member in one of four statuses - up, suspect, leaving, removed - with two logical clocks)
	jobs := []cvJob{{"A", 0, false}, {"B", 1, false}, {"B", 2, false}, {"D", 0, true}, {"E", 0, false}}
	if c.Thorough() {
		jobs = []cvJob{{"A", 0, false}, {"A", 1, false}, {"A", 2, false}, {"B", 0, false}, {"B", 1, true}, {"B", 2, true},
			{"C", 0, false}, {"D", 0, true}, {"D", 1, true}, {"D", 2, true}, {"D", 1, false}, {"E", 0, false}, {"E", 1, false}, {"E", 2, true}}
	}
	rng := rand.New(rand.NewSource(c.Seed))
	doms := map[string]*cvDomain{}
	totalPairs := 0
	for _, job := range jobs {
		dom := doms[job.domain]
		if dom == nil {
			if rr, err := tlc.Exec(tlc.Run{Dir: dir, Module: "CVDomain", Config: "CVDomain_" + job.domain + ".cfg", Workers: 1, Timeout: 5 * time.Minute}); err != nil || rr.Violation != "" {
				c.Broken("CVDomain %s: %v %s\n%s", job.domain, err, vio(rr), tailOf(rr))
				return
			}
			b, err := os.ReadFile(filepath.Join(dir, "domain.json"))
			if err != nil {
				c.Broken("domain.json: %v", err)
				return
			}
			dom = &cvDomain{}
			if err := json.Unmarshal(b, dom); err != nil {
				c.Broken("domain.json: %v", err)
				return
			}
			sort.Strings(dom.Ids)
			doms[job.domain] = dom
		}
		if !cvRunJob(c, dir, job, dom, rng) {
			return
		}
		totalPairs += len(dom.Views) * len(dom.Views)
	}
	c.Set("pairs", totalPairs)
	c.Set("rule", "TLC writes every well-formed view over the configured bounds (CVDomain_*.cfg); each is built as a real ClusterView; every ordered pair is merged with the real MergeFromWithOptions under the job's strategy / clock-skew option and the result is located in the domain; CVMon (TLC) judges union/newest/no-regress/monotone/changed/idempotent/commutative on every pair and associativity on every pair x a seeded sample of third operands. Non-trivial: the merge changed the left operand.")
	c.Set("exhaustive", false)
	c.Assume("views are well-formed (version-vector entries only for members, logical clocks >= 1): a superset of the views reachable by joins, restarts, status changes, increments and merges; the reachable triples themselves are model-checked in MC_CV")
	c.Assume("member timestamps and view timestamps are represented by ranks (view rank 2 = ten hours ahead of now)")
}

func cvRunJob(c *core.Ctx, dir string, job cvJob, dom *cvDomain, rng *rand.Rand) bool {
	base := time.Now().UnixNano()
	ids := dom.Ids
	n := len(dom.Views)
	index := map[string]int{}
	views := make([]cvView, n)
	copy(views, dom.Views)
	for i, v := range views {
		index[cvKey(ids, v)] = i + 1
	}
	if len(index) != n {
		c.Broken("domain %s has indistinguishable views", job.domain)
		return false
	}
	opts := cluster.MergeOptions{VersionConcurrentStrategy: job.strat}
	if job.skew {
		opts.MaxClockSkew = time.Hour
	}
	mrg := make([][]int, n)
	chg := make([][]bool, n)
	nontrivial := 0
	extras := 0
	for i := 0; i < n; i++ {
		mrg[i] = make([]int, n)
		chg[i] = make([]bool, n)
		for j := 0; j < n; j++ {
			a := cvBuild(ids, views[i], base)
			b := cvBuild(ids, views[j], base)
			ch := a.MergeFromWithOptions(b, opts)
			res, ok := cvProject(ids, a, base)
			if !ok {
				c.Violate(core.Violation{Monitor: "CVMon.NoInvention", Class: "merge-" + job.domain,
					Detail:   fmt.Sprintf("merge result contains a member / vector entry / timestamp that is in neither operand: %+v", res),
					Scenario: map[string]any{"a": views[i], "b": views[j], "strategy": job.strat, "skew": job.skew}})
				return true
			}
			// the right operand must not be modified by the merge
			if rb, _ := cvProject(ids, b, base); cvKey(ids, rb) != cvKey(ids, views[j]) {
				c.Violate(core.Violation{Monitor: "CVMon.OperandUntouched", Class: "merge-" + job.domain,
					Detail:   "merge modified its argument",
					Scenario: map[string]any{"a": views[i], "b": views[j], "strategy": job.strat, "skew": job.skew}})
				return true
			}
			k := cvKey(ids, res)
			idx, ok := index[k]
			if !ok {
				views = append(views, res)
				idx = len(views)
				index[k] = idx
				extras++
			}
			mrg[i][j] = idx
			chg[i][j] = ch
			if idx != i+1 {
				nontrivial++
			}
		}
	}
	ks := core.Pick(c, 12, 40)
	if ks > n {
		ks = n
	}
	perm := rng.Perm(n)[:ks]
	for i := range perm {
		perm[i]++
	}
	// rows for extra (out-of-domain) results are needed so that D[Mrg[..]] is defined; they have no merge rows
	tables := map[string]any{"n": n, "ids": ids, "views": views, "mrg": mrg, "chg": chg, "ksample": perm}
	tb, _ := json.Marshal(tables)
	if err := os.WriteFile(filepath.Join(dir, "tables.json"), tb, 0o644); err != nil {
		c.Broken("tables.json: %v", err)
		return false
	}
	mr, err := tlc.Exec(tlc.Run{Dir: dir, Module: "CVMon", Config: "CVMon.cfg", Timeout: core.Pick(c, 4*time.Minute, 30*time.Minute), DumpJSON: "cex.json"})
	if err != nil || mr.TimedOut || (mr.Violation != "" && mr.Violation != "invariant") {
		c.Broken("CVMon did not run (job %+v): %v %s\n%s", job, err, vio(mr), tailOf(mr))
		return false
	}
	c.Add("evaluations", int64(n*n))
	c.Add("distinct_nontrivial", int64(nontrivial))
	c.Add("traces_validated_against_impl", 1)
	c.Add("monitor_states", mr.Distinct)
	c.Add("triples_checked", int64(n*n*ks))
	c.Add("results_outside_domain", int64(extras))
	c.Sample(map[string]any{"domain": job.domain, "strategy": job.strat, "skew": job.skew, "a": views[n/2], "b": views[n/3],
		"merged": views[mrg[n/2][n/3]-1], "changed": chg[n/2][n/3]})
	if mr.Violation == "invariant" {
		detail := fmt.Sprintf("law %s fails on the implementation's merge results (domain %s, strategy %d, skew %v)", mr.ViolatedName, job.domain, job.strat, job.skew)
		scen := map[string]any{"domain": job.domain, "strategy": job.strat, "skew": job.skew}
		if sts, err := tlc.ReadDumpTrace(filepath.Join(dir, "cex.json")); err == nil && len(sts) > 0 {
			last := sts[len(sts)-1]
			var i, j int
			_ = json.Unmarshal(last["i"], &i)
			_ = json.Unmarshal(last["j"], &j)
			if i >= 1 && i <= n {
				scen["a"] = views[i-1]
			}
			if j >= 1 && j <= n {
				scen["b"] = views[j-1]
				scen["result"] = views[mrg[i-1][j-1]-1]
				scen["changed"] = chg[i-1][j-1]
				scen["reverse_result"] = views[mrg[j-1][i-1]-1]
			}
			sb, _ := json.Marshal(scen)
			detail += " at " + string(sb)
		}
		c.Violate(core.Violation{Monitor: "CVMon." + mr.ViolatedName, Class: "merge-" + job.domain, Detail: detail, Scenario: scen})
	}
	return true
}
