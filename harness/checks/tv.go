package checks

import (
	"encoding/json"
	"fmt"
	"os"
	"path/filepath"
	"time"

	"github.com/kercylan98/vivid/verifharness/core"
	"github.com/kercylan98/vivid/verifharness/tlc"
)

// Trace is one recorded execution: its events (one JSON object per line), the scenario
// that produced it (for the replay file) and the scenario class used for known findings.
type Trace struct {
	Events   []map[string]any
	Scenario any
	Class    string
	Name     string
}

// TVResult reports the outcome of validating a batch of traces against a monitor.
type TVResult struct {
	Validated int // traces accepted by the monitor
	Events    int
	Rejected  []TVReject
}

type TVReject struct {
	Trace *Trace
	Rule  string // value of the monitor's `bad` variable
	Line  int    // line inside the trace (1-based)
}

// ValidateTraces concatenates the traces (each preceded by a Reset line), lets TLC run the
// monitor module over them and returns which traces break which rule. A trace that breaks a
// rule is removed and the remaining ones are validated again, so one violation never hides
// another. Any other failure of TLC marks the check as broken.
// tvMaxRounds bounds how many violating traces are singled out per batch (each needs one more TLC run).
var tvMaxRounds = 12

func ValidateTraces(c *core.Ctx, specName, module, cfg string, traces []*Trace, defaults map[string]any) *TVResult {
	res := &TVResult{}
	rest := traces
	for round := 0; round < tvMaxRounds && len(rest) > 0; round++ {
		dir, err := c.SpecDir(specName)
		if err != nil {
			c.Broken("spec dir: %v", err)
			return res
		}
		var lines []map[string]any
		owner := []int{}  // line -> index in rest
		within := []int{} // line -> line number inside its trace
		for ti, t := range rest {
			reset := map[string]any{}
			for k, v := range defaults {
				reset[k] = v
			}
			reset["e"] = "Reset"
			lines = append(lines, reset)
			owner = append(owner, ti)
			within = append(within, 0)
			for li, ev := range t.Events {
				full := map[string]any{}
				for k, v := range defaults {
					full[k] = v
				}
				for k, v := range ev {
					full[k] = v
				}
				lines = append(lines, full)
				owner = append(owner, ti)
				within = append(within, li+1)
			}
		}
		if err := core.WriteNDJSON(filepath.Join(dir, "trace.ndjson"), lines); err != nil {
			c.Broken("trace file: %v", err)
			return res
		}
		r, err := tlc.Exec(tlc.Run{Dir: dir, Module: module, Config: cfg, Workers: 1, Timeout: 20 * time.Minute, DumpJSON: "cex.json"})
		if err != nil || r.TimedOut {
			c.Broken("trace validation %s did not run: %v %s\n%s", module, err, vio(r), tailOf(r))
			return res
		}
		if r.Violation == "" {
			res.Validated += len(rest)
			res.Events += len(lines)
			return res
		}
		if r.Violation != "invariant" {
			c.Broken("trace validation %s: TLC reported %s (a trace line was not understood by the monitor?)\n%s", module, vio(r), tailOf(r))
			return res
		}
		sts, err := tlc.ReadDumpTrace(filepath.Join(dir, "cex.json"))
		if err != nil || len(sts) == 0 {
			c.Broken("trace validation %s: cannot read counterexample: %v", module, err)
			return res
		}
		last := sts[len(sts)-1]
		var l int
		var bad string
		_ = json.Unmarshal(last["l"], &l)
		_ = json.Unmarshal(last["bad"], &bad)
		line := l - 2 // l is the next line to read (1-based); the offending line is l-1 -> index l-2
		if line < 0 || line >= len(owner) {
			c.Broken("trace validation %s: counterexample line %d out of range", module, l)
			return res
		}
		ti := owner[line]
		res.Rejected = append(res.Rejected, TVReject{Trace: rest[ti], Rule: bad, Line: within[line]})
		res.Validated += ti // traces before the offending one were accepted
		for i := 0; i <= line; i++ {
			res.Events++
		}
		rest = append([]*Trace{}, rest[ti+1:]...)
	}
	if len(rest) > 0 && len(res.Rejected) >= tvMaxRounds {
		// many violations: the remaining traces are not judged (reported in the evidence)
		c.Add("traces_not_judged_after_12_violations", int64(len(rest)))
	}
	return res
}

// Report turns the rejections into violations.
func (r *TVResult) Report(c *core.Ctx, monitor string) {
	for _, rej := range r.Rejected {
		c.Violate(core.Violation{
			Monitor:  monitor + "." + rej.Rule,
			Class:    rej.Trace.Class,
			Detail:   fmt.Sprintf("rule %s broken at event %d of trace %s", rej.Rule, rej.Line, rej.Trace.Name),
			Scenario: rej.Trace.Scenario,
			Trace:    rej.Trace.Events,
		})
	}
}

func os_skipMC() bool { return os.Getenv("VERIF_SKIP_MC") != "" }
