package checks

import (
	"encoding/json"
	"fmt"
	"math/rand"
	"sort"
	"strings"
	"sync"
	"time"

	"github.com/kercylan98/vivid/verifharness/core"
	"github.com/kercylan98/vivid/verifharness/tlc"
)

func init() { register("C18", checkC18) }

var gossipDefaults = map[string]any{"e": "", "n": "", "s": "", "p": "", "x": "", "l": "", "o": "", "v": 0, "k": 0, "d": 0, "m": []any{}, "i": []any{}}

type gossipBehaviour struct {
	Nodes []string `json:"nodes"`
	Seeds []string `json:"seeds"`
	Steps []struct {
		A []string `json:"a"`
		S map[string]struct {
			Run    string          `json:"run"`
			Mem    json.RawMessage `json:"mem"`
			VV     json.RawMessage `json:"vv"`
			Leader string          `json:"leader"`
		} `json:"s"`
	} `json:"steps"`
}

// finish settles the simulator, probes every node, checks for silence afterwards and appends the Check event.
func (s *gsim) finish(rng *rand.Rand) {
	s.cut = map[[2]string]bool{}
	s.ev(map[string]any{"e": "FaultsStopped"})
	maxRounds := 80
	if s.fd > 0 {
		maxRounds = 12
	}
	rounds, quiet := s.settle(rng.Intn, maxRounds)
	s.ev(map[string]any{"e": "Quiet", "p": "final", "v": b2i(quiet), "k": rounds})
	s.probeFinal()
	// five more rounds: nothing any node believes may change and nothing may be announced any more
	fp := s.fingerprint()
	changed := 0
	for r := 0; r < 5; r++ {
		s.round(rng.Intn)
		if f := s.fingerprint(); f != fp {
			changed++
			fp = f
		}
	}
	s.ev(map[string]any{"e": "Quiet", "p": "after", "v": 1, "k": changed})
	s.ev(map[string]any{"e": "Check"})
}

func (s *gsim) probeFinal() {
	for _, name := range s.names {
		n := s.nodes[name]
		if n.run != "up" {
			s.ev(map[string]any{"e": "Node", "n": name, "s": n.run, "p": "final"})
			continue
		}
		view, self := n.actor.VerifView()
		mem, _, addrs := s.project(name)
		ids := make([]any, 0, len(mem))
		keys := make([]string, 0, len(mem))
		for id := range mem {
			keys = append(keys, id)
		}
		sort.Strings(keys)
		for _, id := range keys {
			// the status is left out of the incarnation comparison (a node's own copy may say "leaving")
			ids = append(ids, id+"="+mem[id][:strings.LastIndex(mem[id], "/")])
		}
		own := ""
		if m, ok := view.Members[self.ID]; ok {
			own = fmt.Sprintf("%s=%d/%d", self.ID, m.Generation, m.LogicalClock)
		}
		am := make([]any, 0, len(addrs))
		for _, a := range addrs {
			am = append(am, a)
		}
		s.ev(map[string]any{"e": "Node", "n": name, "s": "up", "p": "final", "m": am, "i": ids, "o": own,
			"x": leaderName(view), "l": n.leader, "v": b2i(n.iam), "k": len(mem), "d": len(addrs)})
	}
}

// replayGossip executes one TLC behaviour on the simulator and compares the projected state after every step.
func replayGossip(b *gossipBehaviour, seed int64) (ev []map[string]any, steps, drift int, firstDrift string, class string, err error) {
	s := newGsim(b.Nodes, b.Seeds, true)
	class = "join"
	for si, st := range b.Steps {
		a := st.A
		ok := true
		switch a[0] {
		case "launch":
			if s.nodes[a[1]].starts > 0 && class == "join" {
				class = "restart"
			}
			s.launch(a[1])
		case "join":
			ok = s.join(a[1], a[2])
		case "deliver":
			ok = s.deliver(a[1], a[2])
		case "lose":
			ok = s.lose(a[1], a[2])
			if class == "join" {
				class = "loss"
			}
		case "tick":
			s.tick(a[1])
		case "crash":
			s.crash(a[1])
			class = "crash"
		case "leave":
			s.leave(a[1])
			class = "leave"
		case "cut":
			s.cut[pairKey(a[1], a[2])] = true
			if class == "join" {
				class = "partition"
			}
		case "stop":
			s.cut = map[[2]string]bool{}
		}
		if !ok {
			drift++
			if firstDrift == "" {
				firstDrift = fmt.Sprintf("step %d %v: not enabled in the implementation", si, a)
			}
			break
		}
		steps++
		// compare projections
		for name, want := range st.S {
			n := s.nodes[name]
			if n.run != want.Run {
				drift++
				if firstDrift == "" {
					firstDrift = fmt.Sprintf("step %d %v: node %s run %s, model %s", si, a, name, n.run, want.Run)
				}
				continue
			}
			if want.Run != "up" {
				continue
			}
			wm := map[string][]any{}
			wv := map[string]int{}
			if e := jsonMapOrEmpty(want.Mem, &wm); e != nil {
				return nil, 0, 0, "", "", e
			}
			if e := jsonMapOrEmpty(want.VV, &wv); e != nil {
				return nil, 0, 0, "", "", e
			}
			mem, vv, _ := s.project(name)
			wantMem := map[string]string{}
			for id, r := range wm {
				wantMem[id] = fmt.Sprintf("%v/%v/%v", r[0], r[1], r[2])
			}
			if fmt.Sprint(wantMem) != fmt.Sprint(mem) || fmt.Sprint(wv) != fmt.Sprint(vv) || want.Leader != n.leader {
				drift++
				if firstDrift == "" {
					firstDrift = fmt.Sprintf("step %d %v: node %s mem %v vv %v leader %q, model mem %v vv %v leader %q", si, a, name, mem, vv, n.leader, wantMem, wv, want.Leader)
				}
			}
		}
	}
	// a node that crashed and came back is running at the end: the class says what the final state contains
	down, left := false, false
	for _, n := range s.nodes {
		if n.run == "down" && n.starts > 0 {
			down = true
		}
		if n.run == "left" {
			left = true
		}
	}
	switch {
	case left && down:
		class = "member-crashed+left"
	case left:
		class = "member-left"
	case down:
		class = "member-crashed"
	case class == "crash" || class == "leave":
		class = "restart"
	}
	s.finish(rand.New(rand.NewSource(seed)))
	return s.events, steps, drift, firstDrift, class, nil
}

// randomGossip drives a random scenario on 4..7 nodes directly (no model behaviour behind it).
func randomGossip(seed int64, nNodes int, faults bool, stableIds bool) (ev []map[string]any, class string, scenario map[string]any) {
	rng := rand.New(rand.NewSource(seed))
	var names []string
	for i := 1; i <= nNodes; i++ {
		names = append(names, fmt.Sprintf("n%d", i))
	}
	nSeeds := 1 + rng.Intn(2)
	seeds := names[:nSeeds]
	s := newGsim(names, seeds, stableIds)
	class = "join"
	var log []string
	act := func(f string, a ...any) { log = append(log, fmt.Sprintf(f, a...)) }
	order := rng.Perm(nNodes)
	launched := 0
	for step := 0; step < 40*nNodes && (launched < nNodes || step < 12*nNodes); step++ {
		switch r := rng.Intn(10); {
		case r < 2 && launched < nNodes:
			s.launch(names[order[launched]])
			act("launch %s", names[order[launched]])
			launched++
		case r < 6:
			var keys [][2]string
			for k, q := range s.chans {
				if len(q) > 0 {
					keys = append(keys, k)
				}
			}
			if len(keys) == 0 {
				continue
			}
			sort.Slice(keys, func(i, j int) bool { return keys[i][0]+keys[i][1] < keys[j][0]+keys[j][1] })
			k := keys[rng.Intn(len(keys))]
			if faults && rng.Intn(12) == 0 {
				s.lose(k[0], k[1])
				act("lose %s>%s", k[0], k[1])
				if class == "join" {
					class = "loss"
				}
			} else {
				s.deliver(k[0], k[1])
				act("deliver %s>%s", k[0], k[1])
			}
		case r < 7:
			n := names[rng.Intn(nNodes)]
			if s.nodes[n].run == "joining" {
				sd := seeds[rng.Intn(len(seeds))]
				s.join(n, sd)
				act("join %s via %s", n, sd)
			}
		case r < 9:
			n := names[rng.Intn(nNodes)]
			s.tick(n)
			act("tick %s", n)
		default:
			if !faults {
				continue
			}
			n := names[nSeeds+rng.Intn(nNodes-nSeeds)]
			st := s.nodes[n]
			switch f := rng.Intn(10); {
			case (st.run == "down" || st.run == "left") && st.starts > 0:
				if f < 7 {
					s.launch(n)
					act("restart %s", n)
				}
			case st.run == "up" && f < 4:
				s.crash(n)
				act("crash %s", n)
			case st.run == "up" && f < 6:
				s.leave(n)
				act("leave %s", n)
			case f < 8:
				// isolate the node completely: everything sent to it or by it while the cut lasts is lost
				for _, o := range names {
					if o != n {
						s.cut[pairKey(n, o)] = true
					}
				}
				act("isolate %s", n)
				if class == "join" {
					class = "partition"
				}
			default:
				o := names[rng.Intn(nNodes)]
				if o != n {
					s.cut[pairKey(n, o)] = true
					act("cut %s-%s", n, o)
					if class == "join" {
						class = "partition"
					}
				}
			}
		}
	}
	for launched < nNodes {
		s.launch(names[order[launched]])
		launched++
	}
	down, left := false, false
	restarted := false
	for _, n := range s.nodes {
		if n.run == "down" {
			down = true
		}
		if n.run == "left" {
			left = true
		}
		if n.starts > 1 {
			restarted = true
		}
	}
	switch {
	case left && down:
		class = "member-crashed+left"
	case left:
		class = "member-left"
	case down:
		class = "member-crashed"
	case restarted:
		class = "restart"
	}
	if !stableIds && restarted {
		class += "-fresh-node-id"
	}
	s.finish(rng)
	return s.events, class, map[string]any{"nodes": names, "seeds": seeds, "seed": seed, "stable_ids": stableIds, "actions": log}
}

func checkC18(c *core.Ctx) {
	c.Ev.Level = "model_checking"
	dir, err := c.SpecDir("gossip")
	if err != nil {
		c.Broken("spec dir: %v", err)
		return
	}
	if !os_skipMC() {
		cfgs := []string{"MC_Join3.cfg", "MC_Join3_S12.cfg"}
		// two nodes, up to five process starts and three faults (crashes, losses): restarts and re-joins exhaustively
		cfgs = append(cfgs, "MC_Restart2_mi.cfg")
		if c.Thorough() {
			// three nodes, one fault, no restart (1.4 M states; with a restart the three-node model does not finish in an hour
			// since joining nodes handle gossip too)
			cfgs = append(cfgs, "MC_Fault3_mi.cfg")
		}
		for _, cfg := range cfgs {
			r, err := tlc.Exec(tlc.Run{Dir: dir, Module: "MC_Gossip", Config: cfg, Timeout: 40 * time.Minute})
			if err != nil || r.Violation != "" {
				c.Broken("model checking %s failed on the model of record: %v %s\n%s", cfg, err, vio(r), tailOf(r))
				return
			}
			c.MC(cfg, r)
		}
		// self-test of the invariants: the variant "a joining node that sees itself listed as up is done" keeps the previous incarnation
		if r4, err := tlc.Exec(tlc.Run{Dir: dir, Module: "MC_Gossip", Config: "MC_Fault3_shortcut.cfg", Timeout: 4 * time.Minute}); err == nil {
			c.Set("join_shortcut_model_violates", r4.ViolatedName)
		}
		// the design-level finding: with a crash, "exactly the running nodes" does not hold in the model either
		r, err := tlc.Exec(tlc.Run{Dir: dir, Module: "MC_Gossip", Config: "MC_Fault3.cfg", Timeout: 10 * time.Minute})
		if err != nil {
			c.Broken("model checking MC_Fault3: %v\n%s", err, tailOf(r))
			return
		}
		c.Set("model_with_one_fault_violates", r.ViolatedName)
		// and with failure detection on, a healthy two-node cluster removes a live member (KF-C18-4 at design level)
		if r3, err := tlc.Exec(tlc.Run{Dir: dir, Module: "MC_Gossip", Config: "MC_FD2.cfg", Timeout: 5 * time.Minute}); err == nil {
			c.Set("model_with_failure_detection_violates", r3.ViolatedName)
		}
	}
	var traces []*Trace
	seen := map[string]bool{}
	var behs []*gossipBehaviour
	var perr error
	r, err := tlc.Exec(tlc.Run{Dir: dir, Module: "MC_GossipGen", Config: "Gen_N3.cfg", Workers: 1, Timeout: 15 * time.Minute,
		Args: []string{"-simulate", fmt.Sprintf("num=%d", core.Pick(c, 400, 6000)), "-depth", "120", "-seed", fmt.Sprint(c.Seed*7 + 1)},
		OnLine: func(s string) {
			if !strings.HasPrefix(s, "BEHAV ") || seen[s] {
				return
			}
			seen[s] = true
			b := &gossipBehaviour{}
			if err := json.Unmarshal([]byte(s[6:]), b); err != nil {
				perr = err
				return
			}
			behs = append(behs, b)
		}})
	if err != nil || perr != nil || r.Violation != "" {
		c.Broken("behaviour generation: %v %v %s\n%s", err, perr, vio(r), tailOf(r))
		return
	}
	c.Add("tlc_behaviours_generated", int64(len(behs)))
	var mu sync.Mutex
	var wg sync.WaitGroup
	sem := make(chan struct{}, 12)
	totalSteps, totalDrift := 0, 0
	var driftSamples []string
	classes := map[string]int{}
	for bi, b := range behs {
		wg.Add(1)
		sem <- struct{}{}
		go func(bi int, b *gossipBehaviour) {
			defer wg.Done()
			defer func() { <-sem }()
			ev, steps, drift, first, class, err := replayGossip(b, c.Seed+int64(bi))
			mu.Lock()
			defer mu.Unlock()
			if err != nil {
				c.Broken("gossip replay #%d: %v", bi, err)
				return
			}
			c.Add("evaluations", 1)
			totalSteps += steps
			totalDrift += drift
			if first != "" && len(driftSamples) < 5 {
				driftSamples = append(driftSamples, first)
			}
			classes[class]++
			traces = append(traces, &Trace{Events: ev, Class: class, Name: fmt.Sprintf("Gen_N3#%d", bi), Scenario: b})
		}(bi, b)
	}
	wg.Wait()
	if c.IsBroken() {
		return
	}
	c.Set("replayed_steps", totalSteps)
	c.Set("model_vs_code_state_differences", totalDrift)
	if len(driftSamples) > 0 {
		c.Set("model_vs_code_difference_samples", driftSamples)
	}
	// random scenarios on 4..7 nodes
	nr := core.Pick(c, 150, 3000)
	for i := 0; i < nr; i++ {
		nn := 4 + i%4
		faults := i%3 != 0
		stable := i%5 != 4
		ev, class, sc := randomGossip(c.Seed*1000003+int64(i), nn, faults, stable)
		c.Add("evaluations", 1)
		classes[class]++
		traces = append(traces, &Trace{Events: ev, Class: class, Name: fmt.Sprintf("random#%d", i), Scenario: sc})
	}
	// directed: a running node is cut off while others join, then the partition heals
	for i := 0; i < core.Pick(c, 12, 60); i++ {
		nn := 3 + i%3
		var names []string
		for k := 1; k <= nn; k++ {
			names = append(names, fmt.Sprintf("n%d", k))
		}
		rng := rand.New(rand.NewSource(c.Seed*77 + int64(i)))
		s := newGsim(names, names[:1], true)
		s.launch("n1")
		early := 1 + rng.Intn(nn-2) // nodes n2..n(1+early) join before the partition
		for k := 2; k <= 1+early; k++ {
			s.launch(names[k-1])
			s.join(names[k-1], "n1")
		}
		for r := 0; r < 2; r++ {
			s.round(rng.Intn)
		}
		victim := names[1+rng.Intn(early)] // a running non-seed node
		for _, o := range names {
			if o != victim {
				s.cut[pairKey(victim, o)] = true
			}
		}
		for k := 2 + early; k <= nn; k++ {
			s.launch(names[k-1])
			s.join(names[k-1], "n1")
		}
		for r := 0; r < 1+rng.Intn(3); r++ {
			s.round(rng.Intn)
		}
		s.finish(rng) // heals, settles, probes
		c.Add("evaluations", 1)
		classes["isolated-during-join"]++
		traces = append(traces, &Trace{Events: s.events, Class: "isolated-during-join", Name: fmt.Sprintf("isolated#%d", i),
			Scenario: map[string]any{"nodes": names, "seeds": names[:1], "joined_before": early, "isolated": victim, "seed": c.Seed*77 + int64(i)}})
	}
	// directed: a node restarts (same NodeID) and re-joins; what it broadcasts first is lost or late; another node joins meanwhile
	for i := 0; i < core.Pick(c, 12, 60); i++ {
		nn := 3 + i%3
		var names []string
		for k := 1; k <= nn; k++ {
			names = append(names, fmt.Sprintf("n%d", k))
		}
		rng := rand.New(rand.NewSource(c.Seed*131 + int64(i)))
		s := newGsim(names, names[:1], true)
		s.launch("n1")
		s.launch("n2")
		s.join("n2", "n1")
		for r := 0; r < 1+rng.Intn(2); r++ {
			s.round(rng.Intn)
		}
		s.crash("n2")
		s.launch("n2")
		s.join("n2", "n1")
		// the re-joined node's first messages: lost, or still in flight while the others join
		switch i % 3 {
		case 0:
			for s.lose("n2", "n1") {
			}
		case 1:
			for _, o := range names {
				for s.lose("n2", o) {
				}
			}
		}
		for k := 3; k <= nn; k++ {
			s.launch(names[k-1])
			s.join(names[k-1], "n1")
			if rng.Intn(2) == 0 {
				s.round(rng.Intn)
			}
		}
		s.finish(rng)
		c.Add("evaluations", 1)
		classes["restart-then-late-joiners"]++
		traces = append(traces, &Trace{Events: s.events, Class: "restart-then-late-joiners", Name: fmt.Sprintf("rejoin#%d", i),
			Scenario: map[string]any{"nodes": names, "seeds": names[:1], "restarted": "n2", "first_messages_of_the_rejoined_node": []string{"lost towards the seed", "all lost", "in flight"}[i%3], "seed": c.Seed*131 + int64(i)}})
	}
	// directed: a node restarts (same NodeID), the first join attempt of the new process does not get through, and before
	// the retry fires gossip reaches it that still lists its previous incarnation (another node joins meanwhile)
	for i := 0; i < core.Pick(c, 9, 45); i++ {
		rng := rand.New(rand.NewSource(c.Seed*173 + int64(i)))
		nn := 4 + i%3
		var names []string
		for k := 1; k <= nn; k++ {
			names = append(names, fmt.Sprintf("n%d", k))
		}
		s := newGsim(names, names[:1], true)
		s.launch("n1")
		for _, n := range []string{"n2", "n3"} {
			s.launch(n)
			s.join(n, "n1")
		}
		for r := 0; r < 2; r++ {
			s.round(rng.Intn)
		}
		s.crash("n2")
		s.launch("n2") // joining: the first attempt has failed, the retry is pending
		if i%3 == 1 {
			s.cut[pairKey("n2", "n1")] = true // the seed stays unreachable from n2 for a while
		}
		for k := 4; k <= nn; k++ { // news for everybody, also for n2's address
			s.launch(names[k-1])
			s.join(names[k-1], "n1")
			for _, o := range names {
				if o != "n2" {
					for s.deliver(o, "n2") {
					}
				}
			}
			if rng.Intn(2) == 0 {
				s.round(rng.Intn)
			}
		}
		delete(s.cut, pairKey("n2", "n1"))
		s.join("n2", "n1")
		s.finish(rng)
		c.Add("evaluations", 1)
		classes["restart-first-join-fails"]++
		traces = append(traces, &Trace{Events: s.events, Class: "restart-first-join-fails", Name: fmt.Sprintf("rejoin-late#%d", i),
			Scenario: map[string]any{"nodes": names, "seeds": names[:1], "restarted": "n2", "seed": c.Seed*173 + int64(i)}})
	}
	// directed: islands.  (a) two seeds that cannot talk to each other at first, each takes joiners; (b) two self-seeded
	// nodes (each its own only seed) with joiners, and a node whose seed list names both.  Then the partition heals.
	for i := 0; i < core.Pick(c, 12, 60); i++ {
		rng := rand.New(rand.NewSource(c.Seed*211 + int64(i)))
		nn := 4 + i%3
		var names []string
		for k := 1; k <= nn; k++ {
			names = append(names, fmt.Sprintf("n%d", k))
		}
		variant := []string{"two-seeds-partitioned", "self-seeded-islands-and-a-bridge"}[i%2]
		s := newGsim(names, []string{"n1", "n2"}, true)
		side := map[string]string{"n1": "n1", "n2": "n2"}
		for _, n := range names[2:] {
			side[n] = []string{"n1", "n2"}[rng.Intn(2)]
		}
		side["n3"], side["n4"] = "n1", "n2" // both islands have at least two members
		if variant == "two-seeds-partitioned" {
			for _, a := range names {
				for _, b := range names {
					if a < b && side[a] != side[b] {
						s.cut[pairKey(a, b)] = true
					}
				}
			}
		} else {
			s.seedsOf = map[string][]string{}
			for _, n := range names {
				s.seedsOf[n] = []string{side[n]}
			}
			s.seedsOf["n3"] = []string{"n1", "n2"} // the bridge: it joins n1's island and knows n2 as a seed
		}
		s.launch("n1")
		s.launch("n2")
		for _, k := range rng.Perm(nn - 2) {
			n := names[2+k]
			s.launch(n)
			s.join(n, side[n])
			if rng.Intn(2) == 0 {
				s.round(rng.Intn)
			}
		}
		for r := 0; r < 1+rng.Intn(3); r++ {
			s.round(rng.Intn)
		}
		s.finish(rng) // heals, settles, probes
		c.Add("evaluations", 1)
		classes["islands-"+variant]++
		traces = append(traces, &Trace{Events: s.events, Class: "islands-" + variant, Name: fmt.Sprintf("islands#%d", i),
			Scenario: map[string]any{"nodes": names, "variant": variant, "island_of": side, "seed": c.Seed*211 + int64(i)}})
	}
	// failure detection on (the default configuration has it on with 40 s): healthy clusters, no faults at all
	for i := 0; i < core.Pick(c, 4, 12); i++ {
		nn := 2 + i%3
		var names []string
		for k := 1; k <= nn; k++ {
			names = append(names, fmt.Sprintf("n%d", k))
		}
		s := newGsim(names, names[:1], true)
		s.fd = 30 * time.Millisecond
		rng := rand.New(rand.NewSource(c.Seed + int64(i)))
		for _, k := range rng.Perm(nn) {
			s.launch(names[k])
		}
		s.finish(rng)
		c.Add("evaluations", 1)
		classes["healthy-failure-detection-on"]++
		traces = append(traces, &Trace{Events: s.events, Class: "healthy-failure-detection-on", Name: fmt.Sprintf("fd#%d", i),
			Scenario: map[string]any{"nodes": names, "seeds": names[:1], "failure_detection_timeout_ms": 30, "faults": "none"}})
	}
	c.Set("scenario_classes", classes)
	tvMaxRounds = 3
	defer func() { tvMaxRounds = 12 }()
	// one validation per class: a known finding in one class must not hide the other classes
	byClass := map[string][]*Trace{}
	for _, t := range traces {
		byClass[t.Class] = append(byClass[t.Class], t)
	}
	var names []string
	for k := range byClass {
		names = append(names, k)
	}
	sort.Strings(names)
	for _, k := range names {
		res := ValidateTraces(c, "gossip", "ConvergeMon", "ConvergeMon.cfg", byClass[k], gossipDefaults)
		res.Report(c, "ConvergeMon")
		c.Add("traces_validated_against_impl", int64(res.Validated))
		second := false
		for _, rj := range res.Rejected {
			if rj.Rule == "CrashedNodeAbsent" || rj.Rule == "LeftNodeAbsent" || rj.Rule == "NoShadowIncarnation" {
				second = true
			}
		}
		if second {
			// every trace of a class with a recorded protocol finding fails the same rule first: judge the
			// remaining rules on all of them in a second pass with those rules switched off
			res2 := ValidateTraces(c, "gossip", "ConvergeMon", "ConvergeMon_rest.cfg", byClass[k], gossipDefaults)
			res2.Report(c, "ConvergeMon")
			c.Add("traces_validated_for_the_remaining_rules", int64(res2.Validated))
		}
	}
	c.Set("distinct_nontrivial", len(traces))
	c.Set("rule", "TLC-simulated behaviours of Gossip (3 nodes, de-duplicated) replayed step by step on real NodeActor objects, plus seeded random scenarios on 4-7 nodes; every scenario launches all nodes")
	for i := 0; i < len(traces) && i < 2; i++ {
		c.Sample(map[string]any{"class": traces[i].Class, "trace_head": head(traces[i].Events, 10)})
	}
	c.Assume("the simulator replaces the actor runtime (mailbox, remoting, scheduler) by a deterministic driver: one OnReceive at a time per node, FIFO per pair of nodes, Ask answered inside the caller's turn; messages pass through the real wire codec")
	c.Assume("failure detection is off in the simulated scenarios (it reads the wall clock); its consequences are part of the recorded findings")
}
