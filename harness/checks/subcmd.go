package checks

// Subcommand dispatches helper invocations of the vcheck binary (child processes of
// checks, self tests, replays). It returns ok=false when args name a property check.
func Subcommand(args []string) (int, bool) {
	if f, ok := subcommands[args[0]]; ok {
		return f(args[1:]), true
	}
	return 0, false
}

var subcommands = map[string]func([]string) int{}
