// Package ctl is the controlled scheduler: goroutines of the code under test block at
// the verifhook points and are released one at a time by the harness, so that a TLC
// behaviour (or a seeded random choice) decides the interleaving and every recorded event
// has an exact position in a total order.
package ctl

import (
	"bytes"
	"fmt"
	"runtime"
	"strconv"
	"sync"
	"time"
)

// Waiter is a goroutine parked at a hook point.
type Waiter struct {
	GID   uint64
	Role  string
	Point string
	Obj   any
	Arg   any
	rel   chan struct{}
}

type Ctl struct {
	mu           sync.Mutex
	cond         *sync.Cond
	waiting      map[uint64]*Waiter
	running      int
	pendingSpawn int
	roles        map[uint64]string
	steps        map[uint64]int // hook points passed by a goroutine (for spin detection)

	// Filter decides whether a hook call belongs to the controlled objects; nil = all.
	Filter func(point string, obj any) bool
	// Pass lists the points that never block (but are still reported through OnPass).
	Pass map[string]bool
	// SpawnPoints are points after whose release a new goroutine is expected.
	SpawnPoints map[string]bool
	// BirthPoints are the first points of newly spawned goroutines.
	BirthPoints map[string]bool
	// ExitPoints are the last points of controlled goroutines (they end after them).
	ExitPoints map[string]bool
	// ParkPoints announce that the goroutine is about to block on something outside the controller
	// (a channel of the code under test); it does not count as running until its next hook point.
	ParkPoints map[string]bool
	parked     map[uint64]bool
	born       map[uint64]bool // goroutines first seen at a birth point (they end at an exit point)
	// NewRole names a goroutine first seen at a birth point.
	NewRole func(point string, obj any) string
	// NewRoleArg, when set, is used instead of NewRole (it also sees the hook argument).
	NewRoleArg func(point string, obj any, arg any) string
	// PassFn, when set, decides per call whether a (non-exit, non-park) point passes without blocking.
	PassFn func(point string, obj any) bool
	// OnPass is called (with the controller lock held) for every pass-through point.
	OnPass func(role, point string, obj, arg any)
	// Free, when set, turns every hook into a no-op (used to let a finished scenario drain).
	free bool
}

func New() *Ctl {
	c := &Ctl{waiting: map[uint64]*Waiter{}, roles: map[uint64]string{}, steps: map[uint64]int{},
		Pass: map[string]bool{}, SpawnPoints: map[string]bool{}, BirthPoints: map[string]bool{}, ExitPoints: map[string]bool{},
		ParkPoints: map[string]bool{}, parked: map[uint64]bool{}, born: map[uint64]bool{}}
	c.cond = sync.NewCond(&c.mu)
	return c
}

// Debug prints every controlled hook call.
var Debug = false

// GoID returns the id of the calling goroutine.
func GoID() uint64 {
	var buf [64]byte
	n := runtime.Stack(buf[:], false)
	b := buf[:n]
	b = bytes.TrimPrefix(b, []byte("goroutine "))
	i := bytes.IndexByte(b, ' ')
	id, _ := strconv.ParseUint(string(b[:i]), 10, 64)
	return id
}

// Hook is the function to install with verifhook.Set.
func (c *Ctl) Hook(point string, obj any, arg any) { c.hook(point, obj, arg, true) }

func (c *Ctl) hook(point string, obj any, arg any, filter bool) {
	if filter && c.Filter != nil && !c.Filter(point, obj) {
		return
	}
	c.mu.Lock()
	if c.free {
		c.mu.Unlock()
		return
	}
	gid := GoID()
	role, known := c.roles[gid]
	if !known {
		if !c.BirthPoints[point] {
			// an unknown goroutine (not started through Go, not born at a birth point): not controlled
			c.mu.Unlock()
			return
		}
		role = fmt.Sprintf("g%d", gid)
		if c.NewRoleArg != nil {
			role = c.NewRoleArg(point, obj, arg)
		} else if c.NewRole != nil {
			role = c.NewRole(point, obj)
		}
		c.roles[gid] = role
		c.born[gid] = true
		c.running++
		if c.pendingSpawn > 0 {
			c.pendingSpawn--
		}
	}
	c.steps[gid]++
	if Debug {
		fmt.Printf("HOOK gid=%d role=%s point=%s known=%v born=%v running=%d\n", gid, role, point, known, c.born[gid], c.running)
	}
	if c.parked[gid] {
		delete(c.parked, gid)
		c.running++
	}
	if c.ParkPoints[point] {
		if c.OnPass != nil {
			c.OnPass(role, point, obj, arg)
		}
		c.parked[gid] = true
		c.running--
		c.cond.Broadcast()
		c.mu.Unlock()
		return
	}
	if c.ExitPoints[point] && !c.born[gid] {
		// a thread started through Go/Do merely passes an exit point; it ends when its function returns
		c.mu.Unlock()
		return
	}
	if c.ExitPoints[point] {
		if c.OnPass != nil {
			c.OnPass(role, point, obj, arg)
		}
		c.running--
		delete(c.roles, gid)
		delete(c.born, gid)
		c.cond.Broadcast()
		c.mu.Unlock()
		return
	}
	if c.Pass[point] || (c.PassFn != nil && c.PassFn(point, obj)) {
		if c.SpawnPoints[point] {
			c.pendingSpawn++
		}
		if c.OnPass != nil {
			c.OnPass(role, point, obj, arg)
		}
		c.mu.Unlock()
		return
	}
	w := &Waiter{GID: gid, Role: role, Point: point, Obj: obj, Arg: arg, rel: make(chan struct{})}
	c.waiting[gid] = w
	c.running--
	c.cond.Broadcast()
	c.mu.Unlock()
	<-w.rel
}

// Yield is a harness-side blocking point (e.g. inside a recording handler).
func (c *Ctl) Yield(point string, obj any, arg any) { c.hook(point, obj, arg, false) }

// Go starts a harness goroutine with a role; it counts as running until it parks or ends.
func (c *Ctl) Go(role string, fn func()) {
	c.mu.Lock()
	c.running++
	c.mu.Unlock()
	started := make(chan struct{})
	go func() {
		gid := GoID()
		c.mu.Lock()
		c.roles[gid] = role
		c.mu.Unlock()
		close(started)
		defer func() {
			c.mu.Lock()
			if c.parked[gid] {
				// it announced a block outside the controller and ends without another hook point:
				// it was already taken out of the running count
				delete(c.parked, gid)
			} else {
				c.running--
			}
			delete(c.roles, gid)
			c.cond.Broadcast()
			c.mu.Unlock()
		}()
		fn()
	}()
	<-started
}

// WaitSettled blocks until no controlled goroutine is running between hook points.
func (c *Ctl) WaitSettled(timeout time.Duration) error {
	deadline := time.Now().Add(timeout)
	stop := make(chan struct{})
	defer close(stop)
	go func() {
		t := time.NewTimer(timeout + 10*time.Millisecond)
		defer t.Stop()
		select {
		case <-t.C:
			c.mu.Lock()
			c.cond.Broadcast()
			c.mu.Unlock()
		case <-stop:
		}
	}()
	c.mu.Lock()
	defer c.mu.Unlock()
	for c.running > 0 || c.pendingSpawn > 0 {
		if time.Now().After(deadline) {
			return fmt.Errorf("not settled after %v: running=%d pendingSpawn=%d waiting=%d", timeout, c.running, c.pendingSpawn, len(c.waiting))
		}
		c.cond.Wait()
	}
	return nil
}

// Waiters returns a snapshot of the parked goroutines.
func (c *Ctl) Waiters() []*Waiter {
	c.mu.Lock()
	defer c.mu.Unlock()
	out := make([]*Waiter, 0, len(c.waiting))
	for _, w := range c.waiting {
		out = append(out, w)
	}
	return out
}

// Find returns the parked goroutine with the given role, or nil.
func (c *Ctl) Find(role string) *Waiter {
	c.mu.Lock()
	defer c.mu.Unlock()
	for _, w := range c.waiting {
		if w.Role == role {
			return w
		}
	}
	return nil
}

// Release lets one parked goroutine run to its next hook point (or its end).
func (c *Ctl) Release(w *Waiter) {
	c.mu.Lock()
	if c.waiting[w.GID] != w {
		c.mu.Unlock()
		return
	}
	delete(c.waiting, w.GID)
	c.running++
	if c.SpawnPoints[w.Point] {
		c.pendingSpawn++
	}
	c.mu.Unlock()
	close(w.rel)
}

// Steps returns how many hook points the goroutine has passed.
func (c *Ctl) Steps(gid uint64) int {
	c.mu.Lock()
	defer c.mu.Unlock()
	return c.steps[gid]
}

// Abandon leaves every parked goroutine parked for ever (they hold no locks) and makes all
// later hook calls no-ops. Used when a scenario is cut off (spin detected).
func (c *Ctl) Abandon() {
	c.mu.Lock()
	c.free = true
	c.waiting = map[uint64]*Waiter{}
	c.mu.Unlock()
}

// FreeRun releases every parked goroutine and disables the hooks (drain at the end).
func (c *Ctl) FreeRun() {
	c.mu.Lock()
	c.free = true
	ws := c.waiting
	c.waiting = map[uint64]*Waiter{}
	c.mu.Unlock()
	for _, w := range ws {
		close(w.rel)
	}
}

// ---- process-wide dispatch: several scenarios (each with its own controller) may run in parallel ----

var (
	activeMu sync.RWMutex
	active   []*Ctl
)

// Activate adds the controller to the set consulted by Dispatch.
func Activate(c *Ctl) {
	activeMu.Lock()
	active = append(active, c)
	activeMu.Unlock()
}

func Deactivate(c *Ctl) {
	activeMu.Lock()
	for i, x := range active {
		if x == c {
			active = append(active[:i:i], active[i+1:]...)
			break
		}
	}
	activeMu.Unlock()
}

// Dispatch is installed once with verifhook.Set; it hands the call to the controller whose
// Filter accepts the object.
func Dispatch(point string, obj any, arg any) {
	activeMu.RLock()
	var target *Ctl
	for _, c := range active {
		if c.Filter == nil || c.Filter(point, obj) {
			target = c
			break
		}
	}
	activeMu.RUnlock()
	if target != nil {
		target.hookNoFilter(point, obj, arg)
	}
}

func (c *Ctl) hookNoFilter(point string, obj any, arg any) { c.hook(point, obj, arg, false) }

// RoleOfCurrent returns the role of the calling goroutine ("" if it is not controlled).
func (c *Ctl) RoleOfCurrent() string {
	gid := GoID()
	c.mu.Lock()
	defer c.mu.Unlock()
	return c.roles[gid]
}

// LiveRoles counts the controlled goroutines whose role starts with prefix.
func (c *Ctl) LiveRoles(prefix string) int {
	c.mu.Lock()
	defer c.mu.Unlock()
	n := 0
	for _, r := range c.roles {
		if len(r) >= len(prefix) && r[:len(prefix)] == prefix {
			n++
		}
	}
	return n
}

// FindWait is Find with patience: a goroutine woken by the previous step (through a channel of the
// code under test) may still be on its way to its hook point.
func (c *Ctl) FindWait(role string, patience time.Duration) *Waiter {
	deadline := time.Now().Add(patience)
	for {
		if w := c.Find(role); w != nil {
			return w
		}
		if time.Now().After(deadline) {
			return nil
		}
		time.Sleep(200 * time.Microsecond)
	}
}

// Parked reports how many goroutines are blocked outside the controller.
func (c *Ctl) Parked() int {
	c.mu.Lock()
	defer c.mu.Unlock()
	return len(c.parked)
}

// Do runs fn in the calling goroutine as a controlled thread: hook points it passes are seen by the
// controller (spawn announcements are counted) and the call counts as running until it returns.
func (c *Ctl) Do(role string, fn func()) {
	gid := GoID()
	c.mu.Lock()
	c.running++
	c.roles[gid] = role
	c.mu.Unlock()
	defer func() {
		c.mu.Lock()
		c.running--
		delete(c.roles, gid)
		c.cond.Broadcast()
		c.mu.Unlock()
	}()
	fn()
}
