module github.com/kercylan98/vivid/verifharness

go 1.26

require github.com/kercylan98/vivid v0.0.0

require (
	github.com/google/uuid v1.6.0 // indirect
	github.com/reugn/go-quartz v0.15.2 // indirect
	golang.org/x/sync v0.19.0 // indirect
)

replace github.com/kercylan98/vivid => /repo
