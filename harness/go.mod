module github.com/kercylan98/vivid/verifharness

go 1.26

require github.com/kercylan98/vivid v0.0.0

require github.com/google/uuid v1.6.0 // indirect

replace github.com/kercylan98/vivid => /repo
