// Package tlc runs the TLC model checker on the specifications under /verif/specs
// (copied into a private scratch directory per run) and parses what the harness needs
// from its output: state counts, the violated property, emitted JSON lines, coverage.
package tlc

import (
	"bufio"
	"bytes"
	"context"
	"encoding/json"
	"fmt"
	"io"
	"os"
	"os/exec"
	"path/filepath"
	"regexp"
	"runtime"
	"strconv"
	"strings"
	"time"
)

const (
	jar     = "/opt/veriftools/tla/tla2tools.jar"
	depsJar = "/opt/veriftools/tla/CommunityModules-deps.jar"
)

// Scratch is a private working directory for one check run. Everything TLC or a child
// process litters goes below it and is removed by Close.
type Scratch struct{ Dir string }

func NewScratch() (*Scratch, error) {
	d, err := os.MkdirTemp("", "vcheck-")
	if err != nil {
		return nil, err
	}
	return &Scratch{Dir: d}, nil
}

func (s *Scratch) Close() { _ = os.RemoveAll(s.Dir) }

// Sub creates (and returns) a sub-directory of the scratch directory.
func (s *Scratch) Sub(name string) string {
	p := filepath.Join(s.Dir, name)
	_ = os.MkdirAll(p, 0o755)
	return p
}

// CopySpecs copies every *.tla / *.cfg of specDir into dst.
func CopySpecs(specDir, dst string) error {
	ents, err := os.ReadDir(specDir)
	if err != nil {
		return err
	}
	for _, e := range ents {
		if e.IsDir() {
			continue
		}
		n := e.Name()
		if !strings.HasSuffix(n, ".tla") && !strings.HasSuffix(n, ".cfg") {
			continue
		}
		b, err := os.ReadFile(filepath.Join(specDir, n))
		if err != nil {
			return err
		}
		if err := os.WriteFile(filepath.Join(dst, n), b, 0o644); err != nil {
			return err
		}
	}
	return nil
}

// Run describes one TLC invocation.
type Run struct {
	Dir      string        // working directory that holds the module and cfg (a scratch copy)
	Module   string        // module file name without .tla
	Config   string        // cfg file name (with .cfg)
	Workers  int           // 0 = all cores
	Timeout  time.Duration // hard limit
	Args     []string      // extra TLC arguments (-simulate ..., -depth ..., -coverage 1 ...)
	HeapMB   int           // 0 = JVM default (25% of RAM)
	DFS      bool          // use the depth-first state queue (trace validation with branching)
	KeepOut  bool          // keep the complete output in Result.Output (otherwise only the tail)
	OnLine   func(string)  // called for every output line that starts with a double quote (PrintT of a string)
	DumpJSON string        // if set: -dumpTrace json <file>
	Quiet    bool
}

// Result is what the harness needs to know about a finished TLC run.
type Result struct {
	ExitCode     int
	TimedOut     bool
	Generated    int64
	Distinct     int64
	Depth        int
	Violation    string // "", "invariant", "action", "temporal", "deadlock", "postcondition", "assumption", "error"
	ViolatedName string
	Output       string // tail (or all) of the output
	Emitted      int    // number of PrintT string lines seen
	WallS        float64
	Coverage     map[string]int64 // action name -> distinct states found by it (when -coverage was on)
}

var (
	reStates   = regexp.MustCompile(`^(\d+) states generated, (\d+) distinct states found`)
	reSimStates = regexp.MustCompile(`^The number of states generated: (\d+)`)
	reDepth    = regexp.MustCompile(`^The depth of the complete state graph search is (\d+)`)
	reInv      = regexp.MustCompile(`^Error: Invariant (\S+) is violated`)
	reActProp  = regexp.MustCompile(`^Error: Action property (\S+) is violated`)
	reCov      = regexp.MustCompile(`^<(\w+) line \d+, col \d+ to line \d+, col \d+ of module (\w+)>: (\d+):(\d+)`)
)

// Exec runs TLC. It never interprets a time-out or a crash of TLC as a property verdict:
// those are reported through TimedOut / Violation=="error".
func Exec(r Run) (*Result, error) {
	if r.Workers <= 0 {
		r.Workers = runtime.NumCPU()
	}
	if r.Timeout <= 0 {
		r.Timeout = 10 * time.Minute
	}
	meta, err := os.MkdirTemp(r.Dir, "meta-")
	if err != nil {
		return nil, err
	}
	defer os.RemoveAll(meta)
	tmp, err := os.MkdirTemp(r.Dir, "jtmp-")
	if err != nil {
		return nil, err
	}
	defer os.RemoveAll(tmp)

	jargs := []string{"-XX:+UseParallelGC", "-Xss64m", "-Djava.io.tmpdir=" + tmp}
	if r.HeapMB > 0 {
		jargs = append(jargs, fmt.Sprintf("-Xmx%dm", r.HeapMB))
	}
	if r.DFS {
		jargs = append(jargs, "-Dtlc2.tool.queue.IStateQueue=StateDeque")
	}
	jargs = append(jargs, "-cp", jar+":"+depsJar, "tlc2.TLC",
		"-workers", strconv.Itoa(r.Workers), "-metadir", meta, "-noGenerateSpecTE")
	if r.Config != "" {
		jargs = append(jargs, "-config", r.Config)
	}
	if r.DumpJSON != "" {
		jargs = append(jargs, "-dumpTrace", "json", r.DumpJSON)
	}
	jargs = append(jargs, r.Args...)
	jargs = append(jargs, r.Module+".tla")

	ctx, cancel := context.WithTimeout(context.Background(), r.Timeout)
	defer cancel()
	cmd := exec.CommandContext(ctx, "java", jargs...)
	cmd.Dir = r.Dir
	cmd.Env = append(os.Environ(), "JAVA_TOOL_OPTIONS=")
	pr, pw := io.Pipe()
	cmd.Stdout = pw
	cmd.Stderr = pw
	start := time.Now()
	if err := cmd.Start(); err != nil {
		return nil, err
	}
	res := &Result{Coverage: map[string]int64{}}
	var tail []string
	var all bytes.Buffer
	done := make(chan struct{})
	go func() {
		defer close(done)
		sc := bufio.NewScanner(pr)
		sc.Buffer(make([]byte, 1<<20), 1<<28)
		for sc.Scan() {
			line := sc.Text()
			if strings.HasPrefix(line, "\"") && r.OnLine != nil {
				res.Emitted++
				if s, err := strconv.Unquote(line); err == nil {
					r.OnLine(s)
				} else {
					r.OnLine(line)
				}
				continue
			}
			if r.KeepOut {
				all.WriteString(line)
				all.WriteByte('\n')
			} else {
				tail = append(tail, line)
				if len(tail) > 400 {
					tail = tail[len(tail)-300:]
				}
			}
			parseLine(res, line)
		}
	}()
	werr := cmd.Wait()
	pw.Close()
	<-done
	res.WallS = time.Since(start).Seconds()
	if r.KeepOut {
		res.Output = all.String()
	} else {
		res.Output = strings.Join(tail, "\n")
	}
	if ctx.Err() == context.DeadlineExceeded {
		res.TimedOut = true
		res.Violation = "error"
		return res, nil
	}
	if werr != nil {
		if ee, ok := werr.(*exec.ExitError); ok {
			res.ExitCode = ee.ExitCode()
		} else {
			return res, werr
		}
	}
	if res.ExitCode != 0 && res.Violation == "" {
		res.Violation = "error"
	}
	return res, nil
}

func parseLine(res *Result, line string) {
	if m := reStates.FindStringSubmatch(line); m != nil {
		res.Generated, _ = strconv.ParseInt(m[1], 10, 64)
		res.Distinct, _ = strconv.ParseInt(m[2], 10, 64)
		return
	}
	if m := reSimStates.FindStringSubmatch(line); m != nil {
		res.Generated, _ = strconv.ParseInt(m[1], 10, 64)
		return
	}
	if m := reDepth.FindStringSubmatch(line); m != nil {
		res.Depth, _ = strconv.Atoi(m[1])
		return
	}
	if m := reInv.FindStringSubmatch(line); m != nil {
		res.Violation, res.ViolatedName = "invariant", strings.TrimSuffix(m[1], ".")
		return
	}
	if m := reActProp.FindStringSubmatch(line); m != nil {
		res.Violation, res.ViolatedName = "action", strings.TrimSuffix(m[1], ".")
		return
	}
	if m := reCov.FindStringSubmatch(line); m != nil {
		n, _ := strconv.ParseInt(m[3], 10, 64)
		res.Coverage[m[1]] += n
		return
	}
	switch {
	case strings.HasPrefix(line, "Error: Temporal properties were violated"):
		res.Violation = "temporal"
	case strings.HasPrefix(line, "Error: Deadlock reached"):
		res.Violation = "deadlock"
	case strings.Contains(line, "Error: The postcondition") || strings.Contains(line, "POSTCONDITION") && strings.Contains(line, "violated"):
		res.Violation = "postcondition"
	case strings.HasPrefix(line, "Error: Assumption"):
		res.Violation = "assumption"
	case strings.HasPrefix(line, "Error:") && res.Violation == "":
		res.Violation = "error"
	}
}

// TraceState is one state of a counterexample written by -dumpTrace json.
type TraceState map[string]json.RawMessage

// ReadDumpTrace reads the file written by -dumpTrace json: {"state":[[n,{vars}],...]} or
// {"action":[...]} depending on the TLC build; only the variable maps are returned.
func ReadDumpTrace(path string) ([]TraceState, error) {
	b, err := os.ReadFile(path)
	if err != nil {
		return nil, err
	}
	var top map[string]json.RawMessage
	if err := json.Unmarshal(b, &top); err != nil {
		return nil, err
	}
	if ce, ok := top["counterexample"]; ok {
		var inner map[string]json.RawMessage
		if err := json.Unmarshal(ce, &inner); err == nil {
			top = inner
		}
	}
	var out []TraceState
	if raw, ok := top["state"]; ok {
		var sts []json.RawMessage
		if err := json.Unmarshal(raw, &sts); err != nil {
			return nil, err
		}
		for _, s := range sts {
			var pair []json.RawMessage
			if err := json.Unmarshal(s, &pair); err == nil && len(pair) == 2 {
				var ts TraceState
				if err := json.Unmarshal(pair[1], &ts); err == nil {
					out = append(out, ts)
					continue
				}
			}
			var ts TraceState
			if err := json.Unmarshal(s, &ts); err == nil {
				out = append(out, ts)
			}
		}
	}
	return out, nil
}

// Sany parses a module (used by --setup to make sure every spec at least parses).
func Sany(dir, module string) error {
	cmd := exec.Command("java", "-cp", jar+":"+depsJar, "tla2sany.SANY", module+".tla")
	cmd.Dir = dir
	out, err := cmd.CombinedOutput()
	if err != nil || bytes.Contains(out, []byte("*** Errors")) || bytes.Contains(out, []byte("Fatal errors")) {
		return fmt.Errorf("SANY %s: %v\n%s", module, err, out)
	}
	return nil
}
