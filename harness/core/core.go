// Package core holds what every check shares: the run context (tier, seed, scratch
// directory), the evidence writer, the known-findings file and the verdict rules.
package core

import (
	"encoding/json"
	"fmt"
	"os"
	"path"
	"path/filepath"
	"sort"
	"strconv"
	"strings"
	"sync"
	"time"

	"github.com/kercylan98/vivid/verifharness/tlc"
)

// VerifDir is where the framework lives; overridable for background runs from a snapshot.
func VerifDir() string {
	if d := os.Getenv("VERIF_DIR"); d != "" {
		return d
	}
	if wd, err := os.Getwd(); err == nil {
		if _, err := os.Stat(filepath.Join(wd, "specs")); err == nil {
			return wd
		}
	}
	return "/verif"
}

// Ctx is the run context handed to every check.
type Ctx struct {
	Prop    string
	Tier    string // quick | thorough
	Seed    int64
	Scratch *tlc.Scratch
	Start   time.Time

	mu         sync.Mutex
	Ev         Evidence
	violations []Violation
	known      []string
	broken     []string
}

func (c *Ctx) Thorough() bool { return c.Tier == "thorough" }

// Pick returns q in the quick tier and t in the thorough tier.
func Pick[T any](c *Ctx, q, t T) T {
	if c.Thorough() {
		return t
	}
	return q
}

type Evidence struct {
	PropertyID  string         `json:"property_id"`
	Tier        string         `json:"tier"`
	Seed        int64          `json:"seed"`
	Level       string         `json:"level"`
	Coverage    map[string]any `json:"coverage"`
	Assumptions []string       `json:"assumptions,omitempty"`
	WallS       float64        `json:"wall_s"`
	Violations  int            `json:"violations"`
}

type Violation struct {
	Monitor  string `json:"monitor"`  // failing monitor invariant / formula
	Class    string `json:"class"`    // scenario class tag attached by the generator
	Detail   string `json:"detail"`   // human readable
	Scenario any    `json:"scenario"` // what to replay
	Trace    any    `json:"trace,omitempty"`
}

// KnownFinding is one entry of /verif/known_findings.json.
type KnownFinding struct {
	ID       string `json:"id"`
	Property string `json:"property"`
	Monitor  string `json:"monitor"`
	Class    string `json:"scenario_class"`
	History  string `json:"history"`
	Status   string `json:"status"` // open | fixed
	Commit   string `json:"commit,omitempty"`
}

func LoadKnown() ([]KnownFinding, error) {
	b, err := os.ReadFile(filepath.Join(VerifDir(), "known_findings.json"))
	if err != nil {
		if os.IsNotExist(err) {
			return nil, nil
		}
		return nil, err
	}
	var k []KnownFinding
	if err := json.Unmarshal(b, &k); err != nil {
		return nil, err
	}
	return k, nil
}

func NewCtx(prop, tier string) (*Ctx, error) {
	seed := int64(1)
	if s := os.Getenv("VERIF_SEED"); s != "" {
		if v, err := strconv.ParseInt(s, 10, 64); err == nil {
			seed = v
		}
	}
	sc, err := tlc.NewScratch()
	if err != nil {
		return nil, err
	}
	c := &Ctx{Prop: prop, Tier: tier, Seed: seed, Scratch: sc, Start: time.Now()}
	c.Ev = Evidence{PropertyID: prop, Tier: tier, Seed: seed, Level: "model_checking", Coverage: map[string]any{}}
	return c, nil
}

// SpecDir copies /verif/specs/<name> into a fresh scratch sub-directory and returns it.
func (c *Ctx) SpecDir(name string) (string, error) {
	dst := c.Scratch.Sub(name + "-" + strconv.FormatInt(time.Now().UnixNano(), 36))
	if err := tlc.CopySpecs(filepath.Join(VerifDir(), "specs", name), dst); err != nil {
		return "", err
	}
	return dst, nil
}

// Add adds n to an integer coverage counter.
func (c *Ctx) Add(key string, n int64) {
	c.mu.Lock()
	defer c.mu.Unlock()
	cur, _ := c.Ev.Coverage[key].(int64)
	c.Ev.Coverage[key] = cur + n
}

func (c *Ctx) Set(key string, v any) {
	c.mu.Lock()
	defer c.mu.Unlock()
	c.Ev.Coverage[key] = v
}

func (c *Ctx) Get(key string) int64 {
	c.mu.Lock()
	defer c.mu.Unlock()
	cur, _ := c.Ev.Coverage[key].(int64)
	return cur
}

// Sample appends to coverage.samples (capped).
func (c *Ctx) Sample(v any) {
	c.mu.Lock()
	defer c.mu.Unlock()
	s, _ := c.Ev.Coverage["samples"].([]any)
	if len(s) < 6 {
		c.Ev.Coverage["samples"] = append(s, v)
	}
}

func (c *Ctx) Assume(s string) {
	c.mu.Lock()
	defer c.mu.Unlock()
	for _, a := range c.Ev.Assumptions {
		if a == s {
			return
		}
	}
	c.Ev.Assumptions = append(c.Ev.Assumptions, s)
}

// MC records the counters of a model-checking run.
func (c *Ctx) MC(name string, r *tlc.Result) {
	c.Add("states", r.Distinct)
	c.Add("transitions", r.Generated)
	c.mu.Lock()
	runs, _ := c.Ev.Coverage["tlc_runs"].([]any)
	c.Ev.Coverage["tlc_runs"] = append(runs, map[string]any{
		"model": name, "distinct": r.Distinct, "generated": r.Generated, "depth": r.Depth,
		"wall_s": round1(r.WallS), "result": orOK(r.Violation),
	})
	c.mu.Unlock()
}

func orOK(s string) string {
	if s == "" {
		return "ok"
	}
	return s
}

func round1(f float64) float64 { return float64(int(f*10+0.5)) / 10 }

// Violate records a violation found on a trace recorded from the real code.
func (c *Ctx) Violate(v Violation) {
	c.mu.Lock()
	defer c.mu.Unlock()
	c.violations = append(c.violations, v)
}

// Broken records that the check itself could not do its job (exit 2).
func (c *Ctx) Broken(format string, a ...any) {
	c.mu.Lock()
	defer c.mu.Unlock()
	c.broken = append(c.broken, fmt.Sprintf(format, a...))
}

func (c *Ctx) IsBroken() bool {
	c.mu.Lock()
	defer c.mu.Unlock()
	return len(c.broken) > 0
}

// Finish writes the evidence file, prints KNOWN-FINDING / VIOLATION lines and returns
// the process exit code (0 ok, 1 violation, 2 broken check).
func (c *Ctx) Finish() int {
	defer c.Scratch.Close()
	known, kerr := LoadKnown()
	if kerr != nil {
		c.broken = append(c.broken, "known_findings.json unreadable: "+kerr.Error())
	}
	type agg struct {
		v Violation
		n int
	}
	newV := map[string]*agg{}
	knownHit := map[string]*agg{}
	for _, v := range c.violations {
		matched := ""
		for _, k := range known {
			if k.Status == "open" && k.Property == c.Prop && k.Monitor == v.Monitor && classMatches(k.Class, v.Class) {
				matched = k.ID
				break
			}
		}
		if matched != "" {
			if a, ok := knownHit[matched]; ok {
				a.n++
			} else {
				knownHit[matched] = &agg{v, 1}
			}
			continue
		}
		key := v.Monitor + "|" + v.Class
		if a, ok := newV[key]; ok {
			a.n++
		} else {
			newV[key] = &agg{v, 1}
		}
	}
	code := 0
	ids := make([]string, 0, len(knownHit))
	for id := range knownHit {
		ids = append(ids, id)
	}
	sort.Strings(ids)
	var kf []any
	for _, id := range ids {
		a := knownHit[id]
		fmt.Printf("KNOWN-FINDING: property=%s id=%s monitor=%s class=%s occurrences=%d %s\n", c.Prop, id, a.v.Monitor, a.v.Class, a.n, oneLine(a.v.Detail))
		kf = append(kf, map[string]any{"id": id, "monitor": a.v.Monitor, "class": a.v.Class, "occurrences": a.n})
	}
	if kf != nil {
		c.Ev.Coverage["known_findings_reproduced"] = kf
	}
	keys := make([]string, 0, len(newV))
	for k := range newV {
		keys = append(keys, k)
	}
	sort.Strings(keys)
	for i, k := range keys {
		a := newV[k]
		dir := filepath.Join(VerifDir(), "replays")
		_ = os.MkdirAll(dir, 0o755)
		p := filepath.Join(dir, fmt.Sprintf("%s-%s-%d-%d.json", c.Prop, c.Tier, c.Seed, i))
		b, _ := json.MarshalIndent(map[string]any{
			"property": c.Prop, "tier": c.Tier, "seed": c.Seed, "monitor": a.v.Monitor, "class": a.v.Class,
			"detail": a.v.Detail, "occurrences": a.n, "scenario": a.v.Scenario, "trace": a.v.Trace,
		}, "", " ")
		_ = os.WriteFile(p, b, 0o644)
		fmt.Printf("VIOLATION property=%s replay=%s monitor=%s class=%s occurrences=%d %s\n", c.Prop, p, a.v.Monitor, a.v.Class, a.n, oneLine(a.v.Detail))
		code = 1
	}
	c.Ev.Violations = len(newV)
	c.Ev.WallS = round1(time.Since(c.Start).Seconds())
	if _, ok := c.Ev.Coverage["samples"]; !ok {
		c.Ev.Coverage["samples"] = []any{}
	}
	if len(c.broken) > 0 {
		c.Ev.Coverage["broken"] = c.broken
		for _, b := range c.broken {
			fmt.Printf("BROKEN-CHECK property=%s %s\n", c.Prop, oneLine(b))
		}
		if code == 0 {
			code = 2
		}
	}
	evdir := filepath.Join(VerifDir(), "evidence")
	_ = os.MkdirAll(evdir, 0o755)
	b, _ := json.MarshalIndent(c.Ev, "", " ")
	if err := os.WriteFile(filepath.Join(evdir, c.Prop+".json"), append(b, '\n'), 0o644); err != nil {
		fmt.Printf("BROKEN-CHECK property=%s cannot write evidence: %v\n", c.Prop, err)
		if code == 0 {
			code = 2
		}
	}
	if code == 0 {
		fmt.Printf("OK property=%s tier=%s seed=%d wall=%.1fs\n", c.Prop, c.Tier, c.Seed, c.Ev.WallS)
	}
	return code
}

func oneLine(s string) string {
	s = strings.ReplaceAll(s, "\n", " ")
	if len(s) > 300 {
		s = s[:300] + "…"
	}
	return s
}

// WriteNDJSON writes one JSON object per line.
func WriteNDJSON(path string, lines []map[string]any) error {
	f, err := os.Create(path)
	if err != nil {
		return err
	}
	defer f.Close()
	enc := json.NewEncoder(f)
	for _, l := range lines {
		if err := enc.Encode(l); err != nil {
			return err
		}
	}
	return nil
}

// PickD returns a when cond holds, b otherwise.
func PickD[T any](cond bool, a, b T) T {
	if cond {
		return a
	}
	return b
}

// classMatches compares a scenario class with the class pattern of a known finding ('*' matches any run of characters).
func classMatches(pattern, class string) bool {
	if pattern == class {
		return true
	}
	ok, err := path.Match(pattern, class)
	return err == nil && ok
}
