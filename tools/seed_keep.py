#!/usr/bin/env python3
"""seed_keep.py <prop> <src dir> <name> : copy a confirmed seeded fault into /verif/seeded/<name>/, run the
property's quick check with the patch applied to /repo (then revert) and record the outcome in meta.json."""
import json, os, shutil, subprocess, sys
prop, src, name = sys.argv[1:4]
tier = sys.argv[4] if len(sys.argv) > 4 else "quick"
dst = f"/verif/seeded/{name}"
os.makedirs(dst, exist_ok=True)
if os.path.realpath(src) != os.path.realpath(dst):
    for f in os.listdir(src):
        shutil.copy(os.path.join(src, f), dst)
meta_p = os.path.join(dst, "meta.json")
meta = json.load(open(meta_p)) if os.path.exists(meta_p) else {"property": prop}
st = subprocess.run(["git", "-C", "/repo", "status", "--short"], capture_output=True, text=True).stdout
if st.strip():
    sys.exit("refusing: /repo working tree is not clean:\n" + st)
ap = subprocess.run(["git", "-C", "/repo", "apply", os.path.join(dst, "patch.diff")], capture_output=True, text=True)
if ap.returncode != 0:
    sys.exit("patch does not apply: " + ap.stderr)
try:
    r = subprocess.run(["./vcheck", prop, "--tier", tier], cwd="/verif", capture_output=True, text=True, timeout=3600)
finally:
    subprocess.run(["git", "-C", "/repo", "checkout", "--", "."])
    subprocess.run(["git", "-C", "/repo", "clean", "-fdq"])
lines = [l[:400] for l in r.stdout.splitlines() if l.startswith(("VIOLATION", "KNOWN-FINDING", "OK", "BROKEN"))]
meta["verif_check"] = {"command": f"./vcheck {prop} --tier {tier}", "exit": r.returncode, "output": lines[:6],
                       "detected": r.returncode == 1 and any(l.startswith("VIOLATION") for l in lines)}
json.dump(meta, open(meta_p, "w"), indent=1, ensure_ascii=False)
print(name, "exit", r.returncode, "detected" if meta["verif_check"]["detected"] else "MISSED")
for l in lines[:3]: print("  ", l[:200])
