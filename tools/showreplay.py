#!/usr/bin/env python3
import json, sys
r=json.load(open(sys.argv[1])); lim=int(sys.argv[2]) if len(sys.argv)>2 else 200
print(r['detail']); sc=r['scenario'].get('scenario',{}); print('cfg', sc.get('cfg'), 'parent', sc.get('parent'))
if 'ops' in r['scenario']: print('ops', [(o['a'],o['x'],o.get('op',''),o.get('arg',''),o.get('poison',False)) for o in r['scenario']['ops']])
for i,e in enumerate(r['trace'][:lim]):
    if e.get('e')=='Turn': continue
    print(i+1,' '.join(f"{k}={v}" for k,v in e.items() if v not in ('',0)))
