#!/usr/bin/env python3
"""seed_prompt.py <Cnn> [extra hint] : prepares a scratch worktree + property file for a seeding sub-agent and prints the prompt."""
import json, os, subprocess, sys
pid = sys.argv[1]
hint = sys.argv[2] if len(sys.argv) > 2 else ""
tag = sys.argv[3] if len(sys.argv) > 3 else ""   # e.g. "r2": a second round for the same property
os.makedirs("/tmp/seed", exist_ok=True)
wt = f"/tmp/seed/wt-{pid}{tag}"
if not os.path.exists(wt):
    subprocess.run(["git", "-C", "/repo", "worktree", "add", "-q", "--detach", wt, "HEAD"], check=True)
for l in open("/verif/properties.jsonl"):
    p = json.loads(l)
    if p["id"] == pid:
        json.dump(p, open(f"/tmp/seed/{pid}.property.json", "w"), indent=1)
print(f"""You are helping evaluate a verification framework by producing *seeded faults*: realistic code changes that break a stated semantic property of a Go library while still compiling and passing the library's existing test-suite.

The library is kercylan98/vivid (a Go actor-model library). You have your OWN scratch git worktree of it at {wt} (work ONLY there; never touch /repo or /verif, never read anything under /verif). The property you must break is described in /tmp/seed/{pid}.property.json (read it: title, statement, quantifier, anchors tell you which files matter). Lines of the form `verifhook.At("...", ...)` in the source are no-op instrumentation points (empty function unless a build tag is set): leave them in place, do not remove or move them.

Toolchain (sandbox is offline): use `go1.26` (NOT plain `go`) and in every shell call first run:
  export GOFLAGS=-mod=mod GOPROXY=off GOSUMDB=off GOTOOLCHAIN=local
The full existing test-suite is `cd {wt} && go1.26 test -vet=off -count=1 ./...` (≈20-90 s). Several tests are known to be flaky on the UNMODIFIED tree (TestSystem_Start/stop_after and other TestSystem_* tests can hang until the 10 min timeout or fail, TestContext_Supervision/one_for_all_graceful_restart, TestCluster_Singleton, TestCluster_DataCenter, TestScheduler_Once, remoting tests using fixed ports when run concurrently with other processes): ignore failures that also occur without your change; run with `-timeout 120s` and re-run a failing package to tell flakiness from breakage.

Task: produce TWO independent changes (mutations) to the library's non-test source, each of which:
 1. breaks the property (as stated in the property's "statement"),
 2. still compiles, and the existing test-suite still passes with it (at least the packages you touched plus ./internal/actor/... ; report what you ran),
 3. is *subtle*: it needs something specific to manifest - a particular interleaving of goroutines, a fault at a particular point, a multi-step sequence of operations, an unusual input, or two cooperating sites that each look fine alone - NOT something that ordinary use exposes at once. Make the two changes different in mechanism. {hint}
 4. looks like a plausible refactoring/optimisation/bug a real developer could introduce (no gratuitous sabotage such as `if x == 42`).

For each change i in {{1,2}} create the directory /tmp/seed/out-{pid}{tag}/m<i>/ containing:
 - patch.diff : `git diff` of the change against the worktree HEAD (must apply with `git apply` on a clean checkout),
 - demo_test.go (or a small main program) : a demonstration that FAILS with the change applied and PASSES without it (if the manifestation needs a specific interleaving you may make it deterministic inside the demo with sleeps/channels/loops or by repeating until it shows, but it must fail reliably with the change and pass reliably without it); say in a comment at its top in which package directory it has to be placed and how to run it,
 - meta.json : {{"property": "{pid}", "breaks": "<which clause of the statement>", "needs": "<what specific interleaving/sequence/input is needed for it to manifest>", "demo_pkg": "<package directory of the demo relative to the repo root>", "ran": "<the commands you ran and their outcome, with and without the change>"}}.
Verify everything yourself: apply change → suite passes, demo fails; revert → demo passes. Leave the worktree clean (git checkout -- . and remove untracked files) when finished; each change must be independent (patch against HEAD, not on top of the other). Do not use git stash.

Final answer: a short summary of the two changes (what, why subtle, what you verified).""")
