#!/bin/sh
# seed_confirm.sh <seeded dir> <package dir relative to repo> [test packages...]
# Confirms in a scratch worktree: with the patch the demo fails and the listed package tests pass; without it the demo passes.
set -u
D=$1; PKG=$2; shift 2
export GOFLAGS=-mod=mod GOPROXY=off GOSUMDB=off GOTOOLCHAIN=local
WT=$(mktemp -d /tmp/seedwt.XXXXXX); rmdir $WT
git -C /repo worktree add -q --detach $WT HEAD || exit 2
cp $D/demo_test.go $WT/$PKG/zz_demo_test.go
cd $WT
go1.26 test -vet=off -count=1 -run 'C[0-9][0-9]|Demo|Seed' ./$PKG/ >/tmp/seed_nopatch.log 2>&1; A=$?
git apply $D/patch.diff || { echo "patch does not apply"; cd /; git -C /repo worktree remove --force $WT; exit 2; }
go1.26 test -vet=off -count=1 -run 'C[0-9][0-9]|Demo|Seed' ./$PKG/ >/tmp/seed_patch.log 2>&1; B=$?
rm $WT/$PKG/zz_demo_test.go
S=0
for p in "$@"; do go1.26 test -vet=off -count=1 $p >/tmp/seed_suite.log 2>&1 || { S=1; tail -5 /tmp/seed_suite.log; }; done
cd /; git -C /repo worktree remove --force $WT
echo "$(basename $D): demo without patch exit=$A (want 0), with patch exit=$B (want !=0), suite with patch exit=$S (want 0)"
