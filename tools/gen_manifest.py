#!/usr/bin/env python3
"""Generates /verif/MANIFEST.json from the table below (one source of truth)."""
import json, os, subprocess
HERE = os.path.dirname(os.path.dirname(os.path.abspath(__file__)))

# id -> (level category, technique, level text, level note, design ref)
CHECKS = {
 "C16": ("model_checking",
         "TLA+ spec of the vector algorithms model-checked over all triples; TLC monitor (VVMon) evaluates the lattice laws on tables produced by the real VersionVector for the TLC-generated domain",
         "Exhaustive within the domain: TLC checks the transcribed algorithms against the product-order definition and all lattice laws on every triple of vectors over 2-3 node ids and counters {absent,0,1,2,MAX-1,MAX}; the real Compare/Merge/Increment/Write/Read are then evaluated on every pair of the same domain and TLC checks the laws (all triples) on the implementation's own result tables.",
         "Counters outside the rank set and node sets larger than 3 are not evaluated; trusts TLC, the JSON round trip and the Go reader used to build vectors with explicit zero / maximum entries.",
         "§5 C16"),
}

CHECKS.update({
 "C01": ("model_checking",
         "TLA+ spec of the lock-free mailbox at atomic-operation granularity (TLC: all interleavings, safety + liveness NoSpin); TLC-simulated behaviours replayed hook-by-hook on the real UnboundedMailbox under a controlled scheduler; recorded traces validated by TLC against the MailboxMon monitor",
         "Every interleaving of the modelled configurations (2-3 callers, Pause/Resume, handlers acting on their own mailbox, consumer re-election) is explored by TLC for the safety invariants and, under weak fairness, for termination (no spin). The spec is bound to the code: TLC-generated behaviours are stepped through the real mailbox at the hook points with the mailbox state compared after every step, larger random scenarios run under seeded fine-grained (uniform and PCT-style) schedules, and every recorded event trace is judged by the TLA+ monitor.",
         "Queues are assumed linearisable FIFO (C02); sync/atomic is sequentially consistent - an operation that stops being atomic is outside the model and is looked for by an uninstrumented child process (one sender playing ping-pong with the handler per mailbox, two IsPaused pollers; a message not handled within 1 s is reported to MailboxMon); only the interleavings that were replayed/sampled bind the code, exhaustiveness holds for the model.",
         "§5 C01"),
 "C02": ("model_checking",
         "TLA+ spec of the ring buffer index arithmetic vs. a ghost FIFO (TLC, all words); every TLC-enumerated operation word replayed on the real RingQueue and judged by RingMon; mailbox ordering traces (controlled scheduler) judged by MailboxMon (SenderFIFO, SystemFirst)",
         "The ring algorithm is model-checked for all operation words up to 12/24 operations from every initial size 1..8; all words of the small configuration (tens of thousands) plus simulated and random long words around the real growth boundaries are executed on the real queue and their results validated by the monitor; per-sender FIFO and system-before-user are validated on fine-grained controlled executions of the real mailbox.",
         "Kill and stash ordering are decided on actor-system traces (ActorSys part; Unstash batches of every size over stashes of 2-9 messages, also across a restart; poison kills that reach an actor through its poison-killed ancestor); ring operations are atomic under the queue mutex.",
         "§5 C02"),
 "C17": ("model_checking",
         "TLA+ transcription of MergeFromWithOptions model-checked over all reachable view triples (TLC); monitor CVMon (TLC) evaluates the merge laws on result tables produced by the real ClusterView for every ordered pair of a TLC-generated well-formed view domain",
         "TLC checks union/newest/no-regress/monotone/changed and commutativity/associativity/idempotence of membership on every reachable triple of views of the model (joins, restarts, fresh re-joins, status changes, increments, merges, all strategies and skew settings; one domain has members in the statuses up, suspect, leaving, removed). The real merge is then run on every ordered pair of 250-700 well-formed views per option set (quick: ~1.1M merges) and TLC judges the laws on the implementation's own results, associativity on pairs x sampled third operands.",
         "Well-formed views are a superset of reachable ones; timestamps are ranks; 2-3 member ids.",
         "§5 C17"),
 "C07": ("model_checking",
         "TLA+ spec of Start/Stop/context-cancel at hook granularity (TLC: all interleavings of 1-3 callers, safety + liveness NeverHangs); TLC behaviours replayed on a real actor.System through hooks at the lock/kill/wait points; call/return traces and final observations validated by TLC against LifeMon",
         "TLC explores every interleaving of the caller scripts, the guardian goroutine and the root's termination for five script families and checks start-once, stop-once, clean shutdown, lock release and (under fairness) that every call returns. Every behaviour of the small families and simulated behaviours of the larger ones are replayed step by step on a real system with a small actor tree (some with remoting); the monitor judges results against the state machine, hangs, registered actors and leftover library goroutines after Stop/cancel; a Start that fails in its first step leaves nothing running; an external spawn with a slow pre-launch may race Stop; a Stop that comes before Start is rejected and must leave the system fully usable (families F, G: the started system keeps its actors and delivers a scheduled job).",
         "The actor tree of the scenarios terminates when poison-killed (C06); a call that does not reach its next hook within 4 s is a hang; goroutine attribution uses stack frames of the library and go-quartz.",
         "§5 C07"),
 "C03": ("model_checking",
         "TLA+ spec ActorSys (actor tree at turn granularity: spawn, tell, kill, failure, supervision, restart, zombie, stash, watch, event stream) model-checked by TLC; TLC-simulated behaviours replayed turn by turn on a real actor.System through a gate in the mailbox consumer with the context projection compared after every step; recorded traces validated by TLC against the FateMon monitor",
         "TLC explores all turn schedules of the tree t->{a,b} with every decision x strategy, driver tells and kills, and checks at rest that no mail is stranded and nobody is stuck. The real system is driven through the same behaviours (100% state conformance on the unchanged tree) and through random scenarios on 5 tree shapes with stash/unstash, scripted kills, launch and restart-hook failures; FateMon gives every user message exactly one fate (delivered / stash / dead letter), checks StashCount and that nothing happens to messages sent after Stop.",
         "One turn (HandleEnvelop) is atomic w.r.t. other actors (C01); root and observer ungated; scripted behaviours/decision makers are the only user code; name re-use is outside the TLC model; exhaustiveness holds for the model, the code is bound by the replayed and sampled schedules.",
         "§5 ActorSys / C03"),
 "C05": ("model_checking",
         "TLA+ spec ActorSys (actor tree at turn granularity: spawn, tell, kill, failure, supervision, restart, zombie, stash, watch, event stream) model-checked by TLC; TLC-simulated behaviours replayed turn by turn on a real actor.System through a gate in the mailbox consumer with the context projection compared after every step; recorded traces validated by TLC against the LifecycleMon monitor",
         "Same model and binding; LifecycleMon checks per actor and incarnation: OnLaunch first, nothing after the own OnKilled, OnLaunch only to the starting actor, restart = new incarnation with its own OnLaunch and (provider) a fresh instance, no restarted actor left without launch, a failed pre-launch receives nothing even if it is sent a kill during the pre-launch, a dead watcher hears nothing of its target.",
         "One turn (HandleEnvelop) is atomic w.r.t. other actors (C01); root and observer ungated; scripted behaviours/decision makers are the only user code; name re-use is outside the TLC model; exhaustiveness holds for the model, the code is bound by the replayed and sampled schedules.",
         "§5 ActorSys / C05"),
 "C06": ("model_checking",
         "TLA+ spec ActorSys (actor tree at turn granularity: spawn, tell, kill, failure, supervision, restart, zombie, stash, watch, event stream) model-checked by TLC; TLC-simulated behaviours replayed turn by turn on a real actor.System through a gate in the mailbox consumer with the context projection compared after every step; recorded traces validated by TLC against the KillMon monitor",
         "Same model (invariants ChildrenFirst, KilledOnce) and binding; KillMon checks on real traces: ActorKilledEvent once per actor and only after all descendants, exactly one OnKilled to the parent and to safely registered watchers, whole subtree gone after a kill aimed at any node (immediate or poison, repeated, racing failures and restarts), FindActor fails afterwards, no event-stream entry left (also after subscribe/unsubscribe histories), a watcher or parent is told of a termination only after the actor has handled its own OnKilled and only if it really terminated (Watch arriving while the target is terminating or restarting).",
         "One turn (HandleEnvelop) is atomic w.r.t. other actors (C01); root and observer ungated; scripted behaviours/decision makers are the only user code; name re-use is outside the TLC model; exhaustiveness holds for the model, the code is bound by the replayed and sampled schedules.",
         "§5 ActorSys / C06"),
 "C08": ("model_checking",
         "TLA+ spec ActorSys (actor tree at turn granularity: spawn, tell, kill, failure, supervision, restart, zombie, stash, watch, event stream) model-checked by TLC; TLC-simulated behaviours replayed turn by turn on a real actor.System through a gate in the mailbox consumer with the context projection compared after every step; recorded traces validated by TLC against the SuperviseMon monitor",
         "Same model and binding; SuperviseMon checks that the parent's decision maker is consulted at most once per failure (exactly once when the supervisor lives) and only by the parent, and - on single-failure traces - that restart/stop/resume hit exactly the one-for-one / one-for-all targets and nobody else, that Resume keeps instance and does not redeliver the failing message, that Escalate reaches the grandparent and ends in the default Stop at the top. StateMon adds: a resumed actor still owns its Loop job, and while only Restart/Resume were decided the only actors that terminate are kill targets with their subtrees and descendants of restarted actors (never a restart target, even when a Kill arrives during a one-for-all restart).",
         "One turn (HandleEnvelop) is atomic w.r.t. other actors (C01); root and observer ungated; scripted behaviours/decision makers are the only user code; name re-use is outside the TLC model; exhaustiveness holds for the model, the code is bound by the replayed and sampled schedules.",
         "§5 ActorSys / C08"),
 "C09": ("model_checking",
         "TLA+ spec ActorSys (actor tree at turn granularity: spawn, tell, kill, failure, supervision, restart, zombie, stash, watch, event stream) model-checked by TLC; TLC-simulated behaviours replayed turn by turn on a real actor.System through a gate in the mailbox consumer with the context projection compared after every step; recorded traces validated by TLC against the UnstuckMon monitor",
         "Same model (invariants NobodyStuck, NoStrandedMail at rest) and binding; UnstuckMon checks at every quiescent point of the real system that no live actor is paused or half-stopped and no user mail is stranded, that every actor answers a probe (live: delivered, gone: dead letter), that queued mail keeps its order through restart/resume, that a zombie runs no user code, and that an actor is a zombie only after its own restart hook failed. Handlers fail through ctx.Failed and by panicking; double faults (the launch after a restart fails); a failed actor handles nothing until a decision lets it continue. Mailbox level: supervision-shaped scenarios (a handler pauses its own mailbox, system messages that pause/resume it arrive from another goroutine) under fine-grained schedules, judged by MailboxMon.",
         "One turn (HandleEnvelop) is atomic w.r.t. other actors (C01); root and observer ungated; scripted behaviours/decision makers are the only user code; name re-use is outside the TLC model; exhaustiveness holds for the model, the code is bound by the replayed and sampled schedules.",
         "§5 ActorSys / C09"),
 "C19": ("model_checking",
         "TLA+ spec ActorSys (actor tree at turn granularity: spawn, tell, kill, failure, supervision, restart, zombie, stash, watch, event stream) model-checked by TLC; TLC-simulated behaviours replayed turn by turn on a real actor.System through a gate in the mailbox consumer with the context projection compared after every step; recorded traces validated by TLC against the StreamMon monitor",
         "Same binding with subscribe / unsubscribe / unsubscribe-all / publish operations on two event types inside turns, subscribers failing, restarting and terminating in between; StreamMon checks delivery exactly once to exactly the subscribers at publication time, type isolation, publisher order, nothing to unsubscribed or terminated actors, and that the stream's forward and reverse tables equal the monitor's subscription set at every quiescent point (no entry after termination, restart keeps). Two of the four event types print the same type name. Ungated runs: publishers racing subscribe/unsubscribe, subscribers respawned under the same name, 40-257 subscribers receiving a burst from one publisher.",
         "One turn (HandleEnvelop) is atomic w.r.t. other actors (C01); root and observer ungated; scripted behaviours/decision makers are the only user code; name re-use is outside the TLC model; exhaustiveness holds for the model, the code is bound by the replayed and sampled schedules.",
         "§5 ActorSys / C19"),
 "C04": ("model_checking",
         "TLA+ spec of one Ask (Future.close / PipeTo / Result and the registration in Context.ask) at hook granularity, TLC: all interleavings of repliers, timer, asker death, PipeTo and Result callers (safety + termination); TLC behaviours replayed on a real Ask through hooks in future.go/context.go; second TLA+ spec Registry (all Asks of one asker: creation, registration, compensation, timers, death scan, restart turned into termination; TLC exhaustive, two refuted variants); ungated asker-life scenarios; traces validated by TLC against AskMon and AskLifeMon",
         "Every interleaving of three completer threads, one or two PipeTo callers and one or two Result callers with the three steps of ask() is explored by TLC for: single completion, every waiter/forwarder sees that completion's value exactly once, no registration left, everybody terminates. Simulated behaviours and random thread sets (time-outs 0.1-20 ms) are replayed on a real future created by the real Context.ask with a real timer and real forwarder actors; AskMon judges values, exactly-once forwarding, own-reply-only, time-out not early, waiters released and registry emptiness. Registry.tla is checked for: a dead asker leaves no pending Ask, a completed future is not registered, an open future is registered; on the code an asker makes 2-5 Asks with time-outs from 1 ns to seconds (with a delay injected before registration) and then ends in one of six ways (kill, poison kill, failure+Stop, failure+Restart with a kill during or after the restart, parent's termination); Asks are also made from the asker's OnKill handler; AskLifeMon requires every Ask to send its request and to be complete at the latest 1.5 s after the asker's termination, no registration left, own reply only, time-out not early, death only once the asker is being ended.",
         "Critical sections under Future.mu and futureLock are atomic; real timer (one-sided time check); the gated scenarios have one Ask each; several Asks of one asker are covered by Registry.tla and the ungated asker-life scenarios (real time: 1.5 s grace against 4 s time-outs).",
         "§5 C04"),
 "C11": ("model_checking",
         "TLA+ spec of the receiving side's framing (byte stream in arbitrary segments -> one frame per turn through a buffered reader), TLC: all segmentations over chosen cut sets (safety + all delivered); TLC-simulated write/read behaviours replayed on the real connection actor over a scripted net.Conn; end-to-end loopback runs; traces validated by TLC against DeliveryMon",
         "TLC explores every interleaving of sender writes and reads whose lengths come from a cut set covering 'inside the length prefix', 'inside the body', 'exactly at a boundary' and 'several frames at once', for frame families with real body lengths at the minimum and around the reader's 4096-byte buffer. Simulated behaviours are replayed byte-exactly on the real tcpConnectionActor (real decoder, real HandleRemotingEnvelop, real receiving actor). Two real systems over loopback TCP add concurrency, both directions, Ask/Reply the root context as a sender (Tell bursts with Asks in flight), runs of 33-300 coalesced frames, traffic after failed encodes, and payloads up to frames 0/1/64 bytes below the 4 MiB limit (sizes computed from the real encoder). DeliveryMon: exactly once, in order per sender/receiver pair, intact, replies reach the asker, everything delivered on a healthy link.",
         "Each frame is written by one Write call; kernel TCP segmentation is represented at the Read boundary; loopback runs sample schedules (not exhaustive).",
         "§5 C11"),
 "C14": ("model_checking",
         "TLA+ specs Link (sender retry loop vs refused/cut/returning peer, TLC exhaustive) and Framing with connection resets (TLC); reset behaviours replayed on the real connection actor over a scripted net.Conn; bad-frame streams, an unreachable peer and a restarting fake peer against the real sending mailbox; traces validated by TLC against FaultMon",
         "TLC checks on Link that what the remote actor receives is a strictly increasing subsequence, nothing is both delivered and dead-lettered, every message is accounted for and the sender always gets through; on Framing with resets that only completely received frames are delivered. Simulated reset behaviours (cut inside a prefix, inside a body, at a boundary) are replayed byte-exactly on the real reader; streams with undecodable or over-long frames, a peer that is unreachable (ReconnectLimit 0-2), a peer that answers the handshake and resets every connection (Link.tla: Flake; the variant that resets the attempt counter on connect violates Finishes), and a peer process that dies and returns exercise the real mailbox. FaultMon: subsequence / intact / no duplicate, later frames delivered after an undecodable one, dead letter exactly once for messages that could not be written, recovery after the peer returns, connections opened <= messages x (limit+1), system messages dead-lettered like user messages, Tell returns promptly.",
         "The byte at which a kernel write fails cannot be controlled: messages accepted by the kernel and lost with the connection are tolerated; real time with wide margins for the sender-side scenarios; KNOWN FINDING KF-C14-1 (Tell blocks the caller while the peer is unreachable).",
         "§5 C14"),
 "C15": ("model_checking",
         "TLA+ spec LocTrans states the location-independent outcome of every reference-taking operation and enumerates the operation x location x forwarder x message-flavour matrix (TLC); every cell is executed on two real systems over loopback TCP; outcomes validated by TLC against TransMon",
         "Exhaustive over the matrix: tell, ask/reply, immediate and poison kill, watch (also two watchers with the same path on both systems), unwatch, ping, pipe success / failure by time-out / failure by a plain error reply with local and remote forwarders, scheduler delivery, path histories (fresh, recreated under the same name, after messages whose encoding failed), each with a registered custom message and with a Codec-only message where a message is carried. Each cell is run from an actor on system A against actors on A or on system B; TransMon requires the observed outcome to equal the location-independent expectation and no built-in message to fail decoding.",
         "Outcomes are observed with real-time waits (1.5 s; 300 ms for the negative unwatch case); one Codec implementation; the matrix lists operations of ActorContext (ActorSystem shares the implementation).",
         "§5 C15"),
 "C12": ("other",
         "TLA+ module Wire defines the wire grammar and enumerates (TLC) the round-trip case matrix; every case is executed on the real writer/reader, registered (de)serialisers and envelope codec; results validated by TLC against CodecMon; model token widths compared with real encodings",
         "Exhaustive over the matrix: every primitive/blob kind x value class (zero, one, max, min / empty, one, long, non-ASCII) x container (direct, pointer, 0/1/3-element slice, array, struct field, slice of structs, slice of structs with an unexported field, slices of zero-width elements); value-class vectors (all-zero, all-one, all-extreme, each single leaf extreme, int fields beyond int32) for every message type found in the real wire registry (materialised by reflection, so a newly registered message is covered without touching the harness); every envelope combination of system flag x sender absent/local/remote x receiver absent/present x built-in/custom message. CodecMon: semantic equality and the reader consumes exactly what the writer produced.",
         "Value classes, not all values (TLC does not reason about Go arithmetic); KNOWN FINDING KF-C12-1 (int fields travel as int32).",
         "§5 C12"),
 "C13": ("fault_enumeration",
         "TLA+ module Wire enumerates (TLC) the fault matrix over valid encodings and the unsupported encode-side values; every case runs on the real decoders/encoders in a child process under an address-space limit and a watchdog; outcomes validated by TLC against CodecMon",
         "Faults: truncation at every offset, XOR of every byte with 0xFF/0x01/0x80, every 4-byte window overwritten with 65536 / 2^31 / 2^32-1 / 2^32-4 (the last two at every offset in both tiers), the first three length tokens set to 0 / n-1 / n+1 / 65536 / 2^31 / 2^32-1, unknown message name - applied to a valid envelope of every message type in the real wire registry, to a cluster view and to primitive / slice / array / struct encodings (quick: a seed-shifted stride of 7 over the offsets; thorough: every offset, plus all-extreme encodings). Encode side: int, uint, uintptr, complex, map, chan, func, nil interface, named integer, nil pointers, structs with such fields, nil and non-pointer messages, the zero value (all fields nil) of every registered message. CodecMon: outcome is value or error (panic, time-out, stack overflow, out of memory are violations), allocation <= 32 MiB + 64 x input, a failed decode leaves the caller's pre-filled target untouched.",
         "Fault classes over valid encodings, not all byte strings; the frame level (connection length prefix, 4 MiB limit) is exercised in C14; allocation is measured with runtime.MemStats in a single-purpose child.",
         "§5 C13"),
 "C20": ("model_checking",
         "TLA+ spec Sched (shared timer queue keyed by a derived job key, per-actor reference table, Once/Loop/invalid Cron/Cancel/Clear/Kill/Restart/Fire/Tick on a discrete clock), TLC exhaustive; TLC-simulated behaviours replayed on real actor systems in real time (one clock value = 100 ms); timestamped traces validated by TLC against SchedMon",
         "TLC checks that queued jobs always belong to a live owner in the incarnation that scheduled them, that keys are unique and denote one (owner, reference), that firings are on time, that Cancel answers not-found exactly for unknown references and that an API call on one actor never changes another actor's jobs - for the key derivation of record, and (self-test) shows the concatenated key violating them. Simulated behaviours (two families: plain names, names and references containing ':'; re-use of a reference after Cancel/Clear, and on top of a live loop job where the call is a no-op; cron jobs; an unreachable remote receiver next to local jobs) are executed by scripted actors under a restarting supervisor; a hook marks the start of every firing. SchedMon: not before the n-th instant, once fires/delivers once, nothing fires/arrives after cancel / clear / death / restart (beyond a grace for a firing already under way), invalid Cron is a parse error and schedules nothing, Cancel answers, dead letter only for a dead receiver, original value, delivery to the named receiver, and lower bounds (what was due while the job lived has arrived). In a third of the behaviours every actor arms a job while it handles its own OnKilled (termination and restart): it must never fire.",
         "Real time: go-quartz (third party) owns the clock; a run is judged only if a canary timer was never more than 25 ms late; grace 35 ms (firing hook) / 150 ms (delivery), slack 45 ms for lower bounds, so a cancellation within a few milliseconds of the firing instant is tolerated either way.",
         "§5 C20"),
 "C18": ("model_checking",
         "TLA+ spec Gossip (one action per message handled by NodeActor: launch/bootstrap, join as an atomic Ask exchange, gossip delivery with merge and re-broadcast - also at nodes that are still joining, gossip tick, the suppression rule, FIFO channel per node pair, crash/restart/leave/cut/lose), TLC exhaustive for 3 nodes incl. liveness; TLC-simulated behaviours replayed step by step on real NodeActor objects in a deterministic simulator with state comparison after every step; random scenarios on 4-7 nodes and directed families (isolated during join, restart then late joiners, restart whose first join attempt fails while gossip arrives, partitioned seeds, self-seeded islands with a bridge node, failure detection on); traces validated by TLC against ConvergeMon",
         "TLC checks, for all launch orders and delivery interleavings of 3 nodes with one or two seeds, that whenever nothing is in flight and nobody would send, all running nodes hold the same members in the same incarnations, computed and announced the same leader, and exactly one considers itself leader; and (liveness, weak fairness on deliveries, ticks and join retries) that this is eventually reached for good. With one fault the model itself shows that a crashed member is never removed (recorded finding). The simulator runs the real NodeActor code against a mock actor context (messages through the real wire codec); 2,451 replayed model steps agree with the code state-for-state (members, incarnations, version vectors, announced leader). ConvergeMon on the final fixpoint (three rounds of all deliveries and timers changing nothing): EventuallyStable, SameMembers, SameLeader, LeaderAnnounced, ExactlyOneLeader, JoinedNodeKnownToAll, NewestIncarnationEverywhere, NoShadowIncarnation, CrashedNodeAbsent, LeftNodeAbsent, OnlyRunningNodes, and nothing changes or is announced in five further rounds.",
         "The simulator replaces mailbox, remoting and scheduler by a deterministic driver (one OnReceive at a time, FIFO per pair, Ask answered inside the caller's turn). Failure detection reads the wall clock: simulated with a 30 ms time-out in a few healthy-cluster scenarios. KNOWN FINDINGS KF-C18-1..4 (crashed / left members never removed, fresh NodeID shadows the old incarnation, failure detection removes live members for ever).",
         "§5 C18"),
 "C10": ("other",
         "TLA+ spec Confine (threads x children tables x protection, two-step accesses), TLC exhaustive; lockset discipline (Eraser) decided by the TLA+ monitor ConfineMon on accesses recorded through hooks; ungated stress of the documented-concurrent API in a child process with process-survival and tree-consistency oracles in ConfineMon; race-detector build of the same stress as observer (both tiers)",
         "TLC checks on Confine that no two threads are ever inside conflicting accesses to a children table (external System.ActorOf under actorOfLock, the root's own turn on child death / stop, ordinary actors in their own turn) and shows the race for the variant without the root-turn lock. On the code, every access to a children table is recorded with goroutine, executing turn and held locks; ConfineMon applies the lockset state machine, which flags an unprotected shared table without the racy interleaving having to occur. The stress runs ActorOf (named and unnamed, also from inside actors), Kill, Tell, Ask, FindActor, Future.Close and event-stream calls from 9 goroutines against failing, restarting and terminating actors that are all subscribers of the stream; ConfineMon requires the process to survive (a Go fatal error is a violation) and, at quiescence, every registered actor to be listed by its parent and no table to hold an unregistered path. The same stress is also built with -race (quick: one 2.5 s run, thorough: three 3 s runs); each distinct library function pair in a report is a violation.",
         "Level 'other': the specification cannot see memory; races on memory the runs never touch are not decided. The race detector is part of the trusted base. Hooks cover the children tables only (the other shared structures are lock- or sync.Map-protected and are exercised by the stress).",
         "§5 C10"),
})

NOT_YET = {
}

def main():
    props = [json.loads(l) for l in open(os.path.join(HERE, "properties.jsonl"))]
    checks = []
    na = []
    for p in props:
        pid = p["id"]
        if pid in CHECKS:
            cat, tech, text, note, ref = CHECKS[pid]
            checks.append({
                "property_id": pid,
                "quick_cmd": f"./vcheck {pid} --tier quick",
                "thorough_cmd": f"./vcheck {pid} --tier thorough",
                "evidence_file": f"/verif/evidence/{pid}.json",
                "replay_cmd_template": "./vcheck --replay {path}",
                "engine": "vcheck",
                "level_claimed": {"category": cat, "text": text, "design_ref": ref},
                "level_note": note,
                "technique": tech,
            })
        else:
            na.append({"property_id": pid, "reason": NOT_YET.get(pid, "check not built yet in this session (work in progress; see DESIGN.md §9 order of work)")})
    commits = []
    try:
        out = subprocess.run(["git", "-C", "/repo", "log", "--format=%H %s"], capture_output=True, text=True).stdout
        for line in out.splitlines():
            h, _, s = line.partition(" ")
            if s.startswith("verif:"):
                commits.append(h)
    except Exception:
        pass
    m = {
        "version": 1,
        "setup_cmd": "./vcheck --setup",
        "hooks": {
            "guard": "verif",
            "enable": "go1.26 build -tags verif (the harness module /verif/harness replaces github.com/kercylan98/vivid with /repo, so every check rebuilds /repo's working tree with the hooks on)",
            "baseline_off_cmd": "cd /repo && GOFLAGS=-mod=mod GOPROXY=off GOSUMDB=off GOTOOLCHAIN=local go1.26 test -vet=off -count=1 -timeout 25m ./...",
            "source_commits": commits,
            "add_only": True,
        },
        "engines": [{
            "name": "vcheck", "path": "/verif/vcheck",
            "serves_properties": [c["property_id"] for c in checks],
            "kind_free_text": "Go harness driving TLC: explicit TLA+ specs (specs/), TLC model checking, TLC-generated cases/behaviours replayed on the real code, traces of the real code validated by TLC against TLA+ monitors",
        }],
        "checks": checks,
        "notes": "All verdicts come from TLC evaluating a TLA+ monitor on data recorded from the real code; see DESIGN.md §3.",
        "not_applicable": na,
    }
    json.dump(m, open(os.path.join(HERE, "MANIFEST.json"), "w"), indent=1)
    print("checks:", [c["property_id"] for c in checks], "not_applicable:", len(na))

main()
