#!/usr/bin/env python3
"""Generates /verif/MANIFEST.json from the table below (one source of truth)."""
import json, os, subprocess
HERE = os.path.dirname(os.path.dirname(os.path.abspath(__file__)))

# id -> (level category, technique, level text, level note, design ref)
CHECKS = {
 "C16": ("model_checking",
         "TLA+ spec of the vector algorithms model-checked over all triples; TLC monitor (VVMon) evaluates the lattice laws on tables produced by the real VersionVector for the TLC-generated domain",
         "Exhaustive within the domain: TLC checks the transcribed algorithms against the product-order definition and all lattice laws on every triple of vectors over 2-3 node ids and counters {absent,0,1,2,MAX-1,MAX}; the real Compare/Merge/Increment/Write/Read are then evaluated on every pair of the same domain and TLC checks the laws (all triples) on the implementation's own result tables.",
         "Counters outside the rank set and node sets larger than 3 are not evaluated; trusts TLC, the JSON round trip and the Go reader used to build vectors with explicit zero / maximum entries.",
         "§5 C16"),
}

NOT_YET = {
}

def main():
    props = [json.loads(l) for l in open(os.path.join(HERE, "properties.jsonl"))]
    checks = []
    na = []
    for p in props:
        pid = p["id"]
        if pid in CHECKS:
            cat, tech, text, note, ref = CHECKS[pid]
            checks.append({
                "property_id": pid,
                "quick_cmd": f"./vcheck {pid} --tier quick",
                "thorough_cmd": f"./vcheck {pid} --tier thorough",
                "evidence_file": f"/verif/evidence/{pid}.json",
                "replay_cmd_template": "./vcheck --replay {path}",
                "engine": "vcheck",
                "level_claimed": {"category": cat, "text": text, "design_ref": ref},
                "level_note": note,
                "technique": tech,
            })
        else:
            na.append({"property_id": pid, "reason": NOT_YET.get(pid, "check not built yet in this session (work in progress; see DESIGN.md §9 order of work)")})
    commits = []
    try:
        out = subprocess.run(["git", "-C", "/repo", "log", "--format=%H %s"], capture_output=True, text=True).stdout
        for line in out.splitlines():
            h, _, s = line.partition(" ")
            if s.startswith("verif:"):
                commits.append(h)
    except Exception:
        pass
    m = {
        "version": 1,
        "setup_cmd": "./vcheck --setup",
        "hooks": {
            "guard": "verif",
            "enable": "go1.26 build -tags verif (the harness module /verif/harness replaces github.com/kercylan98/vivid with /repo, so every check rebuilds /repo's working tree with the hooks on)",
            "baseline_off_cmd": "cd /repo && GOFLAGS=-mod=mod GOPROXY=off GOSUMDB=off GOTOOLCHAIN=local go1.26 test -vet=off -count=1 -timeout 25m ./...",
            "source_commits": commits,
            "add_only": True,
        },
        "engines": [{
            "name": "vcheck", "path": "/verif/vcheck",
            "serves_properties": [c["property_id"] for c in checks],
            "kind_free_text": "Go harness driving TLC: explicit TLA+ specs (specs/), TLC model checking, TLC-generated cases/behaviours replayed on the real code, traces of the real code validated by TLC against TLA+ monitors",
        }],
        "checks": checks,
        "notes": "All verdicts come from TLC evaluating a TLA+ monitor on data recorded from the real code; see DESIGN.md §3.",
        "not_applicable": na,
    }
    json.dump(m, open(os.path.join(HERE, "MANIFEST.json"), "w"), indent=1)
    print("checks:", [c["property_id"] for c in checks], "not_applicable:", len(na))

main()
