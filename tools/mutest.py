#!/usr/bin/env python3
"""mutest.py: apply hand-written mutants to /repo (one at a time), run the named checks, revert. Sanity test of the machinery."""
import subprocess, sys, json
MUTS = json.load(open(sys.argv[1]))
only = sys.argv[2:] 
for name, m in MUTS.items():
    if only and name not in only: continue
    path = '/repo/' + m['file']
    orig = open(path).read()
    if m['old'] not in orig:
        print(name, 'PATTERN NOT FOUND'); continue
    open(path, 'w').write(orig.replace(m['old'], m['new'], 1))
    try:
        b = subprocess.run('cd /repo && GOFLAGS=-mod=mod GOPROXY=off GOSUMDB=off GOTOOLCHAIN=local go1.26 build ./...', shell=True, capture_output=True, text=True)
        if b.returncode != 0:
            print(name, 'DOES NOT COMPILE', b.stderr[:200]); continue
        for chk in m['checks']:
            r = subprocess.run(['./vcheck', chk], capture_output=True, text=True, cwd='/verif')
            lines = [l[:170] for l in r.stdout.splitlines() if l.startswith(('VIOLATION', 'OK', 'BROKEN', 'KNOWN'))]
            print(f"{name:28s} {chk} exit={r.returncode} {'DETECTED' if r.returncode==1 else 'MISSED' if r.returncode==0 else 'BROKEN'} {lines[:1]}")
    finally:
        open(path, 'w').write(orig)
