SPECIFICATION Spec
CONSTANTS
  InitSizes = {1, 2, 3, 4, 5, 6, 7, 8}
  MaxOps = 24
INVARIANTS Represents TailIsLast IndicesSane
PROPERTY FifoResults
CHECK_DEADLOCK FALSE
