SPECIFICATION Spec
CONSTANTS
  InitSizes = {1, 2, 3, 4, 5}
  MaxOps = 12
INVARIANTS Represents TailIsLast IndicesSane
PROPERTY FifoResults
CHECK_DEADLOCK FALSE
