------------------------------- MODULE RingMon -------------------------------
(***************************************************************************)
(* Property monitor for the queue part of C02: the results returned by the *)
(* real RingQueue (recorded while replaying TLC-generated operation words) *)
(* must be those of a FIFO queue.  One event per line:                     *)
(*   e = "New" (fresh queue) | "Push" (x) | "Pop" (ok, x) |                *)
(*       "PopMany" (n, ok, xs) ; len = Length() after the operation        *)
(***************************************************************************)
EXTENDS Integers, Sequences, TLC, Json

TLog == ndJsonDeserialize("trace.ndjson")
VARIABLES l, q, bad
vars == <<l, q, bad>>

Init == l = 1 /\ q = <<>> /\ bad = ""
Ev == TLog[l]
Min(a, b) == IF a < b THEN a ELSE b

Step ==
    CASE Ev.e \in {"New", "Reset"} -> q' = <<>> /\ UNCHANGED bad
      [] Ev.e = "Push" -> /\ q' = Append(q, Ev.x)
                          /\ bad' = IF bad = "" /\ Ev.len # Len(q) + 1 THEN "Length" ELSE bad
      [] Ev.e = "Pop" ->
            IF q = <<>>
            THEN q' = q /\ bad' = IF bad = "" /\ Ev.ok = 1 THEN "PopFromEmpty" ELSE bad
            ELSE /\ q' = Tail(q)
                 /\ bad' = IF bad # "" THEN bad
                           ELSE IF Ev.ok = 0 THEN "PopLost"
                           ELSE IF Ev.x # Head(q) THEN "FifoOrder"
                           ELSE IF Ev.len # Len(q) - 1 THEN "Length"
                           ELSE ""
      [] Ev.e = "PopMany" ->
            IF q = <<>>
            THEN q' = q /\ bad' = IF bad = "" /\ Ev.ok = 1 THEN "PopFromEmpty" ELSE bad
            ELSE LET cnt == Min(Ev.n, Len(q)) IN
                 /\ q' = SubSeq(q, cnt + 1, Len(q))
                 /\ bad' = IF bad # "" THEN bad
                           ELSE IF Ev.ok = 0 THEN "PopLost"
                           ELSE IF Ev.xs # SubSeq(q, 1, cnt) THEN "FifoOrder"
                           ELSE IF Ev.len # Len(q) - cnt THEN "Length"
                           ELSE ""

Next == l <= Len(TLog) /\ l' = l + 1 /\ Step
Spec == Init /\ [][Next]_vars
Ok == bad = ""
Accepted == TLCGet("stats").diameter - 1 = Len(TLog)
=============================================================================
