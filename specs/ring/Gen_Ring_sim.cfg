INIT GInit
NEXT GNext
CONSTANTS
  InitSizes = {1, 2, 3, 4, 5, 6, 7, 8}
  MaxOps = 60
INVARIANT Emit
CHECK_DEADLOCK FALSE
