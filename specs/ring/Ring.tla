-------------------------------- MODULE Ring --------------------------------
(***************************************************************************)
(* internal/queues/ring.go: the growable ring buffer behind both mailbox   *)
(* queues, with its index arithmetic transcribed (head points at the slot  *)
(* BEFORE the first element, tail at the last element, growth copies the   *)
(* old buffer starting at the new tail position).  A ghost sequence holds  *)
(* the FIFO contents the queue is supposed to represent.                   *)
(* Operations are atomic here: every one of them runs under the queue's    *)
(* mutex in the code (the unlocked Empty() pre-check only reads len).      *)
(***************************************************************************)
EXTENDS Integers, Sequences, FiniteSets, TLC

CONSTANTS InitSizes,   \* initial capacities to start from
          MaxOps       \* length of the operation words explored

Nil == 0               \* values pushed are 1, 2, 3, ...

VARIABLES buf, head, tail, mod, len, ghost, pushed, nops, lastRes

vars == <<buf, head, tail, mod, len, ghost, pushed, nops, lastRes>>

Init == /\ mod \in InitSizes
        /\ buf = [i \in 0..(mod - 1) |-> Nil]
        /\ head = 0 /\ tail = 0 /\ len = 0
        /\ ghost = <<>> /\ pushed = 0 /\ nops = 0
        /\ lastRes = <<>>

Push ==
    /\ nops < MaxOps
    /\ LET x  == pushed + 1
           t1 == (tail + 1) % mod
       IN IF t1 = head
          THEN \* grow: copy mod slots starting at the new tail (= head) position
               LET nb == [i \in 0..(2 * mod - 1) |-> IF i < mod THEN buf[(t1 + i) % mod] ELSE Nil]
               IN /\ buf' = [nb EXCEPT ![mod] = x]
                  /\ head' = 0 /\ tail' = mod /\ mod' = 2 * mod
          ELSE /\ buf' = [buf EXCEPT ![t1] = x]
               /\ tail' = t1 /\ UNCHANGED <<head, mod>>
    /\ len' = len + 1
    /\ ghost' = Append(ghost, pushed + 1)
    /\ pushed' = pushed + 1 /\ nops' = nops + 1
    /\ lastRes' = <<>>

Pop ==
    /\ nops < MaxOps
    /\ IF len = 0
       THEN /\ lastRes' = <<"empty">>
            /\ UNCHANGED <<buf, head, tail, mod, len, ghost>>
       ELSE LET h1 == (head + 1) % mod IN
            /\ lastRes' = <<buf[h1]>>
            /\ buf' = [buf EXCEPT ![h1] = Nil]
            /\ head' = h1 /\ len' = len - 1
            /\ ghost' = Tail(ghost)
            /\ UNCHANGED <<tail, mod>>
    /\ nops' = nops + 1 /\ UNCHANGED pushed

PopMany(n) ==
    /\ nops < MaxOps
    /\ IF len = 0
       THEN /\ lastRes' = <<"empty">>
            /\ UNCHANGED <<buf, head, tail, mod, len, ghost>>
       ELSE LET cnt == IF n >= len THEN len ELSE n
                pos(i) == (head + 1 + i) % mod
            IN /\ lastRes' = [i \in 1..cnt |-> buf[pos(i - 1)]]
               /\ buf' = [j \in 0..(mod - 1) |-> IF \E i \in 0..(cnt - 1) : pos(i) = j THEN Nil ELSE buf[j]]
               /\ head' = (head + cnt) % mod
               /\ len' = len - cnt
               /\ ghost' = SubSeq(ghost, cnt + 1, Len(ghost))
               /\ UNCHANGED <<tail, mod>>
    /\ nops' = nops + 1 /\ UNCHANGED pushed

Next == Push \/ Pop \/ PopMany(2) \/ PopMany(5)
Spec == Init /\ [][Next]_vars

\* the elements between head and tail, in order
Contents == [i \in 1..len |-> buf[(head + i) % mod]]

Represents == Contents = ghost /\ len = Len(ghost)
IndicesSane == head \in 0..(mod - 1) /\ tail \in 0..(mod - 1) /\ len < mod
TailIsLast == len > 0 => tail = (head + len) % mod
\* whatever the last operation returned is what a FIFO queue would have returned (action property)
FifoResults == [][
     /\ (Pop /\ len > 0 => lastRes' = <<Head(ghost)>>)
     /\ (Pop /\ len = 0 => lastRes' = <<"empty">>)
   ]_vars
=============================================================================
