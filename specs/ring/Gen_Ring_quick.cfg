INIT GInit
NEXT GNext
CONSTANTS
  InitSizes = {1, 2, 3}
  MaxOps = 7
INVARIANT Emit
CHECK_DEADLOCK FALSE
