------------------------------- MODULE MC_Ring -------------------------------
EXTENDS Ring, Json

VARIABLE hist
St == <<head', tail', mod', len'>>
GInit == Init /\ hist = <<[op |-> "new", n |-> mod, s |-> <<0, 0, mod, 0>>]>>
GNext == \/ Push /\ hist' = Append(hist, [op |-> "push", n |-> pushed + 1, s |-> St])
         \/ Pop /\ hist' = Append(hist, [op |-> "pop", n |-> 0, s |-> St])
         \/ PopMany(2) /\ hist' = Append(hist, [op |-> "popmany", n |-> 2, s |-> St])
         \/ PopMany(5) /\ hist' = Append(hist, [op |-> "popmany", n |-> 5, s |-> St])
\* every word of exactly MaxOps operations is printed once (hist is part of the state: all paths)
Emit == nops = MaxOps => PrintT("WORD " \o ToJson(hist))
=============================================================================
