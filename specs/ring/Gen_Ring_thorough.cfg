INIT GInit
NEXT GNext
CONSTANTS
  InitSizes = {1, 2, 3, 4}
  MaxOps = 9
INVARIANT Emit
CHECK_DEADLOCK FALSE
