------------------------------- MODULE ActorSys -------------------------------
(***************************************************************************)
(* The actor tree of internal/actor (context.go, killed_handler.go,        *)
(* supervision_context.go, event_stream.go) at TURN granularity: one       *)
(* action = one HandleEnvelop of one actor, including every message it     *)
(* sends.  That is the atomicity the actor model itself provides and the   *)
(* level at which the harness gates the real system (one release of the    *)
(* mailbox consumer = one envelope).                                       *)
(*                                                                         *)
(* The mailbox inside every actor is the abstract mailbox whose            *)
(* correctness C01/C02 establish: system queue first, the pause flag       *)
(* blocks the user queue.  The root (guard) actor is not scheduled: in the *)
(* harness its mailbox runs ungated, so what it does with a message (drop  *)
(* a child from its children, supervise a top-level actor with the default *)
(* strategy, publish a dead letter) happens right after the send and is    *)
(* folded into the sending action.                                         *)
(*                                                                         *)
(* The whole mutable world is one record `w`; helper operators thread it   *)
(* through the sequential effects of a turn.  History (what the monitors   *)
(* observe) lives in `h` and is excluded from the fingerprint by the VIEW. *)
(***************************************************************************)
EXTENDS Integers, Sequences, FiniteSets, TLC

CONSTANTS Names,          \* actors below the root
          PausedAtBirth,  \* TRUE: a new actor's mailbox starts paused and is resumed when OnLaunch is handled
          Parent,         \* [Names -> Names \cup {"root"}]
          Ops,            \* user operations the driver may send: set of <<op, arg>>
          MaxMsgs,        \* number of driver Tell calls
          MaxKills,       \* number of driver Kill calls
          Decisions,      \* decisions a supervisor may be configured with
          Strategies,     \* {"ofo", "ofa"}
          LaunchFailers,  \* sets of actors whose first OnLaunch may panic (SUBSET Names choices)
          HookFailChoices,\* possible values of the restart-hook failure parameter
          LaunchToParent, \* TRUE: original code, the OnLaunch after a restart is sent to the parent
          LaunchInline,   \* TRUE: repaired code, the OnLaunch of a restarted incarnation is handled inside the restart turn
          ResumeOnDeath   \* TRUE: repaired code, a terminating actor resumes its mailbox so that queued mail is dead-lettered

Root == "root"
All == Names \cup {Root}
ChildrenOf(p) == {c \in Names : Parent[c] = p}

VARIABLES w, h, cfg
vars == <<w, h, cfg>>

(**************************** messages **************************************)
\* every message is a record with the same fields (TLC compares records field-wise)
Msg(k, sys, id, from, about, op, arg, flag, chain) ==
    [k |-> k, sys |-> sys, id |-> id, from |-> from, about |-> about, op |-> op, arg |-> arg, flag |-> flag, chain |-> chain]
Launch(from)        == Msg("launch", TRUE, 0, from, "", "", "", FALSE, <<>>)
Kill(from, poison)  == Msg("kill", ~poison, 0, from, "", "", "", poison, <<>>)
Killed(about)       == Msg("killed", TRUE, 0, about, about, "", "", FALSE, <<>>)
Cmd(from, what)     == Msg("cmd", TRUE, 0, from, "", what, "", FALSE, <<>>)
RestartMsg(from, graceful) == Msg("restart", ~graceful, 0, from, "", "", "", graceful, <<>>)
\* supervision context: about = failing actor, chain = target sets of the levels below
Sup(child, chain)   == Msg("sup", TRUE, 0, child, child, "", "", FALSE, chain)
WatchMsg(from)      == Msg("watch", TRUE, 0, from, "", "", "", FALSE, <<>>)
UnwatchMsg(from)    == Msg("unwatch", TRUE, 0, from, "", "", "", FALSE, <<>>)
User(id, from, op, arg) == Msg("user", FALSE, id, from, "", op, arg, FALSE, <<>>)
Event(id, from, typ)    == Msg("event", FALSE, id, from, "", "ev", typ, FALSE, <<>>)

(**************************** the world *************************************)
InitWorld ==
    [ st       |-> [x \in Names |-> "absent"],      \* absent | running | killing | killed
      zombie   |-> [x \in Names |-> FALSE],
      restarting |-> [x \in Names |-> "no"],        \* no | hard | graceful
      paused   |-> [x \in Names |-> FALSE],
      sysq     |-> [x \in Names |-> <<>>],
      userq    |-> [x \in Names |-> <<>>],
      children |-> [x \in All |-> {}],
      watchers |-> [x \in Names |-> {}],
      stash    |-> [x \in Names |-> <<>>],
      inc      |-> [x \in Names |-> 0],             \* completed restarts
      reg      |-> {},                              \* registered paths
      subs     |-> {},                              \* set of <<type, actor>>
      nextId   |-> 1,
      tells    |-> 0,
      kills    |-> 0 ]

InitHist ==
    [ delivered |-> <<>>,    \* <<actor, inc, kind, id/about>> in delivery order (behaviour invocations)
      dls       |-> <<>>,    \* dead-lettered message ids (user/event) and kinds
      killedEv  |-> <<>>,    \* ActorKilledEvent publications
      notified  |-> <<>>,    \* <<receiver, about>> killed notifications sent
      consults  |-> <<>>,    \* <<supervisor, failing, decision, targets>>
      lost      |-> {},      \* ids that vanished without a fate (sent by path to an unknown actor)
      tags      |-> {} ]     \* scenario-class tags (known findings are recognised by them)

Init == /\ w = InitWorld /\ h = InitHist
        /\ cfg \in [ decision : [All -> Decisions], strategy : [All -> Strategies],
                     launchFail : LaunchFailers, hookFail : HookFailChoices ]
        /\ cfg.decision[Root] = "stop" /\ cfg.strategy[Root] = "ofo"      \* system default
        \* only actors that have children ever supervise: the others' settings are irrelevant and fixed
        /\ \A x \in Names : ChildrenOf(x) = {} => (cfg.decision[x] = "stop" /\ cfg.strategy[x] = "ofo")

(**************************** sending ***************************************)
\* The pair <<W, H>> is threaded through the effects; S[1] is the world, S[2] the history.
DeadLetter(S, m) ==
    <<S[1], [S[2] EXCEPT !.dls = Append(@, <<m.k, m.id>>)]>>

\* what the (ungated, running) root does with a message
RootRecv(S, m) ==
    CASE m.k = "killed" -> <<[S[1] EXCEPT !.children[Root] = @ \ {m.about}], S[2]>>
      [] m.k = "sup" ->
           \* default strategy: one-for-one Stop of the failing top-level actor
           LET c  == m.about
               W1 == [S[1] EXCEPT !.sysq[c] = Append(Append(@, Cmd(Root, "pause")), Kill(Root, FALSE))]
           IN <<W1, [S[2] EXCEPT !.consults = Append(@, <<Root, c, "stop", {c}>>)]>>
      [] OTHER -> S          \* the guard ignores everything else (OnLaunch sent to it by a restarted child ...)

Send(S, to, m) ==
    IF to = Root THEN RootRecv(S, m)
    ELSE IF m.sys THEN <<[S[1] EXCEPT !.sysq[to] = Append(@, m)], S[2]>>
    ELSE <<[S[1] EXCEPT !.userq[to] = Append(@, m)], S[2]>>

\* send the same message to a set of receivers (order irrelevant: different mailboxes)
RECURSIVE SendAll(_, _, _)
SendAll(S, tos, m) ==
    IF tos = {} THEN S
    ELSE LET t == CHOOSE t \in tos : TRUE IN SendAll(Send(S, t, m), tos \ {t}, m)

\* sequential composition over a sequence of <<to, msg>>
RECURSIVE SendSeq(_, _)
SendSeq(S, items) == IF items = <<>> THEN S ELSE SendSeq(Send(S, items[1][1], items[1][2]), Tail(items))

Deliver(S, x, kind, what) ==
    <<S[1], [S[2] EXCEPT !.delivered = Append(@, <<x, S[1].inc[x], kind, what>>)]>>

(**************************** failure and supervision ************************)
\* Context.failed: pause own mailbox, hand a supervision context to the parent
Failed(S, x) ==
    LET W1 == [S[1] EXCEPT !.paused[x] = TRUE]
    IN Send(<<W1, S[2]>>, Parent[x], Sup(x, <<>>))

\* all targets of the current level and of the levels below (broadcastAllTargets)
RECURSIVE UnionSeq(_)
UnionSeq(s) == IF s = <<>> THEN {} ELSE s[1] \cup UnionSeq(Tail(s))

\* onSupervise in actor x (the supervisor)
Supervise(S, x, m) ==
    LET W == S[1]
        failing == m.about
        targets == IF cfg.strategy[x] = "ofo" THEN {failing} ELSE W.children[x]
        d == cfg.decision[x]
        graceful == d \in {"grestart", "gstop"}
        tag == {}
        S0 == <<W, [S[2] EXCEPT !.consults = Append(@, <<x, failing, d, targets>>), !.tags = @ \cup tag]>>
        S1 == SendAll(S0, targets, Cmd(x, "pause"))
        allT == targets \cup UnionSeq(m.chain)
    IN CASE d \in {"restart", "grestart"} ->
              LET S2 == SendAll(S1, targets, RestartMsg(x, graceful))
              IN IF graceful THEN SendAll(S2, allT, Cmd(x, "resume")) ELSE S2
         [] d \in {"stop", "gstop"} ->
              LET S2 == SendAll(S1, targets, Kill(x, graceful))
              IN IF graceful THEN SendAll(S2, allT, Cmd(x, "resume")) ELSE S2
         [] d = "resume" -> SendAll(S1, allT, Cmd(x, "resume"))
         [] d = "escalate" ->
              \* a supervisor that is itself stopping does not escalate: it resumes the targets so that their
              \* queued (poison) kill is processed
              IF W.st[x] # "running" THEN SendAll(S1, allT, Cmd(x, "resume")) ELSE
              LET W2 == [S1[1] EXCEPT !.paused[x] = TRUE]
              IN Send(<<W2, S1[2]>>, Parent[x], Sup(x, <<targets>> \o m.chain))

(**************************** termination ************************************)
\* cleanupIfNotRestarting: unsubscribe, deregister, notify watchers and parent, publish the event
Cleanup(S, x) ==
    LET W1 == [S[1] EXCEPT !.subs = {s \in @ : s[2] # x}, !.reg = @ \ {x},
                           !.paused[x] = IF ResumeOnDeath THEN FALSE ELSE @]
        H1 == [S[2] EXCEPT !.killedEv = Append(@, x),
                           !.notified = @ \o [i \in 1..0 |-> <<>>]]
        S1 == SendAll(<<W1, H1>>, W1.watchers[x], Killed(x))
        S2 == Send(S1, Parent[x], Killed(x))
    IN <<S2[1], [S2[2] EXCEPT !.notified = @ \o <<<<Parent[x], x>>>>]>>

\* spawn the designated children inside the OnLaunch turn of p (Context.ActorOf)
RECURSIVE SpawnAll(_, _, _)
SpawnAll(S, p, cs) ==
    IF cs = {} THEN S
    ELSE LET c == CHOOSE c \in cs : TRUE
             \* PausedAtBirth: the mailbox is created paused (user messages wait, system messages are handled) and is
             \* resumed by the handling of OnLaunch, so that nothing told by path can overtake OnLaunch
             W1 == [S[1] EXCEPT !.st[c] = "running", !.reg = @ \cup {c}, !.children[p] = @ \cup {c},
                                !.paused[c] = IF PausedAtBirth THEN TRUE ELSE @]
         IN SpawnAll(Send(<<W1, S[2]>>, c, Launch(p)), p, cs \ {c})

\* what the launch behaviour does: create the designated children that were never created
LaunchBody(S, x) == SpawnAll(S, x, {c \in ChildrenOf(x) : S[1].st[c] = "absent"})

\* handleRestart: hooks, then either zombie or a fresh incarnation
FinishRestart(S, x) ==
    LET W == S[1]
        hookFails == cfg.hookFail = <<x, "restarted">> \/ cfg.hookFail = <<x, "prelaunch">>
    IN IF hookFails
       THEN <<[W EXCEPT !.zombie[x] = TRUE, !.paused[x] = FALSE], S[2]>>       \* zombie: mailbox resumed, stays registered
       ELSE LET W1 == [W EXCEPT !.restarting[x] = "no", !.st[x] = "running", !.inc[x] = @ + 1, !.paused[x] = FALSE]
            IN IF LaunchInline
               THEN \* the new incarnation's OnLaunch runs right here (children are created once; a restarted
                    \* actor's launch does not fail: launch failures are injected into first incarnations only)
                    LaunchBody(Deliver(<<W1, S[2]>>, x, "launch", ""), x)
               ELSE Send(<<W1, S[2]>>, IF LaunchToParent THEN Parent[x] ELSE x, Launch(x))

\* the tail of onKilled once the actor may die: mark killed, behaviour sees OnKilled(self), clean up or restart
Die(S, x) ==
    LET W1 == [S[1] EXCEPT !.st[x] = "killed"]
        S1 == Deliver(<<W1, S[2]>>, x, "killed", x)
    IN IF W1.restarting[x] = "no" THEN Cleanup(S1, x) ELSE FinishRestart(S1, x)

\* onKilled for the non-zombie case after the child bookkeeping
TryDie(S, x) ==
    IF S[1].children[x] # {} \/ S[1].st[x] # "killing" THEN S ELSE Die(S, x)

\* doKill: kill the children, behaviour sees OnKill, then try to die
DoKill(S, x, poison) ==
    LET S1 == SendAll(S, S[1].children[x], Kill(x, poison))
        S2 == Deliver(S1, x, "kill", "")
    IN IF S2[1].zombie[x]
       THEN LET S3 == Cleanup(S2, x)  \* zombie branch of onKilled: no children check; released once (flag cleared)
            IN <<[S3[1] EXCEPT !.zombie[x] = FALSE], S3[2]>>
       ELSE TryDie(S2, x)

(**************************** user operations ********************************)
\* what the scripted behaviour does with a user message (runs inside the turn of x)
DoOp(S, x, m) ==
    LET W == S[1] IN
    CASE m.op = "nop" -> S
      [] m.op = "fail" -> Failed(S, x)
      [] m.op = "stash" -> <<[W EXCEPT !.stash[x] = Append(@, m)], S[2]>>
      [] m.op = "unstash" ->                                   \* Unstash(2): re-enqueue up to two, in order
           LET n == IF Len(W.stash[x]) < 2 THEN Len(W.stash[x]) ELSE 2
           IN <<[W EXCEPT !.userq[x] = @ \o SubSeq(W.stash[x], 1, n), !.stash[x] = SubSeq(@, n + 1, Len(@))], S[2]>>
      [] m.op = "kill" -> Send(S, m.arg, Kill(x, FALSE))
      [] m.op = "pkill" -> Send(S, m.arg, Kill(x, TRUE))
      [] m.op = "tell" -> Send(<<[W EXCEPT !.nextId = @ + 1], S[2]>>, m.arg, User(W.nextId, x, "nop", ""))
      [] m.op = "watch" -> Send(S, m.arg, WatchMsg(x))
      [] m.op = "unwatch" -> Send(S, m.arg, UnwatchMsg(x))
      [] m.op = "sub" -> <<[W EXCEPT !.subs = @ \cup {<<m.arg, x>>}], S[2]>>
      [] m.op = "unsub" -> <<[W EXCEPT !.subs = @ \ {<<m.arg, x>>}], S[2]>>
      [] m.op = "pub" ->
           LET rcv == {s[2] : s \in {s \in W.subs : s[1] = m.arg}}
           IN SendAll(<<[W EXCEPT !.nextId = @ + 1], S[2]>>, rcv, Event(W.nextId, x, m.arg))
      [] OTHER -> S

(**************************** one turn ***************************************)
HasTurn(x) == w.sysq[x] # <<>> \/ (~w.paused[x] /\ w.userq[x] # <<>>)

Handle(S, x, m) ==
    LET W == S[1]
        st == W.st[x]
        z  == W.zombie[x]
    IN \* a Kill during the waiting phase of a restart cancels the restart (the termination under way becomes a stop)
       IF m.k = "kill" /\ st = "killing" /\ W.restarting[x] # "no" /\ ~z THEN <<[W EXCEPT !.restarting[x] = "no"], S[2]>>
       ELSE
       \* dead-letter gate
       IF (st = "killed" \/ (~m.sys /\ st # "running")) /\ ~z THEN DeadLetter(S, m)
       ELSE
       CASE m.k = "launch" ->
              IF z THEN S
              ELSE LET S1 == Deliver(<<[W EXCEPT !.paused[x] = IF PausedAtBirth THEN FALSE ELSE @], S[2]>>, x, "launch", "")
                       \* children are (re)created by the launch behaviour unless they already exist
                       S2 == LaunchBody(S1, x)
                   IN IF x \in cfg.launchFail /\ W.inc[x] = 0 THEN Failed(S2, x) ELSE S2
         [] m.k = "kill" ->
              IF ~z /\ st # "running" THEN S
              ELSE DoKill(<<[W EXCEPT !.st[x] = IF z THEN st ELSE "killing"], S[2]>>, x, m.flag)
         [] m.k = "killed" ->
              IF z THEN S             \* another actor's death does not release a zombie
              ELSE LET W1 == [W EXCEPT !.children[x] = @ \ {m.about}]
                       S1 == Deliver(<<W1, S[2]>>, x, "childkilled", m.about)
                   IN TryDie(S1, x)
         [] m.k = "sup" -> Supervise(S, x, m)
         [] m.k = "cmd" -> <<[W EXCEPT !.paused[x] = (m.op = "pause")], S[2]>>
         [] m.k = "restart" ->
              \* only a running actor enters the restart sequence (compare-and-swap running -> killing);
              \* PreRestart hook failure is only logged
              IF st # "running" THEN S
              ELSE LET W1 == [W EXCEPT !.st[x] = "killing", !.restarting[x] = IF m.flag THEN "graceful" ELSE "hard"]
                   IN DoKill(<<W1, S[2]>>, x, m.flag)
         [] m.k = "watch" -> IF m.from = Parent[x] THEN S ELSE <<[W EXCEPT !.watchers[x] = @ \cup {m.from}], S[2]>>
         [] m.k = "unwatch" -> <<[W EXCEPT !.watchers[x] = @ \ {m.from}], S[2]>>
         [] m.k \in {"user", "event"} ->
              IF z THEN S
              ELSE DoOp(Deliver(S, x, m.k, m.id), x, m)
         [] OTHER -> S

Turn(x) ==
    /\ HasTurn(x)
    /\ LET fromSys == w.sysq[x] # <<>>
           m  == IF fromSys THEN Head(w.sysq[x]) ELSE Head(w.userq[x])
           W0 == IF fromSys THEN [w EXCEPT !.sysq[x] = Tail(@)] ELSE [w EXCEPT !.userq[x] = Tail(@)]
           S  == Handle(<<W0, h>>, x, m)
       IN w' = S[1] /\ h' = S[2]
    /\ UNCHANGED cfg

(**************************** the driver *************************************)
Tops == ChildrenOf(Root)

DrvSpawnTop(t) ==
    /\ t \in Tops /\ w.st[t] = "absent"
    /\ LET W1 == [w EXCEPT !.st[t] = "running", !.reg = @ \cup {t}, !.children[Root] = @ \cup {t},
                               !.paused[t] = IF PausedAtBirth THEN TRUE ELSE @]
           S == Send(<<W1, h>>, t, Launch(Root))
       IN w' = S[1] /\ h' = S[2]
    /\ UNCHANGED cfg

\* Tell through the reference the actor itself published (cached mailbox: reaches the context even when dead)
DrvTell(x, o) ==
    /\ w.tells < MaxMsgs /\ w.st[x] # "absent"
    /\ LET W1 == [w EXCEPT !.nextId = @ + 1, !.tells = @ + 1]
           S == Send(<<W1, h>>, x, User(w.nextId, "drv", o[1], o[2]))
       IN w' = S[1] /\ h' = S[2]
    /\ UNCHANGED cfg

DrvKill(x, poison) ==
    /\ w.kills < MaxKills /\ w.st[x] # "absent"
    /\ LET S == Send(<<[w EXCEPT !.kills = @ + 1], h>>, x, Kill("drv", poison))
       IN w' = S[1] /\ h' = S[2]
    /\ UNCHANGED cfg

Next == \/ \E x \in Names : Turn(x)
        \/ \E t \in Tops : DrvSpawnTop(t)
        \/ \E x \in Names, o \in Ops : DrvTell(x, o)
        \/ \E x \in Names, p \in BOOLEAN : DrvKill(x, p)

Spec == Init /\ [][Next]_vars

(**************************** properties on the model ************************)
Quiescent == \A x \in Names : ~HasTurn(x)
Live(x) == w.st[x] \in {"running", "killing"}

\* C09: once everything has come to rest nobody who is alive is paused or half-stopped
Known == h.tags # {}
NobodyStuck == (Quiescent /\ ~Known) => \A x \in Names : (Live(x) /\ ~w.zombie[x]) => (~w.paused[x] /\ w.st[x] = "running")
\* C09/C03: no user mail is stranded in a queue at rest
NoStrandedMail == (Quiescent /\ ~Known) => \A x \in Names : w.userq[x] = <<>>
\* C06: an actor that is gone has no live descendant
Ancestors(x) == LET RECURSIVE A(_) A(y) == IF y = Root THEN {} ELSE {Parent[y]} \cup A(Parent[y]) IN A(x)
ChildrenFirst == \A x \in Names : (w.st[x] = "killed" /\ w.restarting[x] = "no")
                    => \A y \in Names : x \in Ancestors(y) => ~Live(y)
\* C06: never reported terminated twice
KilledOnce == \A i, j \in 1..Len(h.killedEv) : (i # j /\ h.killedEv[i] = h.killedEv[j]) => FALSE
\* C05: nothing is delivered to a behaviour after its own OnKilled within one incarnation
TypeOK == w.st \in [Names -> {"absent", "running", "killing", "killed"}]
=============================================================================
