INIT GInit
NEXT GNext
CONSTANTS
  Names <- T3_Names
  Parent <- T3_Parent
  Ops <- OpsStash
  MaxMsgs = 4
  MaxKills = 1
  Decisions <- AllDecisions
  Strategies = {"ofo", "ofa"}
  LaunchFailers <- NoLaunchFail
  HookFailChoices <- NoHookFail
  LaunchToParent = FALSE
  ResumeOnDeath = TRUE
  PausedAtBirth = TRUE
  LaunchInline = TRUE

INVARIANT Emit
CHECK_DEADLOCK FALSE
