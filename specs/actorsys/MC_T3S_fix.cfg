SPECIFICATION Spec
CONSTANTS
  Names <- T3_Names
  Parent <- T3_Parent
  Ops <- OpsStash
  MaxMsgs = 3
  MaxKills = 1
  Decisions <- AllDecisions
  Strategies = {"ofo", "ofa"}
  LaunchFailers <- NoLaunchFail
  HookFailChoices <- NoHookFail
  LaunchToParent = FALSE
  ResumeOnDeath = TRUE
  PausedAtBirth = TRUE
  LaunchInline = TRUE
VIEW View
INVARIANTS TypeOK KilledOnce ChildrenFirst NobodyStuck NoStrandedMail
CHECK_DEADLOCK FALSE
