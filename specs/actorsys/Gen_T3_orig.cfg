INIT GInit
NEXT GNext
CONSTANTS
  Names <- T3_Names
  Parent <- T3_Parent
  Ops <- OpsBasic
  MaxMsgs = 2
  MaxKills = 1
  Decisions <- AllDecisions
  Strategies = {"ofo", "ofa"}
  LaunchFailers <- NoLaunchFail
  HookFailChoices <- NoHookFail
  LaunchToParent = TRUE
  ResumeOnDeath = FALSE
  PausedAtBirth = FALSE
  LaunchInline = FALSE

INVARIANT Emit
CHECK_DEADLOCK FALSE
