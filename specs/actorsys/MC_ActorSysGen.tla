---------------------------- MODULE MC_ActorSysGen ----------------------------
(* Behaviour generation for the replay driver: the steps taken and, after    *)
(* each of them, the projection of the model state that the harness compares *)
(* with the real actor contexts.                                             *)
EXTENDS MC_ActorSys, SequencesExt

VARIABLE hist
B(b) == IF b THEN 1 ELSE 0
Proj(W) == [x \in Names |->
    << W.st[x], B(W.zombie[x]), B(W.restarting[x] # "no" /\ x \in W.reg), B(W.paused[x]),
       IF x \in W.reg THEN Cardinality(W.children[x]) ELSE 0,
       IF x \in W.reg THEN Len(W.stash[x]) ELSE 0,
       Len(W.sysq[x]), Len(W.userq[x]) >>]

GInit == Init /\ hist = <<>>
GNext ==
    \/ \E x \in Names : Turn(x) /\ hist' = Append(hist, [a |-> "turn", x |-> x, op |-> "", arg |-> "", poison |-> FALSE, proj |-> Proj(w')])
    \/ \E t \in Tops : DrvSpawnTop(t) /\ hist' = Append(hist, [a |-> "spawn", x |-> t, op |-> "", arg |-> "", poison |-> FALSE, proj |-> Proj(w')])
    \/ \E x \in Names, o \in Ops : DrvTell(x, o) /\ hist' = Append(hist, [a |-> "tell", x |-> x, op |-> o[1], arg |-> o[2], poison |-> FALSE, proj |-> Proj(w')])
    \/ \E x \in Names, p \in BOOLEAN : DrvKill(x, p) /\ hist' = Append(hist, [a |-> "kill", x |-> x, op |-> "", arg |-> "", poison |-> p, proj |-> Proj(w')])

MaxDepth == 120
AtRest == Quiescent /\ w.tells = MaxMsgs /\ w.kills = MaxKills /\ \A t \in Tops : w.st[t] # "absent"
Emit == (AtRest \/ TLCGet("level") >= MaxDepth) =>
          PrintT("BEHAV " \o ToJson([steps |-> hist, tags |-> SetToSeq(h.tags),
                 scen |-> [names |-> SetToSeq(Names), parent |-> Parent,
                           cfg |-> [decision |-> cfg.decision, strategy |-> cfg.strategy,
                                    launchFail |-> SetToSeq(cfg.launchFail), hookFail |-> cfg.hookFail]]]))
=============================================================================
