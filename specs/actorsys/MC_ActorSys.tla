----------------------------- MODULE MC_ActorSys -----------------------------
EXTENDS ActorSys, Json

View == <<w, cfg>>

\* tree T3: root -> t -> {a, b}
T3_Names == {"t", "a", "b"}
T3_Parent == [x \in T3_Names |-> IF x = "t" THEN "root" ELSE "t"]
\* tree T4: root -> t -> {a, b}, a -> {c}
T4_Names == {"t", "a", "b", "c"}
T4_Parent == [x \in T4_Names |-> CASE x = "t" -> "root" [] x = "c" -> "a" [] OTHER -> "t"]

OpsBasic == {<<"nop", "">>, <<"fail", "">>}
OpsStash == {<<"nop", "">>, <<"stash", "">>, <<"unstash", "">>, <<"fail", "">>}
AllDecisions == {"restart", "grestart", "stop", "gstop", "resume", "escalate"}
NoHookFail == {<<"", "">>}
NoLaunchFail == {{}}
=============================================================================
