INIT GInit
NEXT GNext
CONSTANTS
  Names <- T3_Names
  Parent <- T3_Parent
  Ops <- OpsBasic
  MaxMsgs = 2
  MaxKills = 1
  Decisions <- AllDecisions
  Strategies = {"ofo", "ofa"}
  LaunchFailers <- NoLaunchFail
  HookFailChoices <- NoHookFail
  LaunchToParent = FALSE
  ResumeOnDeath = TRUE
  PausedAtBirth = FALSE
  LaunchInline = TRUE

INVARIANT Emit
CHECK_DEADLOCK FALSE
