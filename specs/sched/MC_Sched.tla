----------------------------- MODULE MC_Sched ------------------------------
EXTENDS Sched
(* the implementation's derivation: path ++ ":" ++ reference *)
KeyConcat(p, r) == p \o ":" \o r
(* a derivation that keeps the two parts apart (job group = path, job name = reference) *)
KeyPair(p, r) == <<p, r>>
PathsPlain == {"/a", "/b"}
PathsColon == {"/a", "/a:x"}
RefsPlain == {"r", "s"}
RefsColon == {"r", "x:r"}
=============================================================================
