SPECIFICATION Spec
CONSTANTS
  Paths <- PathsColon
  Refs <- RefsColon
  Durs = {1, 2}
  MaxTime = 3
  MaxOps = 3
  KeyOf <- KeyConcat
INVARIANTS QueueOwned KeysUnique KeyDenotesOwner FireOnTime
PROPERTIES CancelAnswer OthersUntouched FreshReferenceQueues
CHECK_DEADLOCK FALSE
