INIT GenInit
NEXT GenNext
CONSTANTS
  Paths <- PathsPlain
  Refs <- RefsPlain
  Durs = {1, 2}
  MaxTime = 5
  MaxOps = 7
  KeyOf <- KeyPair
INVARIANT Emit
CHECK_DEADLOCK FALSE
