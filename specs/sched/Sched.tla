------------------------------- MODULE Sched -------------------------------
(* Scheduled messages (C20).                                                  *)
(*                                                                            *)
(* Implementation shape: ONE timer queue shared by the whole actor system     *)
(* (go-quartz), keyed by a job key DERIVED from the owner's path and the      *)
(* user's reference; every actor additionally remembers reference -> key for  *)
(* the jobs it created (jobKeys).  Cancel and Clear go through jobKeys and    *)
(* delete by key in the shared queue.  The job function tells the receiver a  *)
(* wrapped message; the receiver unwraps it in its own turn.                  *)
(*                                                                            *)
(* Time is a discrete clock; "Tick" may only advance when nothing is due      *)
(* (the timer loop fires due jobs before sleeping again).                     *)
EXTENDS Integers, Sequences, FiniteSets, TLC

CONSTANTS Paths,        \* actor paths (strings)
          Refs,         \* user references (strings)
          Durs,         \* delays / intervals in ticks
          MaxTime,      \* clock bound
          MaxOps,       \* bound on API calls
          KeyOf(_, _)   \* job key derivation: path x reference -> key

VARIABLES now,      \* clock
          queue,    \* shared timer queue: key -> job record (partial function as a set of records)
          jobKeys,  \* per actor: set of references it remembers
          up,       \* actor path -> BOOLEAN (terminated actors stay down)
          inc,      \* actor path -> incarnation number (restarts)
          ops,      \* API calls so far
          out       \* observable outcome of the last step (for conformance / monitors), "" if none

vars == <<now, queue, jobKeys, up, inc, ops, out>>
nextTok == ops + 1   \* unique message token: the number of the API call that scheduled the job

Job(k) == CHOOSE j \in queue : j.key = k
HasKey(k) == \E j \in queue : j.key = k
Without(k) == {j \in queue : j.key # k}

Init == /\ now = 0 /\ queue = {} /\ jobKeys = [p \in Paths |-> {}]
        /\ up = [p \in Paths |-> TRUE] /\ inc = [p \in Paths |-> 0]
        /\ ops = 0 /\ out = <<"init">>

(* ScheduleJob: remember the reference, push unless the key is already queued (the queue refuses    *)
(* a duplicate key; the implementation ignores that error)                                          *)
Schedule(p, r, recv, kind, d) ==
    /\ up[p] /\ ops < MaxOps
    /\ LET k == KeyOf(p, r) IN
       /\ jobKeys' = [jobKeys EXCEPT ![p] = @ \cup {r}]
       /\ queue' = IF HasKey(k) THEN queue
                   ELSE queue \cup {[key |-> k, owner |-> p, oinc |-> inc[p], ref |-> r, recv |-> recv, kind |-> kind,
                                     due |-> now + d, iv |-> d, tok |-> nextTok, born |-> now, n |-> 0]}
       /\ out' = <<"sched", p, r, recv, kind, d, nextTok, ~HasKey(k)>>
    /\ ops' = ops + 1
    /\ UNCHANGED <<now, up, inc>>

CronInvalid(p, r) ==
    /\ up[p] /\ ops < MaxOps
    /\ out' = <<"cron-invalid", p, r, "parse-error">>
    /\ ops' = ops + 1
    /\ UNCHANGED <<now, queue, jobKeys, up, inc>>

Cancel(p, r) ==
    /\ up[p] /\ ops < MaxOps
    /\ IF r \in jobKeys[p]
       THEN /\ jobKeys' = [jobKeys EXCEPT ![p] = @ \ {r}]
            /\ queue' = Without(KeyOf(p, r))
            /\ out' = <<"cancel", p, r, IF HasKey(KeyOf(p, r)) THEN "ok" ELSE "gone">>
       ELSE /\ UNCHANGED <<jobKeys, queue>>
            /\ out' = <<"cancel", p, r, "notfound">>
    /\ ops' = ops + 1
    /\ UNCHANGED <<now, up, inc>>

ClearOf(p) == {j \in queue : j.key \notin {KeyOf(p, r) : r \in jobKeys[p]}}

Clear(p) ==
    /\ up[p] /\ ops < MaxOps
    /\ queue' = ClearOf(p) /\ jobKeys' = [jobKeys EXCEPT ![p] = {}]
    /\ out' = <<"clear", p>> /\ ops' = ops + 1
    /\ UNCHANGED <<now, up, inc>>

Kill(p) ==
    /\ up[p] /\ ops < MaxOps
    /\ queue' = ClearOf(p) /\ jobKeys' = [jobKeys EXCEPT ![p] = {}]
    /\ up' = [up EXCEPT ![p] = FALSE]
    /\ out' = <<"kill", p>> /\ ops' = ops + 1
    /\ UNCHANGED <<now, inc>>

Restart(p) ==
    /\ up[p] /\ ops < MaxOps
    /\ queue' = ClearOf(p) /\ jobKeys' = [jobKeys EXCEPT ![p] = {}]
    /\ inc' = [inc EXCEPT ![p] = @ + 1]
    /\ out' = <<"restart", p>> /\ ops' = ops + 1
    /\ UNCHANGED <<now, up>>

Due == {j \in queue : j.due <= now}

(* the timer loop pops the earliest due job, re-queues a loop job for its next instant and runs the  *)
(* job function: a Tell to the receiver (delivered through its mailbox, or a dead letter)            *)
Fire(j) ==
    /\ j \in Due
    /\ queue' = IF j.kind = "once" THEN queue \ {j}
                ELSE (queue \ {j}) \cup {[j EXCEPT !.due = j.due + j.iv, !.n = j.n + 1]}
    /\ out' = <<IF up[j.recv] THEN "deliver" ELSE "deadletter", j.owner, j.ref, j.recv, j.tok, j.oinc, j.born, j.n + 1, j.iv>>
    /\ UNCHANGED <<now, jobKeys, up, inc, ops>>

Tick == /\ Due = {} /\ now < MaxTime /\ now' = now + 1 /\ out' = <<"tick">>
        /\ UNCHANGED <<queue, jobKeys, up, inc, ops>>

Next == \/ \E p \in Paths, r \in Refs, recv \in Paths, kind \in {"once", "loop"}, d \in Durs : Schedule(p, r, recv, kind, d)
        \/ \E p \in Paths, r \in Refs : CronInvalid(p, r) \/ Cancel(p, r)
        \/ \E p \in Paths : Clear(p) \/ Kill(p) \/ Restart(p)
        \/ \E j \in queue : Fire(j)
        \/ Tick

Spec == Init /\ [][Next]_vars

----------------------------------------------------------------------------
(* Properties                                                                 *)

(* a queued job belongs to a live owner in the incarnation that scheduled it, and the owner still    *)
(* remembers its reference: what dies, is cleared or is cancelled takes its jobs with it             *)
QueueOwned == \A j \in queue : up[j.owner] /\ j.oinc = inc[j.owner] /\ j.ref \in jobKeys[j.owner]

(* keys are unique in the queue and denote exactly one (owner, reference)                            *)
KeysUnique == \A j1, j2 \in queue : j1.key = j2.key => j1 = j2
KeyDenotesOwner == \A j \in queue : j.key = KeyOf(j.owner, j.ref)

(* a firing is never early and the n-th firing of a loop is at its n-th instant                      *)
FireOnTime == out[1] \in {"deliver", "deadletter"} => now = out[7] + out[8] * out[9]

(* cancel of a reference the actor does not remember answers not-found (and only then)               *)
CancelAnswer == [][out'[1] = "cancel" => ((out'[4] = "notfound") = (out'[3] \notin jobKeys[out'[2]]))]_vars

(* an API call on one actor never changes the jobs of another actor                                  *)
OthersUntouched == [][\A p \in Paths : (out'[1] \in {"cancel", "clear", "kill", "restart"} /\ out'[2] = p)
                        => {j \in queue : j.owner # p} = {j \in queue' : j.owner # p}]_vars

(* scheduling with a fresh reference always queues a job                                             *)
FreshReferenceQueues == [][\A p \in Paths, r \in Refs : (out'[1] = "sched" /\ out'[2] = p /\ out'[3] = r /\ r \notin jobKeys[p]) => out'[8]]_vars
=============================================================================
