SPECIFICATION Spec
CONSTANTS
  Grace = 35
  DelivGrace = 150
  Slack = 45
INVARIANT Ok
POSTCONDITION Accepted
CHECK_DEADLOCK FALSE
