------------------------------ MODULE SchedMon ------------------------------
(* C20 monitor over traces of the real scheduler (times in milliseconds of a  *)
(* monotonic clock, events totally ordered by the recorder).                  *)
(*                                                                            *)
(*  Sched  a(owner) r(ref) x(receiver) k(once|loop|cron) d(ms; for cron the   *)
(*         period of the expression, firings are aligned to the wall clock)   *)
(*         m(token)                                                           *)
(*         tb(time before the call) t(time after it returned)                 *)
(*  Stop   a r("*" = all of a) s(cancel|clear|down|restart)                   *)
(*         tb(time the stop was requested) t(time it had taken effect)        *)
(*  Cancel a r s(result: ok|notfound|other) v(1 = a remembered the reference) *)
(*  CronBad a r s(result: parse-error|ok|other) v(1 = Exists(r) afterwards)   *)
(*  Fire   m t          job function entered (hook)                           *)
(*  Deliv  m a t v(1 = value intact)   received in a's turn                   *)
(*  DL     m t          dead letter carrying the scheduled value              *)
(*  RecvDown a tb       receiver a was asked to terminate at tb               *)
(*  End    t v(1 = timers were healthy during the run)                        *)
(*  Reset                                                                     *)
(*                                                                            *)
(* Real time enters only through margins that a healthy run cannot exceed:    *)
(* Grace (a firing already under way when the stop took effect) and Slack     *)
(* (lateness of a timer); runs whose canary timer was late are not judged for *)
(* the lower bounds (v = 0 on End).                                           *)
EXTENDS Integers, Sequences, FiniteSets, TLC, Json
CONSTANTS Grace, DelivGrace, Slack
VARIABLES l, bad, jobs, cur, down
TLog == ndJsonDeserialize("trace.ndjson")
Ev == TLog[l]
vars == <<l, bad, jobs, cur, down>>
Get(f, k, d) == IF k \in DOMAIN f THEN f[k] ELSE d
Put(f, k, v) == [x \in DOMAIN f \cup {k} |-> IF x = k THEN v ELSE f[x]]
Flag(rule) == IF bad = "" THEN rule ELSE bad
Fresh == jobs = <<>> /\ cur = <<>> /\ down = <<>>
Init == l = 1 /\ bad = "" /\ Fresh

(* jobs: token -> record;  cur: <<owner, ref>> -> token of the job the owner currently remembers;    *)
(* down: receiver -> time its termination was requested                                              *)
(* a call under a reference whose loop job is alive: the library keeps the running job (the queue refuses the     *)
(* duplicate key and the error is dropped); the property does not say what becomes of the second call, so the    *)
(* monitor expects nothing of its token (kind "dup") - but the running job stays the one the reference designates *)
OnSched ==
    /\ Ev.e = "Sched"
    /\ LET c == Get(cur, <<Ev.a, Ev.r>>, -1)
           dup == c # -1 /\ jobs[c].kind = "loop" /\ jobs[c].stop = -1
       IN /\ jobs' = Put(jobs, Ev.m, [owner |-> Ev.a, ref |-> Ev.r, recv |-> Ev.x, kind |-> IF dup THEN "dup" ELSE Ev.k, d |-> Ev.d, tb |-> Ev.tb, ta |-> Ev.t,
                                      fires |-> 0, lastFire |-> -1, got |-> 0, dl |-> 0, stopReq |-> -1, stop |-> -1, why |-> ""])
          /\ cur' = IF dup THEN cur ELSE Put(cur, <<Ev.a, Ev.r>>, Ev.m)
    /\ UNCHANGED <<bad, down>>

Hit == {m \in DOMAIN jobs : jobs[m].owner = Ev.a /\ jobs[m].stop = -1 /\ (Ev.r = "*" \/ (jobs[m].ref = Ev.r /\ Get(cur, <<Ev.a, Ev.r>>, -1) = m))}
OnStop ==
    /\ Ev.e = "Stop"
    /\ jobs' = [m \in DOMAIN jobs |-> IF m \in Hit THEN [jobs[m] EXCEPT !.stopReq = Ev.tb, !.stop = Ev.t, !.why = Ev.s] ELSE jobs[m]]
    /\ cur' = [k \in DOMAIN cur |-> IF k[1] = Ev.a /\ (Ev.r = "*" \/ k[2] = Ev.r) THEN -1 ELSE cur[k]]
    /\ UNCHANGED <<bad, down>>

OnCancel ==
    /\ Ev.e = "Cancel"
    /\ bad' = IF Ev.v = 0 /\ Ev.s # "notfound" THEN Flag("CancelUnknownIsNotFound")
              ELSE IF Ev.v = 1 /\ Ev.s = "notfound" /\ Get(cur, <<Ev.a, Ev.r>>, -1) # -1
                                /\ jobs[cur[<<Ev.a, Ev.r>>]].kind = "loop" THEN Flag("CancelOfLiveJobSucceeds")
              ELSE bad
    /\ UNCHANGED <<jobs, cur, down>>

OnCronBad ==
    /\ Ev.e = "CronBad"
    /\ bad' = IF Ev.s # "parse-error" THEN Flag("InvalidCronRejected") ELSE IF Ev.v # 0 THEN Flag("InvalidCronSchedulesNothing") ELSE bad
    /\ UNCHANGED <<jobs, cur, down>>

Known == Ev.m \in DOMAIN jobs
J == jobs[Ev.m]
OnFire ==
    /\ Ev.e = "Fire"
    /\ IF ~Known THEN bad' = Flag("FireOfUnknownJob") /\ UNCHANGED jobs
       ELSE IF J.kind = "dup" THEN UNCHANGED <<bad, jobs>>
       ELSE /\ jobs' = [jobs EXCEPT ![Ev.m].fires = @ + 1, ![Ev.m].lastFire = Ev.t]
            /\ bad' = IF J.stop # -1 /\ Ev.t > J.stop + Grace THEN Flag("NoFiringAfter." \o J.why)
                      ELSE IF J.kind # "cron" /\ Ev.t < J.tb + (J.fires + 1) * J.d THEN Flag("NotBeforeItsInstant")
                      ELSE IF J.kind = "cron" /\ (Ev.t < J.tb \/ Ev.t < J.tb + J.fires * J.d - Slack) THEN Flag("CronNotFasterThanItsPeriod")
                      ELSE IF J.kind = "once" /\ J.fires >= 1 THEN Flag("OnceFiresOnce")
                      ELSE bad
    /\ UNCHANGED <<cur, down>>

OnDeliv ==
    /\ Ev.e = "Deliv"
    /\ IF ~Known THEN bad' = Flag("DeliveryOfUnknownJob") /\ UNCHANGED jobs
       ELSE IF J.kind = "dup" THEN UNCHANGED <<bad, jobs>>
       ELSE /\ jobs' = [jobs EXCEPT ![Ev.m].got = @ + 1]
            /\ bad' = IF J.stop # -1 /\ Ev.t > J.stop + DelivGrace THEN Flag("NoDeliveryAfter." \o J.why)
                      ELSE IF J.kind # "cron" /\ Ev.t < J.tb + (J.got + J.dl + 1) * J.d THEN Flag("NotBeforeItsInstant")
                      ELSE IF J.kind = "once" /\ J.got + J.dl >= 1 THEN Flag("OnceDeliversOnce")
                      ELSE IF Ev.a # J.recv THEN Flag("DeliveredToTheReceiver")
                      ELSE IF Ev.v # 1 THEN Flag("OriginalValue")
                      ELSE bad
    /\ UNCHANGED <<cur, down>>

OnDL ==
    /\ Ev.e = "DL"
    /\ IF ~Known THEN bad' = Flag("DeliveryOfUnknownJob") /\ UNCHANGED jobs
       ELSE IF J.kind = "dup" THEN UNCHANGED <<bad, jobs>>
       ELSE /\ jobs' = [jobs EXCEPT ![Ev.m].dl = @ + 1]
            /\ bad' = IF J.stop # -1 /\ Ev.t > J.stop + DelivGrace THEN Flag("NoDeadLetterAfter." \o J.why)
                      ELSE IF J.recv \notin DOMAIN down THEN Flag("DeadLetterOnlyForDeadReceiver")
                      ELSE IF J.kind = "once" /\ J.got + J.dl >= 1 THEN Flag("OnceDeliversOnce")
                      ELSE bad
    /\ UNCHANGED <<cur, down>>

OnRecvDown ==
    /\ Ev.e = "RecvDown"
    /\ down' = IF Ev.a \in DOMAIN down THEN down ELSE Put(down, Ev.a, Ev.tb)
    /\ UNCHANGED <<bad, jobs, cur>>

(* lower bounds at the end of a healthy run: what was due while the job was alive has arrived       *)
Until(j, tEnd) == IF j.stopReq # -1 THEN j.stopReq ELSE tEnd
Expected(j, tEnd) == LET span == Until(j, tEnd) - Slack - j.ta IN
                     IF span < j.d \/ j.kind = "dup" THEN 0 ELSE IF j.kind = "once" THEN 1
                     ELSE IF j.kind = "cron" THEN (span \div j.d) - 1      \* aligned to the wall clock: the first period may be partial
                     ELSE span \div j.d
Arrived(j) == j.got + j.dl
OnEnd ==
    /\ Ev.e = "End"
    /\ LET missing == {m \in DOMAIN jobs : Arrived(jobs[m]) < Expected(jobs[m], Ev.t)}
           lost == {m \in DOMAIN jobs : jobs[m].fires > Arrived(jobs[m]) /\ jobs[m].lastFire + DelivGrace < Ev.t}
       IN bad' = IF Ev.v = 1 /\ missing # {} THEN
                     Flag(IF \E m \in missing : jobs[m].kind = "once" THEN "OnceDelivers"
                          ELSE IF \E m \in missing : jobs[m].kind = "cron" THEN "CronDeliversEveryPeriod" ELSE "LoopDeliversEveryInterval")
                 ELSE IF lost # {} THEN Flag("FiringReachesMailboxOrDeadLetters")
                 ELSE bad
    /\ UNCHANGED <<jobs, cur, down>>

OnReset == Ev.e = "Reset" /\ jobs' = <<>> /\ cur' = <<>> /\ down' = <<>> /\ UNCHANGED bad

Next == l <= Len(TLog) /\ l' = l + 1 /\
        (OnSched \/ OnStop \/ OnCancel \/ OnCronBad \/ OnFire \/ OnDeliv \/ OnDL \/ OnRecvDown \/ OnEnd \/ OnReset
         \/ (Ev.e \notin {"Sched", "Stop", "Cancel", "CronBad", "Fire", "Deliv", "DL", "RecvDown", "End", "Reset"} /\ UNCHANGED <<bad, jobs, cur, down>>))
Spec == Init /\ [][Next]_vars
Ok == bad = ""
Accepted == TLCGet("stats").diameter - 1 = Len(TLog)
=============================================================================
