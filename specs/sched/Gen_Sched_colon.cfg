INIT GenInit
NEXT GenNext
CONSTANTS
  Paths <- PathsColon
  Refs <- RefsColon
  Durs = {1, 2}
  MaxTime = 5
  MaxOps = 7
  KeyOf <- KeyPair
INVARIANT Emit
CHECK_DEADLOCK FALSE
