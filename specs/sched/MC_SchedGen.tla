---------------------------- MODULE MC_SchedGen ----------------------------
(* behaviour generation for C20: Sched's actions plus a history of the observable outcomes *)
EXTENDS Sched, Json
VARIABLE hist
KeyConcat(p, r) == p \o ":" \o r
KeyPair(p, r) == <<p, r>>
PathsPlain == {"/a", "/b"}
PathsColon == {"/a", "/a:x"}
RefsPlain == {"r", "s"}
RefsColon == {"r", "x:r"}
Finished == now = MaxTime /\ Due = {}
GenInit == Init /\ hist = <<>>
IsOp(o) == o[1] \notin {"deliver", "deadletter", "tick", "init"}
OpsNow == Cardinality({i \in 1..Len(hist) : hist[i].t = now /\ IsOp(hist[i].o)})
(* at most two API calls per clock value, and no scheduling under a reference the actor still remembers *)
(* (the library's answer to a duplicate is unspecified - the queue refuses it silently - and after a    *)
(* once-job a reference stays remembered until Cancel or Clear; re-use therefore follows one of those)  *)
GenNext == /\ ~Finished /\ Next
           /\ IsOp(out') => OpsNow < 2
           /\ out'[1] = "sched" => \/ (out'[8] /\ out'[3] \notin jobKeys[out'[2]])
                                    \* ... except on top of a queued loop job, where the outcome is certain: the call changes nothing
                                    \/ (~out'[8] /\ \E j \in queue : j.key = KeyOf(out'[2], out'[3]) /\ j.kind = "loop")
           /\ hist' = Append(hist, [t |-> now, o |-> out'])
Emit == Finished => PrintT("BEHAV " \o ToJson([paths |-> Paths, steps |-> hist]))
=============================================================================
