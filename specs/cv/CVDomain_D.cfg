INIT Init
NEXT Next
CONSTANTS
  Ids = {"x", "y"}
  G = 2
  L = 1
  Statuses = {"up"}
  T = 2
  V = 2
  E = 1
  TV = 2
CHECK_DEADLOCK FALSE
