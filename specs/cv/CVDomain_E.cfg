INIT Init
NEXT Next
CONSTANTS
  Ids = {"x", "y"}
  G = 1
  L = 2
  Statuses = {"up", "suspect", "leaving", "removed"}
  T = 1
  V = 1
  E = 0
  TV = 1
CHECK_DEADLOCK FALSE
