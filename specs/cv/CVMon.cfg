SPECIFICATION Spec
INVARIANTS
  Union NoInvention NeverOlder Newest EpochMonotone VectorMonotone ChangedReported
  Idempotent Commutative Associative
CHECK_DEADLOCK FALSE
