------------------------------ MODULE CVDomain ------------------------------
(* Writes the set of well-formed views (ClusterView!Views for the constants *)
(* of the configuration) to domain.json; the harness builds each of them as *)
(* a real cluster.ClusterView.                                              *)
EXTENDS ClusterView, TLC, Json, SequencesExt
VARIABLE x
Init == x = 0
Next == FALSE /\ x' = x
Dom == SetToSeq(Views)
ASSUME JsonSerialize("domain.json", [ids |-> SetToSeq(Ids), views |-> Dom])
=============================================================================
