INIT Init
NEXT Next
CONSTANTS
  Ids = {"x", "y", "z"}
  G = 2
  L = 1
  Statuses = {"up"}
  T = 1
  V = 1
  E = 1
  TV = 1
CHECK_DEADLOCK FALSE
