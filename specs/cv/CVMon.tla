------------------------------- MODULE CVMon -------------------------------
(***************************************************************************)
(* Property monitor for C17, evaluated by TLC on tables that the harness   *)
(* filled by running the REAL ClusterView.MergeFromWithOptions on every    *)
(* ordered pair of views of the TLC-generated domain, for one option set:  *)
(*   views[i]     the domain (as written by CVDomain) followed by any      *)
(*                result view that is not itself a domain view             *)
(*   n            size of the domain proper                                *)
(*   mrg[i][j]    index in views of  clone(views[i]).Merge(views[j])       *)
(*   chg[i][j]    the returned `changed` flag                              *)
(*   ksample      indices used as third operand for associativity          *)
(* The state machine only spreads the pairs over TLC's workers.            *)
(***************************************************************************)
EXTENDS Integers, Sequences, TLC, Json, FiniteSets

Tb == JsonDeserialize("tables.json")
N   == Tb.n
D   == Tb.views
Mrg == Tb.mrg
Chg == Tb.chg
KS  == Tb.ksample
IdSeq == Tb.ids
Ids == {IdSeq[p] : p \in 1..Len(IdSeq)}

NoMember  == [gen |-> 0, lc |-> 0, st |-> "none", ts |-> 0]
IdsOf(v) == {id \in Ids : v.mem[id] # NoMember}
Key(m) == <<m.gen, m.lc>>
KeyLess(x, y) == x[1] < y[1] \/ (x[1] = y[1] /\ x[2] < y[2])
MemKeys(v) == [id \in Ids |-> Key(v.mem[id])]

VARIABLES i, j
Init == i \in 1..N /\ j = 0
Next == j = 0 /\ j' \in 1..N /\ UNCHANGED i
Spec == Init /\ [][Next]_<<i, j>>

A == D[i]
B == D[j]
R == D[Mrg[i][j]]

Union        == j > 0 => IdsOf(R) = IdsOf(A) \cup IdsOf(B)
NoInvention  == j > 0 => \A id \in Ids : R.mem[id] \in {A.mem[id], B.mem[id]}
NeverOlder   == j > 0 => \A id \in Ids : ~KeyLess(Key(R.mem[id]), Key(A.mem[id]))
Newest       == j > 0 => \A id \in Ids :
                   /\ ~KeyLess(Key(R.mem[id]), Key(B.mem[id]))
                   /\ (KeyLess(Key(B.mem[id]), Key(A.mem[id])) => R.mem[id] = A.mem[id])
                   /\ (KeyLess(Key(A.mem[id]), Key(B.mem[id])) => R.mem[id] = B.mem[id])
EpochMonotone == j > 0 => R.ep >= A.ep
VectorMonotone == j > 0 => \A id \in IdsOf(A) : R.vv[id] >= A.vv[id]
ChangedReported == j > 0 => (R.mem # A.mem \/ R.vv # A.vv => Chg[i][j])
Idempotent   == j = 0 => LET S == D[Mrg[i][i]] IN S.mem = A.mem /\ S.vv = A.vv
Commutative  == j > 0 => MemKeys(D[Mrg[i][j]]) = MemKeys(D[Mrg[j][i]])
Associative  == j > 0 /\ Mrg[i][j] <= N => \A p \in 1..Len(KS) :
                   LET k == KS[p] IN
                     (Mrg[j][k] <= N) => MemKeys(D[Mrg[Mrg[i][j]][k]]) = MemKeys(D[Mrg[i][Mrg[j][k]]])
=============================================================================
