----------------------------- MODULE ClusterView -----------------------------
(***************************************************************************)
(* Cluster views and MergeFromWithOptions of                               *)
(* internal/cluster/cluster_view.go (+ NodeState.IsNewerThan,              *)
(* VersionVector.Compare/Merge/PruneWithMax), transcribed step by step.    *)
(*                                                                         *)
(* A view is  [mem : Ids -> member state | NoMember,                       *)
(*             vv  : Ids -> 0..V     (0 = no entry; entries only arise by  *)
(*                                    Increment, so no explicit zeros),    *)
(*             ep  : epoch, ts : rank of the view timestamp                *)
(*                                (1 = close to now, 2 = far in the future)]*)
(* A member state is [gen, lc, st, ts]: generation, logical clock, status, *)
(* rank of the member timestamp.                                           *)
(***************************************************************************)
EXTENDS Integers, FiniteSets, Sequences

CONSTANTS Ids, G, L, Statuses, T, V, E, TV

NoMember  == [gen |-> 0, lc |-> 0, st |-> "none", ts |-> 0]
MemStates == [gen : 1..G, lc : 1..L, st : Statuses, ts : 1..T]

\* well-formed views: version-vector entries only for members (what joins, restarts,
\* status changes, increments and merges preserve - recomputeCounts prunes the rest)
Views == {v \in [mem : [Ids -> MemStates \cup {NoMember}], vv : [Ids -> 0..V], ep : 0..E, ts : 1..TV] :
            \A id \in Ids : v.mem[id] = NoMember => v.vv[id] = 0}

EmptyView == [mem |-> [id \in Ids |-> NoMember], vv |-> [id \in Ids |-> 0], ep |-> 0, ts |-> 1]

IdsOf(v) == {id \in Ids : v.mem[id] # NoMember}

(************************ NodeState.IsNewerThan *****************************)
IsNewer(n, o) ==
    IF o = NoMember THEN TRUE
    ELSE IF n.gen # o.gen THEN n.gen > o.gen
    ELSE IF n.lc # 0 /\ o.lc # 0 THEN n.lc > o.lc      \* same id is implied: states are compared per id
    ELSE n.ts > o.ts

(************************ version vector pieces ******************************)
VVLeq(a, b)  == \A id \in Ids : a[id] <= b[id]
VVConcurrent(a, b) == ~VVLeq(a, b) /\ ~VVLeq(b, a)
VVMax(a, b)  == [id \in Ids |-> IF a[id] >= b[id] THEN a[id] ELSE b[id]]
VVPrune(a, act) == IF act = {} THEN a ELSE [id \in Ids |-> IF id \in act THEN a[id] ELSE 0]

(************************ MergeFromWithOptions *******************************)
\* strat: 0 TakeMax, 1 PreferLocal, 2 PreferRemote; skew: clock-skew check enabled
MergeRes(v, o, strat, skew) ==
    IF IdsOf(o) = {} THEN [view |-> v, changed |-> FALSE]
    ELSE
      LET concurrent == VVConcurrent(v.vv, o.vv)
          adoptM(id) == o.mem[id] # NoMember /\ (v.mem[id] = NoMember \/ IsNewer(o.mem[id], v.mem[id]))
          mem1   == [id \in Ids |-> IF adoptM(id) THEN o.mem[id] ELSE v.mem[id]]
          ch1    == \E id \in Ids : adoptM(id)
          act    == {id \in Ids : mem1[id] # NoMember}
          vv1    == VVPrune(v.vv, act)                 \* recomputeCounts
          vv2    == VVMax(vv1, o.vv)
          ch2    == vv2 # vv1                          \* compared with the pruned vector
          skip   == skew /\ o.ts = 2
          adopt  == ~skip /\ (~concurrent \/ strat # 1)
          ep2    == IF adopt /\ o.ep > v.ep THEN o.ep ELSE v.ep
          ts2    == IF adopt /\ o.ts > v.ts THEN o.ts ELSE v.ts
      IN [view |-> [mem |-> mem1, vv |-> vv2, ep |-> ep2, ts |-> ts2],
          changed |-> ch1 \/ ch2 \/ ep2 # v.ep \/ ts2 # v.ts]

Merge(v, o, strat, skew) == MergeRes(v, o, strat, skew).view

(************************ the property, on one merge *************************)
Key(m) == <<m.gen, m.lc>>
KeyLess(x, y) == x[1] < y[1] \/ (x[1] = y[1] /\ x[2] < y[2])
MemKeys(v) == [id \in Ids |-> Key(v.mem[id])]

MergeOK(a, b, r, ch) ==
    /\ IdsOf(r) = IdsOf(a) \cup IdsOf(b)                                   \* union, nobody removed
    /\ \A id \in Ids :
          /\ r.mem[id] \in {a.mem[id], b.mem[id]}
          /\ ~KeyLess(Key(r.mem[id]), Key(a.mem[id]))                        \* never an older incarnation
          /\ ~KeyLess(Key(r.mem[id]), Key(b.mem[id]))                        \* newest of both
          /\ (KeyLess(Key(b.mem[id]), Key(a.mem[id])) => r.mem[id] = a.mem[id])
          /\ (KeyLess(Key(a.mem[id]), Key(b.mem[id])) => r.mem[id] = b.mem[id])
    /\ r.ep >= a.ep
    /\ \A id \in IdsOf(a) : r.vv[id] >= a.vv[id]
    /\ (r.mem # a.mem \/ r.vv # a.vv => ch)
=============================================================================
