INIT Init
NEXT Next
CONSTANTS
  Ids = {"x", "y"}
  G = 2
  L = 2
  Statuses = {"up"}
  T = 2
  V = 1
  E = 1
  TV = 1
CHECK_DEADLOCK FALSE
