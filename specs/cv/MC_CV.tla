------------------------------- MODULE MC_CV -------------------------------
(***************************************************************************)
(* Three views evolving by the operations the cluster code performs on     *)
(* them (join, restart = generation bump, status change, version           *)
(* increment, merge under every option).  The C17 laws are invariants over *)
(* every reachable triple, and action property MergeStep checks each merge *)
(* transition against the property-level predicate MergeOK.                *)
(***************************************************************************)
EXTENDS ClusterView, TLC, Json, SequencesExt

VARIABLES a, b, c, clock
vars == <<a, b, c, clock>>

Init == a = EmptyView /\ b = EmptyView /\ c = EmptyView /\ clock = 1

Opts == {<<s, k>> : s \in 0..2, k \in BOOLEAN}

\* operations on one view x (y ranges over the two others)
Join(x, id)    == x.mem[id] = NoMember
                  /\ x' = [x EXCEPT !.mem[id] = [gen |-> 1, lc |-> 1, st |-> "up", ts |-> clock],
                                    !.vv[id] = IF x.vv[id] < V THEN x.vv[id] + 1 ELSE x.vv[id]]
Restart(x, id) == x.mem[id] # NoMember /\ x.mem[id].gen < G /\ x.mem[id].lc < L
                  /\ x' = [x EXCEPT !.mem[id] = [gen |-> x.mem[id].gen + 1, lc |-> x.mem[id].lc + 1, st |-> "up", ts |-> clock]]
\* a fresh process of a known node: generation 1 again, newer timestamp (tryJoinSeeds before the bump)
Fresh(x, id)   == x.mem[id] # NoMember
                  /\ x' = [x EXCEPT !.mem[id] = [gen |-> 1, lc |-> 1, st |-> "up", ts |-> clock]]
Status(x, id)  == x.mem[id] # NoMember /\ \E s \in Statuses \ {x.mem[id].st} : x' = [x EXCEPT !.mem[id].st = s]
Incr(x, id)    == x.mem[id] # NoMember /\ x.vv[id] < V /\ x' = [x EXCEPT !.vv[id] = @ + 1]
Epoch(x)       == x.ep < E /\ x' = [x EXCEPT !.ep = @ + 1]
MergeOp(x, y)  == \E o \in Opts : x' = Merge(x, y, o[1], o[2])

Step(x, y, z) ==
    \/ \E id \in Ids : Join(x, id) \/ Restart(x, id) \/ Fresh(x, id) \/ Status(x, id) \/ Incr(x, id)
    \/ Epoch(x)
    \/ MergeOp(x, y) \/ MergeOp(x, z)

Tick == clock < T /\ clock' = clock + 1 /\ UNCHANGED <<a, b, c>>

Next == \/ Step(a, b, c) /\ UNCHANGED <<b, c, clock>>
        \/ Step(b, a, c) /\ UNCHANGED <<a, c, clock>>
        \/ Step(c, a, b) /\ UNCHANGED <<a, b, clock>>
        \/ Tick

Spec == Init /\ [][Next]_vars

TypeOK == a \in Views /\ b \in Views /\ c \in Views

\* laws over the reachable triple, for every option
Laws == \A o \in Opts :
    LET M(x, y) == Merge(x, y, o[1], o[2])
        R == MergeRes(a, b, o[1], o[2])
    IN /\ MergeOK(a, b, R.view, R.changed)
       /\ MemKeys(M(a, b)) = MemKeys(M(b, a))
       /\ MemKeys(M(M(a, b), c)) = MemKeys(M(a, M(b, c)))
       /\ M(a, a).mem = a.mem /\ M(a, a).vv = a.vv
=============================================================================
