SPECIFICATION Spec
CONSTANTS
  Ids = {"x", "y"}
  G = 2
  L = 2
  Statuses = {"up"}
  T = 2
  V = 1
  E = 1
  TV = 2
INVARIANTS TypeOK Laws
CHECK_DEADLOCK FALSE
