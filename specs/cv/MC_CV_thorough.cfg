SPECIFICATION Spec
CONSTANTS
  Ids = {"x", "y"}
  G = 2
  L = 2
  Statuses = {"up", "suspect"}
  T = 2
  V = 2
  E = 1
  TV = 1
INVARIANTS TypeOK Laws
CHECK_DEADLOCK FALSE
