------------------------------ MODULE TransMon ------------------------------
(* C15 monitor: one line per executed cell of the LocTrans matrix:            *)
(*   Cell op target fwd flavour s(observed outcome) d(expected) v(decode      *)
(*   failures of built-in messages seen on either system during the cell)     *)
EXTENDS Integers, Sequences, FiniteSets, TLC, Json
VARIABLES l, bad
TLog == ndJsonDeserialize("trace.ndjson")
Ev == TLog[l]
vars == <<l, bad>>
Init == l = 1 /\ bad = ""
Step == IF Ev.e # "Cell" THEN UNCHANGED bad
        ELSE bad' = IF bad # "" THEN bad
                    ELSE IF Ev.s # Ev.d THEN "SameEffect." \o Ev.op \o "." \o Ev.target
                    ELSE IF Ev.v > 0 THEN "BuiltinsDecodable." \o Ev.op
                    ELSE ""
Next == l <= Len(TLog) /\ l' = l + 1 /\ Step
Spec == Init /\ [][Next]_vars
Ok == bad = ""
Accepted == TLCGet("stats").diameter - 1 = Len(TLog)
=============================================================================
