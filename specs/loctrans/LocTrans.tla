------------------------------ MODULE LocTrans ------------------------------
(***************************************************************************)
(* Location transparency (C15): the observable contract of every operation *)
(* of the actor API that takes an ActorRef, written once, independent of   *)
(* where the referenced actor lives.  TLC enumerates the matrix            *)
(*   operation x target location x (forwarder location) x message flavour  *)
(* and writes it to cases.json; the harness executes every cell on two     *)
(* real systems connected over loopback TCP and TransMon compares the      *)
(* observed outcome with Expected.                                         *)
(***************************************************************************)
EXTENDS Integers, Sequences, FiniteSets, TLC, Json, SequencesExt

\* ("pipe-fail": the asked actor never answers, the failure is a time-out; "pipe-fail-plain": it answers with an error value
\*  that is not one of the library's own errors)
Ops == {"tell", "ask", "kill", "pkill", "watch", "watch-both", "unwatch", "ping", "pipe-ok", "pipe-fail", "pipe-fail-plain", "sched-once"}
Locs == {"local", "remote"}
Flavours == {"registered", "codec"}       \* a message type registered with the wire registry / one only the user Codec knows

\* which operations carry a user message (the flavour dimension applies to them only)
Carries(op) == op \in {"tell", "ask", "pipe-ok", "sched-once"}
\* which operations have a second reference parameter (forwarders)
HasFwd(op) == op \in {"pipe-ok", "pipe-fail", "pipe-fail-plain"}

\* history of the target's path: "fresh" = first actor ever under that path; "recreated" = an earlier actor under
\* the same path received a message from the operator, terminated, and a new actor was spawned under the same name
\* "after-failed-encode" = just before the operation the operator sent another system a message whose encoding fails
\* "long-paths" = the operator's and the target's paths are longer than 255 bytes
Hists == {"fresh", "recreated", "after-failed-encode", "long-paths"}
\* who performs the operation: an actor through its ActorContext, or the program through the ActorSystem handle (the root
\* context: its references and the reply addresses of its Asks have no actor segment)
Bys == {"actor", "system"}
Cases == {c \in [op : Ops, target : Locs, fwd : Locs \cup {"-"}, flavour : Flavours \cup {"-"}, hist : Hists, by : Bys] :
            /\ (c.by = "system" => c.op \in {"tell", "ask", "kill", "pkill", "ping", "pipe-ok", "pipe-fail", "pipe-fail-plain"} /\ c.hist = "fresh")
            /\ (HasFwd(c.op) <=> c.fwd # "-")
            /\ (Carries(c.op) <=> c.flavour # "-")
            /\ (c.hist = "recreated" => c.op \in {"tell", "ask", "kill", "ping"} /\ c.flavour \in {"registered", "-"})
            /\ (c.hist = "long-paths" => c.op \in {"tell", "ask", "kill", "pkill", "ping", "watch"} /\ c.flavour \in {"registered", "-"})
            /\ (c.hist = "after-failed-encode" => c.op \in {"tell", "ask", "kill", "ping", "watch"} /\ c.flavour \in {"registered", "-"})}

\* the observable effect, the same wherever the references point
Expected(c) ==
    CASE c.op = "tell" -> "received"
      [] c.op = "ask" -> "replied"
      [] c.op \in {"kill", "pkill"} -> "terminated"
      [] c.op = "watch" -> "notified"          \* OnKilled naming the terminated actor reaches the watcher
      [] c.op = "watch-both" -> "both-notified" \* two watchers with the same path, one on each system
      [] c.op = "unwatch" -> "not-notified"
      [] c.op = "ping" -> "pong"
      [] c.op = "pipe-ok" -> "forwarded-message"
      [] c.op \in {"pipe-fail", "pipe-fail-plain"} -> "forwarded-error"
      [] c.op = "sched-once" -> "received"

VARIABLE x
Init == x = 0
Next == FALSE /\ x' = x
CaseSeq == SetToSeq(Cases)
ASSUME JsonSerialize("cases.json", [i \in 1..Len(CaseSeq) |-> [case |-> CaseSeq[i], expected |-> Expected(CaseSeq[i])]])
\* sanity of the matrix itself
ASSUME \A c \in Cases : Expected(c) \in {"received", "replied", "terminated", "notified", "both-notified", "not-notified", "pong", "forwarded-message", "forwarded-error"}
=============================================================================
