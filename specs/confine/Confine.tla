------------------------------ MODULE Confine ------------------------------
(* C10: who touches an actor context's children table, from which thread,    *)
(* under which protection.                                                    *)
(*                                                                            *)
(* Threads: external callers of the documented-concurrent system API and one  *)
(* mailbox goroutine per actor (turns of one actor never overlap: C01).       *)
(* Every access to a table is two steps (begin, end) so that overlapping      *)
(* accesses are reachable states.                                             *)
(*                                                                            *)
(*  System.ActorOf (external)   lock actorOfLock; write root.children; unlock *)
(*  child death (root's turn)   write root.children; read its size            *)
(*                              - under actorOfLock iff RootTurnLocks         *)
(*  Stop / kill (root's turn)   iterate root.children   (same)                *)
(*  ctx.ActorOf (actor's turn)  write own children                            *)
(*  child death (actor's turn)  write own children                            *)
(*  System.Tell/Ask/Kill/FindActor (external)  registry (sync.Map) only       *)
EXTENDS Integers, FiniteSets, Sequences, TLC
CONSTANTS Ext,            \* external threads
          RootTurnLocks,  \* TRUE: the root's turn takes actorOfLock around its accesses
          MaxSpawns

Actors == {"root", "a"}
MThread(x) == "mb-" \o x
Threads == Ext \cup {MThread(x) : x \in Actors}
None == [obj |-> "none", kind |-> "none"]

VARIABLES pc,       \* thread -> program point
          acc,      \* thread -> the access it is in the middle of
          lockHolder,
          pendingDeaths, \* actor -> number of OnKilled(child) messages waiting in its mailbox
          spawns

vars == <<pc, acc, lockHolder, pendingDeaths, spawns>>

Init == /\ pc = [t \in Threads |-> "idle"]
        /\ acc = [t \in Threads |-> None]
        /\ lockHolder = "none"
        /\ pendingDeaths = [x \in Actors |-> 0]
        /\ spawns = 0

Begin(t, o, k) == acc' = [acc EXCEPT ![t] = [obj |-> o, kind |-> k]]
End(t) == acc' = [acc EXCEPT ![t] = None]
Goto(t, l) == pc' = [pc EXCEPT ![t] = l]

(* ---- System.ActorOf from an external thread ---- *)
ExtLock(e) == pc[e] = "idle" /\ spawns < MaxSpawns /\ lockHolder = "none" /\ lockHolder' = e /\ Goto(e, "spawn.w")
              /\ spawns' = spawns + 1 /\ UNCHANGED <<acc, pendingDeaths>>
ExtWrite(e) == pc[e] = "spawn.w" /\ Begin(e, "root.children", "w") /\ Goto(e, "spawn.w2") /\ UNCHANGED <<lockHolder, pendingDeaths, spawns>>
ExtWritten(e) == pc[e] = "spawn.w2" /\ End(e) /\ Goto(e, "spawn.unlock") /\ UNCHANGED <<lockHolder, pendingDeaths, spawns>>
ExtUnlock(e) == pc[e] = "spawn.unlock" /\ lockHolder' = "none" /\ Goto(e, "idle") /\ UNCHANGED <<acc, pendingDeaths, spawns>>
(* ---- System.Kill from an external thread: a message, the child dies in its own turn and the parent is told ---- *)
ExtKill(e) == pc[e] = "idle" /\ spawns > pendingDeaths["root"] /\ pendingDeaths' = [pendingDeaths EXCEPT !["root"] = @ + 1]
              /\ UNCHANGED <<pc, acc, lockHolder, spawns>>

(* ---- the root's turn for OnKilled(child): delete from root.children, then read its size ---- *)
R == MThread("root")
RootTake == pc[R] = "idle" /\ pendingDeaths["root"] > 0 /\ pendingDeaths' = [pendingDeaths EXCEPT !["root"] = @ - 1]
            /\ (IF RootTurnLocks THEN lockHolder = "none" /\ lockHolder' = R ELSE UNCHANGED lockHolder)
            /\ Goto(R, "death.w") /\ UNCHANGED <<acc, spawns>>
RootWrite == pc[R] = "death.w" /\ Begin(R, "root.children", "w") /\ Goto(R, "death.w2") /\ UNCHANGED <<lockHolder, pendingDeaths, spawns>>
RootWritten == pc[R] = "death.w2" /\ End(R) /\ Goto(R, "death.r") /\ UNCHANGED <<lockHolder, pendingDeaths, spawns>>
RootRead == pc[R] = "death.r" /\ Begin(R, "root.children", "r") /\ Goto(R, "death.r2") /\ UNCHANGED <<lockHolder, pendingDeaths, spawns>>
RootReadDone == pc[R] = "death.r2" /\ End(R) /\ Goto(R, "idle")
                /\ (IF RootTurnLocks THEN lockHolder' = "none" ELSE UNCHANGED lockHolder) /\ UNCHANGED <<pendingDeaths, spawns>>

(* ---- an ordinary actor: spawns and loses children in its own turns only ---- *)
A == MThread("a")
ATurnSpawn == pc[A] = "idle" /\ Begin(A, "a.children", "w") /\ Goto(A, "own.w2") /\ pendingDeaths' = [pendingDeaths EXCEPT !["a"] = 1]
              /\ UNCHANGED <<lockHolder, spawns>>
ATurnDeath == pc[A] = "idle" /\ pendingDeaths["a"] > 0 /\ Begin(A, "a.children", "w") /\ Goto(A, "own.w2")
              /\ pendingDeaths' = [pendingDeaths EXCEPT !["a"] = 0] /\ UNCHANGED <<lockHolder, spawns>>
ADone == pc[A] = "own.w2" /\ End(A) /\ Goto(A, "idle") /\ UNCHANGED <<lockHolder, pendingDeaths, spawns>>

Next == \/ \E e \in Ext : ExtLock(e) \/ ExtWrite(e) \/ ExtWritten(e) \/ ExtUnlock(e) \/ ExtKill(e)
        \/ RootTake \/ RootWrite \/ RootWritten \/ RootRead \/ RootReadDone
        \/ ATurnSpawn \/ ATurnDeath \/ ADone
Spec == Init /\ [][Next]_vars

(* no two threads are inside accesses to the same table at the same time unless both only read *)
NoRace == \A t1, t2 \in Threads : t1 # t2 /\ acc[t1].obj # "none" /\ acc[t1].obj = acc[t2].obj => acc[t1].kind = "r" /\ acc[t2].kind = "r"
=============================================================================
