----------------------------- MODULE ConfineMon -----------------------------
(* C10 monitor: lockset discipline (Eraser) over recorded accesses to actor   *)
(* children tables, and tree consistency at quiescence.                       *)
(*                                                                            *)
(*  Acc o(owner path of the table) k(r|w) g(goroutine) t(path whose turn the  *)
(*      goroutine is executing, "" if none) L(sequence of locks held)         *)
(*  Tree N(sequence of [a(path) p(parent path) c(sequence of child paths in   *)
(*       a's table) v(1 = a is registered)]): the actor tree at quiescence     *)
(*  Survived v(1 = the stress process ended normally) s(first fatal line)     *)
(*  Race s(pair of functions reported by the race detector)                   *)
(*  Check | Reset                                                             *)
EXTENDS Integers, Sequences, FiniteSets, TLC, Json
VARIABLES l, bad, st, cand, tree
TLog == ndJsonDeserialize("trace.ndjson")
Ev == TLog[l]
vars == <<l, bad, st, cand, tree>>
Put(f, k, v) == [x \in DOMAIN f \cup {k} |-> IF x = k THEN v ELSE f[x]]
Get(f, k, d) == IF k \in DOMAIN f THEN f[k] ELSE d
Flag(rule) == IF bad = "" THEN rule ELSE bad
Range(s) == {s[i] : i \in 1..Len(s)}
Init == l = 1 /\ bad = "" /\ st = <<>> /\ cand = <<>> /\ tree = <<>>

(* protection of one access: the locks held, plus "turn" when the table's owner is executing its own turn *)
Prot == Range(Ev.L) \cup (IF Ev.t = Ev.o THEN {"turn"} ELSE {})
(* Eraser: virgin -> exclusive(first goroutine) -> shared (read by another) -> shared-modified (written by another) *)
OnAcc ==
    /\ Ev.e = "Acc"
    /\ LET s == Get(st, Ev.o, [k |-> "virgin", g |-> -1]) IN
       IF s.k = "virgin" THEN st' = Put(st, Ev.o, [k |-> "exclusive", g |-> Ev.g]) /\ UNCHANGED <<cand, bad>>
       ELSE IF s.k = "exclusive" /\ s.g = Ev.g THEN UNCHANGED <<st, cand, bad>>
       ELSE LET c0 == IF s.k = "exclusive" THEN Prot ELSE cand[Ev.o] \cap Prot
                k2 == IF Ev.k = "w" \/ s.k = "modified" THEN "modified" ELSE "shared"
            IN /\ st' = Put(st, Ev.o, [k |-> k2, g |-> -1])
               /\ cand' = Put(cand, Ev.o, c0)
               /\ bad' = IF k2 = "modified" /\ c0 = {} THEN Flag("Confined") ELSE bad
    /\ UNCHANGED tree
Nodes == Range(Ev.N)
Registered == {n.a : n \in {m \in Nodes : m.v = 1}}
TreeVerdict ==
    IF \E n \in Nodes : n.v = 1 /\ n.a # "/" /\ ~(\E m \in Nodes : m.a = n.p /\ n.a \in Range(m.c)) THEN "ChildListedByParent"
    ELSE IF \E n \in Nodes : \E ch \in Range(n.c) : ch \notin Registered THEN "NoDanglingChildEntry"
    ELSE ""
OnTree == /\ Ev.e = "Tree" /\ bad' = (IF TreeVerdict # "" THEN Flag(TreeVerdict) ELSE bad) /\ UNCHANGED <<st, cand, tree>>
OnSurvived == /\ Ev.e = "Survived" /\ bad' = (IF Ev.v # 1 THEN Flag("ProcessSurvives") ELSE bad) /\ UNCHANGED <<st, cand, tree>>
OnRace == /\ Ev.e = "Race" /\ bad' = Flag("NoDataRace") /\ UNCHANGED <<st, cand, tree>>
(* Anomaly s: the stress observed a corrupted value (a future result carrying a message and an error together) *)
OnAnomaly == /\ Ev.e = "Anomaly" /\ bad' = Flag("NoCorruptedValue") /\ UNCHANGED <<st, cand, tree>>
OnReset == /\ Ev.e = "Reset" /\ st' = <<>> /\ cand' = <<>> /\ tree' = <<>> /\ UNCHANGED bad
Other == Ev.e \notin {"Acc", "Tree", "Survived", "Race", "Reset", "Anomaly"} /\ UNCHANGED <<bad, st, cand, tree>>
Next == l <= Len(TLog) /\ l' = l + 1 /\ (OnAcc \/ OnTree \/ OnSurvived \/ OnRace \/ OnAnomaly \/ OnReset \/ Other)
Spec == Init /\ [][Next]_vars
Ok == bad = ""
Accepted == TLCGet("stats").diameter - 1 = Len(TLog)
=============================================================================
