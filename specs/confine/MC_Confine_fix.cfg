SPECIFICATION Spec
CONSTANTS
  Ext <- E2
  RootTurnLocks = TRUE
  MaxSpawns = 3
INVARIANT NoRace
CHECK_DEADLOCK FALSE
