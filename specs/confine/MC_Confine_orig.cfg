SPECIFICATION Spec
CONSTANTS
  Ext <- E2
  RootTurnLocks = FALSE
  MaxSpawns = 3
INVARIANT NoRace
CHECK_DEADLOCK FALSE
