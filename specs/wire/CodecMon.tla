------------------------------ MODULE CodecMon ------------------------------
(* C12 / C13 monitor: one line per executed codec case.                       *)
(*  RT   c(case)  v(equal 0/1)  n(reader consumed exactly the written bytes)  *)
(*       m(model width, -1 unknown)  k(written bytes)                          *)
(*  Tot  c(case)  s(outcome: value|error|panic|timeout|crash)                  *)
(*       k(input bytes)  m(bytes allocated)  v(caller's previous value         *)
(*       modified after a failed decode 0/1)  a(1 = the valid encoding the     *)
(*       fault was applied to still decodes correctly right afterwards)        *)
EXTENDS Integers, Sequences, FiniteSets, TLC, Json
VARIABLES l, bad
TLog == ndJsonDeserialize("trace.ndjson")
Ev == TLog[l]
vars == <<l, bad>>
Init == l = 1 /\ bad = ""
Flag(r) == IF bad = "" THEN r ELSE bad
Step == CASE Ev.e = "RT" -> bad' = IF Ev.v # 1 THEN Flag("RoundTripEqual") ELSE IF Ev.n # 1 THEN Flag("ConsumesExactly") ELSE bad
          [] Ev.e = "Tot" -> bad' = IF Ev.s \notin {"value", "error"} THEN Flag("ReturnsValueOrError." \o Ev.s)
                                    ELSE IF Ev.m > 33554432 + 64 * Ev.k THEN Flag("AllocationProportional")
                                    ELSE IF Ev.v # 0 THEN Flag("FailedDecodeLeavesTargetUntouched")
                                    ELSE IF Ev.a # 1 THEN Flag("ValidInputDecodesAfterBadInput")
                                    ELSE bad
          [] OTHER -> UNCHANGED bad
Next == l <= Len(TLog) /\ l' = l + 1 /\ Step
Spec == Init /\ [][Next]_vars
Ok == bad = ""
Accepted == TLCGet("stats").diameter - 1 = Len(TLog)
=============================================================================
