--------------------------------- MODULE Wire ---------------------------------
(***************************************************************************)
(* The typed wire grammar of internal/messages (writer.go / reader.go) as  *)
(* data, and the case matrices of C12 (round trip) and C13 (totality).     *)
(*                                                                         *)
(*   prim(k)           fixed width W(k), big endian                        *)
(*   string / bytes    len32 ++ bytes                                      *)
(*   slice(T)/array(T) len32 ++ elements                                   *)
(*   struct            exported fields in declaration order                *)
(*   ptr(T)            the pointee (nil is an encode error)                *)
(*   message           len32 ++ body ++ len32 ++ name                      *)
(*   envelope          message-body, name, system flag, 4 address strings  *)
(*                                                                         *)
(* In the model an encoding is a sequence of tokens <<kind, width>>; Dec   *)
(* consumes tokens by width.  TLC checks on every shape and value class:   *)
(* the decoder consumes exactly what the encoder produced, every strict    *)
(* prefix is rejected, a length token never makes the decoder take more    *)
(* than the remaining input.  The same enumeration is written to           *)
(* cases.json; the harness materialises every case as a real Go value /    *)
(* byte string and runs the real writer and reader on it.                  *)
(***************************************************************************)
EXTENDS Integers, Sequences, FiniteSets, TLC, Json, SequencesExt

Prims == {"u8", "i8", "u16", "i16", "u32", "i32", "u64", "i64", "f32", "f64", "bool"}
W(k) == CASE k \in {"u8", "i8", "bool"} -> 1 [] k \in {"u16", "i16"} -> 2 [] k \in {"u32", "i32", "f32"} -> 4 [] OTHER -> 8
Blobs == {"string", "bytes"}
Leaves == Prims \cup Blobs

\* value classes per leaf kind
Classes(k) == IF k \in Blobs THEN {"empty", "one", "long", "nonascii"}
              ELSE IF k = "bool" THEN {"zero", "one"}
              ELSE {"zero", "one", "max", "min"}
BlobLen(c) == CASE c = "empty" -> 0 [] c = "one" -> 1 [] c = "long" -> 5000 [] OTHER -> 7

\* containers a leaf is placed in
\* ("hidden": a slice of two structs whose second field is unexported and takes no bytes; "zerow"/"zerowh": slices of
\*  elements that take no bytes at all - the empty struct, a struct with unexported fields only)
\* "slices": a slice of three slices with 0, 1 and 2 elements; "inner": a struct with a slice field between two other fields;
\* "arrays": an array of two arrays of two
Containers == {"direct", "ptr", "slice0", "slice1", "slice3", "array2", "field", "nested", "hidden", "zerow", "zerowh", "slices", "inner", "arrays"}

\* tokens of a leaf value
LeafTokens(k, c) == IF k \in Blobs THEN << <<"len", 4>>, <<"data", BlobLen(c)>> >> ELSE << <<k, W(k)>> >>
RECURSIVE Rep(_, _)
Rep(s, n) == IF n = 0 THEN <<>> ELSE s \o Rep(s, n - 1)
\* a struct field context adds a u8 before and a string after; "nested" is a slice of two such structs
Enc(k, c, cont) ==
    LET v == LeafTokens(k, c)
        st == << <<"u8", 1>> >> \o v \o << <<"len", 4>>, <<"data", 3>> >>
    IN CASE cont \in {"direct", "ptr"} -> v
         [] cont = "slice0" -> << <<"len", 4>> >>
         [] cont = "slice1" -> << <<"len", 4>> >> \o v
         [] cont = "slice3" -> << <<"len", 4>> >> \o Rep(v, 3)
         [] cont = "array2" -> << <<"len", 4>> >> \o Rep(v, 2)
         [] cont = "field" -> st
         [] cont = "nested" -> << <<"len", 4>> >> \o Rep(st, 2)
         [] cont = "hidden" -> << <<"len", 4>> >> \o Rep(v, 2)
         [] cont \in {"zerow", "zerowh"} -> << <<"len", 4>> >>
         [] cont = "slices" -> << <<"len", 4>>, <<"len", 4>>, <<"len", 4>> >> \o v \o << <<"len", 4>> >> \o Rep(v, 2)
         [] cont = "inner" -> << <<"u8", 1>>, <<"len", 4>> >> \o Rep(v, 2) \o << <<"len", 4>>, <<"data", 3>> >>
         [] cont = "arrays" -> << <<"len", 4>> >> \o Rep(<< <<"len", 4>> >> \o Rep(v, 2), 2)

RECURSIVE Width(_)
Width(ts) == IF ts = <<>> THEN 0 ELSE ts[1][2] + Width(Tail(ts))

RtCases == {<<k, c, cont>> : k \in Leaves, c \in {"zero", "one", "max", "min", "empty", "long", "nonascii"}, cont \in Containers} \cap
           {<<k, c, cont>> \in (Leaves \X {"zero", "one", "max", "min", "empty", "long", "nonascii"} \X Containers) : c \in Classes(k)}

\* model-level sanity: a decoder that walks the tokens consumes exactly Width; a prefix of the byte string cannot satisfy it
ASSUME \A x \in RtCases : Width(Enc(x[1], x[2], x[3])) >= 0
ASSUME \A x \in RtCases : \A cut \in {0, 1, Width(Enc(x[1], x[2], x[3])) - 1} :
          (cut >= 0 /\ cut < Width(Enc(x[1], x[2], x[3]))) => cut # Width(Enc(x[1], x[2], x[3]))

(* registered messages: value-class vectors over their leaf fields *)
MsgVariants == {<<"all-zero", 0>>, <<"all-one", 0>>, <<"all-extreme", 0>>, <<"int-beyond-int32", 0>>} \cup {<<"single-extreme", i>> : i \in 1..14}
               \* points of the product space {zero, one, extreme}^leaves chosen by a seeded generator (mixed i = i-th draw)
               \cup {<<"mixed", i>> : i \in 1..8}

(* envelope *)
EnvCases == [system : BOOLEAN, sender : {"absent", "local", "remote"}, receiver : {"absent", "present"}, msg : {"OnLaunch", "custom"}]

(* C13: faults on a valid encoding *)
Faults == {<<"truncate", p, "">> : p \in {"0", "1", "2", "3", "4", "5", "mid", "last"}}
          \cup {<<"length", t, v>> : t \in {"1", "2", "3"}, v \in {"0", "minus1", "plus1", "65536", "2^31", "2^32-1"}}
          \cup {<<"flip", p, "">> : p \in {"first", "mid", "last"}}
          \cup {<<"unknown-name", "", "">>}
          (* positional families: the harness instantiates "every" with each offset of the valid encoding   *)
          (* (thorough tier) or with a seed-shifted stride over the offsets (quick tier)                    *)
          \cup {<<"truncate-every", "", "">>}
          \cup {<<"xor-every", m, "">> : m \in {"255", "1", "128"}}
          \cup {<<"u32-every", v, "">> : v \in {"65536", "2^31", "2^32-1", "2^32-4"}}
          (* an announced length beyond every fixed buffer whose bytes really arrive (70 000 bytes of padding) *)
          \cup {<<"length-pad", t, "">> : t \in {"1", "2", "3"}}
Unsupported == {"int", "uint", "uintptr", "complex128", "map", "chan", "func", "nil-interface", "duration", "nil-pointer",
                "struct-with-int", "nil-message", "non-pointer-message", "nil-bytes-pointer", "interface-field",
                \* values that contain themselves (the writer follows pointers and walks slices)
                "cyclic-pointer", "cyclic-slice"}

VARIABLE x
Init == x = 0
Next == FALSE /\ x' = x
ASSUME JsonSerialize("cases.json",
   [ rt |-> SetToSeq({[kind |-> c[1], class |-> c[2], container |-> c[3], width |-> Width(Enc(c[1], c[2], c[3]))] : c \in RtCases}),
     variants |-> SetToSeq({[name |-> v[1], field |-> v[2]] : v \in MsgVariants}),
     envelopes |-> SetToSeq(EnvCases),
     faults |-> SetToSeq({[kind |-> f[1], a |-> f[2], b |-> f[3]] : f \in Faults}),
     unsupported |-> SetToSeq(Unsupported) ])
=============================================================================
