------------------------------ MODULE Handshake ------------------------------
(* The prologue of an accepted remoting connection (Handshake.Wait): the      *)
(* dialling side writes  len32 ++ address  (H bytes) and waits for the        *)
(* answer before it writes any frame; the accepting side reads the handshake  *)
(* and then parses frames from the same stream.  TCP may hand the H bytes to  *)
(* the reader in any segmentation.                                            *)
(*                                                                            *)
(* ReadFull = FALSE is the original code: ONE conn.Read into a 4096-byte      *)
(* buffer, decoded as if it held the whole handshake; the bytes that had not  *)
(* arrived yet are later taken for the beginning of the first frame.          *)
(* ReadFull = TRUE: the prefix and then exactly the announced number of bytes *)
(* are read (io.ReadFull).                                                    *)
EXTENDS Integers, Sequences, TLC
CONSTANTS H,        \* handshake length in bytes (4 + address length)
          Cuts,     \* read lengths the environment may choose (0 = everything available)
          ReadFull
VARIABLES got,      \* handshake bytes the reader has pulled from the connection
          phase,    \* "hs" | "frames"
          leftover, \* handshake bytes that remain in the stream when frame parsing starts
          reads     \* history: lengths of the reads (the schedule for the replay)
vars == <<got, phase, leftover, reads>>
Init == got = 0 /\ phase = "hs" /\ leftover = 0 /\ reads = <<>>
Read(k) ==
    /\ phase = "hs" /\ got < H
    /\ LET n == IF k = 0 \/ k > H - got THEN H - got ELSE k IN
         /\ got' = got + n /\ reads' = Append(reads, n)
         /\ IF ReadFull THEN (IF got + n = H THEN phase' = "frames" ELSE phase' = "hs") /\ leftover' = 0
            ELSE phase' = "frames" /\ leftover' = H - (got + n)       \* whatever came with the first Read is "the handshake"
Next == \E k \in Cuts : Read(k)
Spec == Init /\ [][Next]_vars /\ WF_vars(Next)
\* frame parsing starts exactly at the first byte after the handshake
FramesStartAfterHandshake == phase = "frames" => leftover = 0
HandshakeCompletes == <>(phase = "frames")
=============================================================================
