INIT Init
NEXT Next
CONSTANTS
  Sizes <- S4
  Cuts <- CutsBig
  PersistentReader = TRUE
INVARIANT Emit
CHECK_DEADLOCK FALSE
