SPECIFICATION Spec
CONSTANTS
  Sizes <- S4
  Cuts <- CutsBig
  PersistentReader = TRUE
VIEW View
INVARIANTS NothingLost InOrderOnce
PROPERTY AllDelivered
CHECK_DEADLOCK FALSE
