SPECIFICATION Spec
CONSTANTS
  Sizes <- S4
  Cuts <- CutsBig
  PersistentReader = TRUE
  BreakAllowed = FALSE
VIEW View
INVARIANTS NothingLost InOrderOnce
PROPERTY AllDelivered
CHECK_DEADLOCK FALSE
