SPECIFICATION Spec
CONSTANTS
  H = 6
  Cuts = {0, 1, 3, 4, 5}
  ReadFull = TRUE
INVARIANT FramesStartAfterHandshake
PROPERTY HandshakeCompletes
CHECK_DEADLOCK FALSE
