----------------------------- MODULE MC_Framing -----------------------------
EXTENDS Framing, Json
\* frames: empty body, 1 byte, small, around the bufio buffer size (4096 incl. what is already buffered)
S3 == <<0, 1, 10>>
S4 == <<10, 0, 4092, 3>>
S5 == <<4090, 4096, 5, 0, 4097>>
CutsSmall == {0, 1, 2, 3, 4, 5, 7, 14}
CutsBig == {0, 1, 3, 4, 5, 4095, 4096, 4097, 4100}
View == <<written, taken, buffered, lost, need, cur, delivered, broken>>
Emit == Done => PrintT("BEHAV " \o ToJson([sizes |-> Sizes, steps |-> reads]))
=============================================================================
