SPECIFICATION Spec
CONSTANTS
  Sizes <- S3
  Cuts <- CutsSmall
  PersistentReader = FALSE
  BreakAllowed = FALSE
VIEW View
INVARIANTS NothingLost InOrderOnce
PROPERTY AllDelivered
CHECK_DEADLOCK FALSE
