SPECIFICATION Spec
CONSTANTS
  NMsgs = 3
  Limit = 2
  MaxFaults = 1
  FlakyPeer = TRUE
  ResetOnConnect = FALSE
INVARIANTS Subsequence NotBoth Accounted
PROPERTY Finishes
CHECK_DEADLOCK FALSE
