------------------------------- MODULE Framing -------------------------------
(***************************************************************************)
(* The receiving side of a remoting connection                              *)
(* (internal/remoting/tcp_connection.go onReadConn): a byte stream made of  *)
(* frames  len32 ++ body  arrives in arbitrary segments (every conn.Read    *)
(* returns some non-empty prefix of what is available); one actor turn      *)
(* parses exactly one frame through a buffered reader and hands the decoded *)
(* envelope to the local system.                                            *)
(*                                                                          *)
(* Bytes are abstract: only stream offsets matter.  `wire` is the number of *)
(* bytes the sender has written, `taken` the number the reader has pulled   *)
(* from the connection, `buffered` how many of those sit unparsed in the    *)
(* bufio.Reader, `lost` how many were thrown away.                          *)
(*                                                                          *)
(* PersistentReader = FALSE is the original code: a NEW bufio.Reader per    *)
(* frame, so whatever the previous one had buffered beyond its frame is     *)
(* discarded and the stream loses its framing.  TRUE is the repaired code.  *)
(***************************************************************************)
EXTENDS Integers, Sequences, FiniteSets, TLC

CONSTANTS Sizes,            \* sequence of body lengths of the frames the sender writes, in order
          Cuts,             \* which read lengths the environment may choose (set of positive integers; "all" = 0)
          PersistentReader,
          BreakAllowed      \* the connection may be reset after any number of bytes (C14)

Prefix == 4
FrameLen(i) == Prefix + Sizes[i]
RECURSIVE StartOf(_)
StartOf(i) == IF i = 1 THEN 0 ELSE StartOf(i - 1) + FrameLen(i - 1)
Total == StartOf(Len(Sizes)) + FrameLen(Len(Sizes))

VARIABLES written,   \* frames written by the sender so far
          taken, buffered, lost,
          need,      \* "len" | "body" : what the parser waits for
          cur,       \* index of the frame being parsed (by stream position)
          delivered, \* sequence of frame indices handed to the system
          reads,     \* history: stream offsets at which the Reads ended (the schedule for the replay)
          broken     \* the connection has been reset: no further Read succeeds
vars == <<written, taken, buffered, lost, need, cur, delivered, reads, broken>>

Wire == IF written = 0 THEN 0 ELSE StartOf(written) + FrameLen(written)

Init == written = 0 /\ taken = 0 /\ buffered = 0 /\ lost = 0 /\ need = "len" /\ cur = 1 /\ delivered = <<>> /\ reads = <<>> /\ broken = FALSE

\* the sender writes its next frame with one Write call
Write == /\ written < Len(Sizes) /\ written' = written + 1
         /\ reads' = Append(reads, [op |-> "w", at |-> written + 1])
         /\ ~broken
         /\ UNCHANGED <<taken, buffered, lost, need, cur, delivered, broken>>

\* the connection is reset: the bytes read so far are all the reader will ever get
Break == /\ BreakAllowed /\ ~broken /\ broken' = TRUE
         /\ reads' = Append(reads, [op |-> "x", at |-> taken])
         /\ UNCHANGED <<written, taken, buffered, lost, need, cur, delivered>>

Needed == IF need = "len" THEN Prefix ELSE Sizes[cur]

\* the reader needs more bytes than it has buffered: one conn.Read returns k bytes
Read(k) ==
    /\ lost = 0 /\ cur <= Len(Sizes) /\ ~broken
    /\ buffered < Needed
    /\ Wire - taken > 0
    /\ LET n == IF k = 0 \/ k > Wire - taken THEN Wire - taken ELSE k IN
         /\ taken' = taken + n /\ buffered' = buffered + n
         /\ reads' = Append(reads, [op |-> "r", at |-> taken + n])
    /\ UNCHANGED <<written, lost, need, cur, delivered, broken>>

\* enough bytes: parse the length prefix, then the body; the frame is decoded and delivered
ParseLen == /\ lost = 0 /\ need = "len" /\ buffered >= Prefix /\ cur <= Len(Sizes)
            /\ buffered' = buffered - Prefix /\ need' = "body"
            /\ UNCHANGED <<written, taken, lost, cur, delivered, reads, broken>>
ParseBody ==
    /\ lost = 0 /\ need = "body" /\ buffered >= Sizes[cur]
    /\ delivered' = Append(delivered, cur)
    /\ cur' = cur + 1 /\ need' = "len"
    /\ LET rest == buffered - Sizes[cur] IN
         IF PersistentReader THEN buffered' = rest /\ lost' = lost
         ELSE buffered' = 0 /\ lost' = lost + rest        \* the next turn creates a fresh bufio.Reader
    /\ UNCHANGED <<written, taken, reads, broken>>

Next == Write \/ (\E k \in Cuts : Read(k)) \/ ParseLen \/ ParseBody \/ Break
Spec == Init /\ [][Next]_vars /\ WF_vars(Next)

\* the property on the model
NothingLost == lost = 0
InOrderOnce == \A i \in 1..Len(delivered) : delivered[i] = i
AllDelivered == <>(Len(delivered) = Len(Sizes) \/ broken)
\* under a reset: exactly the frames that arrived completely are delivered - a prefix, nothing partial
CompleteFramesOnly == broken => \A i \in 1..Len(delivered) : StartOf(delivered[i]) + FrameLen(delivered[i]) <= taken
Done == Len(delivered) = Len(Sizes) \/ lost > 0 \/ (broken /\ ~ENABLED ParseLen /\ ~ENABLED ParseBody)
=============================================================================
