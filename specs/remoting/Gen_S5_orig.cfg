INIT Init
NEXT Next
CONSTANTS
  Sizes <- S5
  Cuts <- CutsBig
  PersistentReader = FALSE
  BreakAllowed = FALSE
INVARIANT Emit
CHECK_DEADLOCK FALSE
