INIT Init
NEXT Next
CONSTANTS
  Sizes <- S3
  Cuts <- CutsSmall
  PersistentReader = FALSE
  BreakAllowed = FALSE
INVARIANT Emit
CHECK_DEADLOCK FALSE
