--------------------------------- MODULE Link ---------------------------------
(***************************************************************************)
(* Remoting under connection faults: the sending mailbox                    *)
(* (internal/remoting/mailbox.go Enqueue: connect, encode, closed-check,    *)
(* write, retry with back-off up to ReconnectLimit, dead-letter) against a  *)
(* peer whose connection may be refused, cut after any frame or in the      *)
(* middle of a frame, and which may come back.                              *)
(*                                                                          *)
(* Frames are atomic units on the wire except for the one being written     *)
(* when the cut happens (a partial frame is never delivered: the reader     *)
(* needs the whole body).  A write that the kernel accepted may still be    *)
(* lost if the connection breaks afterwards (`inflight`).                   *)
(***************************************************************************)
EXTENDS Integers, Sequences, FiniteSets, TLC

CONSTANTS NMsgs, Limit, MaxFaults,
          FlakyPeer,       \* TRUE: a peer in a crash loop - it accepts the connection and breaks it again, without any bound
          ResetOnConnect   \* TRUE: the variant "a successful connect resets the attempt counter" (a seeded change)

VARIABLES next,        \* next message the sender will enqueue (1..NMsgs+1)
          attempt,     \* attempts made for the current message
          conn,        \* "none" | "up" | "broken" (broken: the peer is gone but the sender has not noticed)
          peerUp,      \* the peer accepts connections
          inflight,    \* frames accepted by the kernel, not yet read by the peer (in order)
          delivered,   \* what the remote actor received, in order
          dead,        \* messages reported as dead letters on the sending side
          lostSilently,\* accepted by the kernel but destroyed by a later cut
          faults
vars == <<next, attempt, conn, peerUp, inflight, delivered, dead, lostSilently, faults>>

Init == next = 1 /\ attempt = 0 /\ conn = "none" /\ peerUp = TRUE /\ inflight = <<>> /\ delivered = <<>> /\ dead = {} /\ lostSilently = {} /\ faults = 0

Sending == next <= NMsgs

\* one iteration of the retry loop for message `next`
Connect ==
    /\ Sending /\ conn = "none"
    /\ IF peerUp THEN conn' = "up" /\ attempt' = (IF ResetOnConnect THEN 0 ELSE attempt) /\ UNCHANGED <<next, dead>>
       ELSE \* refused: retry or give up
            IF attempt >= Limit THEN dead' = dead \cup {next} /\ next' = next + 1 /\ attempt' = 0 /\ conn' = conn
            ELSE attempt' = attempt + 1 /\ UNCHANGED <<next, dead, conn>>
    /\ UNCHANGED <<peerUp, inflight, delivered, lostSilently, faults>>

Write ==
    /\ Sending /\ conn \in {"up", "broken"}
    /\ IF conn = "up"
       THEN /\ inflight' = Append(inflight, next) /\ next' = next + 1 /\ attempt' = 0
            /\ UNCHANGED <<conn, dead, lostSilently>>
       ELSE \* the write on a connection whose peer is gone: either the kernel still takes it (lost) or it fails
            \/ /\ lostSilently' = lostSilently \cup {next} /\ next' = next + 1 /\ attempt' = 0
               /\ UNCHANGED <<conn, inflight, dead>>
            \/ /\ conn' = "none"
               /\ IF attempt >= Limit THEN dead' = dead \cup {next} /\ next' = next + 1 /\ attempt' = 0
                  ELSE attempt' = attempt + 1 /\ UNCHANGED <<next, dead>>
               /\ UNCHANGED <<inflight, lostSilently>>
    /\ UNCHANGED <<peerUp, delivered, faults>>

\* the peer reads one complete frame
PeerRead ==
    /\ inflight # <<>> /\ conn = "up"
    /\ delivered' = Append(delivered, Head(inflight)) /\ inflight' = Tail(inflight)
    /\ UNCHANGED <<next, attempt, conn, peerUp, dead, lostSilently, faults>>

\* the connection is cut: whatever is in flight is destroyed
Cut ==
    /\ faults < MaxFaults /\ conn = "up"
    /\ conn' = "broken" /\ faults' = faults + 1
    /\ lostSilently' = lostSilently \cup {inflight[i] : i \in 1..Len(inflight)} /\ inflight' = <<>>
    /\ UNCHANGED <<next, attempt, peerUp, delivered, dead>>
PeerDown == /\ faults < MaxFaults /\ peerUp /\ peerUp' = FALSE /\ faults' = faults + 1
            /\ conn' = IF conn = "up" THEN "broken" ELSE conn
            /\ lostSilently' = lostSilently \cup {inflight[i] : i \in 1..Len(inflight)} /\ inflight' = <<>>
            /\ UNCHANGED <<next, attempt, delivered, dead>>
PeerBack == /\ ~peerUp /\ peerUp' = TRUE /\ UNCHANGED <<next, attempt, conn, inflight, delivered, dead, lostSilently, faults>>

\* the crash-looping peer: like Cut, but it costs nothing (the attempt counter is the only thing that ends the retries)
Flake == /\ FlakyPeer /\ conn = "up"
         /\ conn' = "broken"
         /\ lostSilently' = lostSilently \cup {inflight[i] : i \in 1..Len(inflight)} /\ inflight' = <<>>
         /\ UNCHANGED <<next, attempt, peerUp, delivered, dead, faults>>

Next == Connect \/ Write \/ PeerRead \/ Cut \/ PeerDown \/ PeerBack \/ Flake
Spec == Init /\ [][Next]_vars /\ WF_vars(Connect) /\ WF_vars(Write) /\ WF_vars(PeerRead)

\* what the remote actor gets is a strictly increasing sequence of sent ids: subsequence, no duplicate, in order
Subsequence == \A i, j \in 1..Len(delivered) : i < j => delivered[i] < delivered[j]
\* nothing is both delivered and reported dead, nothing is reported twice (dead is a set: by construction)
NotBoth == \A i \in 1..Len(delivered) : delivered[i] \notin dead
\* every message the sender is done with is accounted for
Accounted == \A m \in 1..(next - 1) :
                \/ m \in dead \/ m \in lostSilently
                \/ (\E i \in 1..Len(delivered) : delivered[i] = m) \/ (\E i \in 1..Len(inflight) : inflight[i] = m)
\* a message that could never be written (the peer refused every attempt) is dead-lettered: with the peer down for good
\* and no connection, the sender gets through all its messages
Finishes == <>(next = NMsgs + 1)
=============================================================================
