----------------------------- MODULE FaultMon -----------------------------
(* C11 / C14 monitor over delivery traces of the real remoting layer.          *)
(*  Sent src dst m      the sending side handed message m to Tell/Ask           *)
(*  Recv src dst m v    the remote actor dst received m from src (v=1 intact)   *)
(*  Replied m v         the asker got the reply to request m (v=1 correct)      *)
(*  DLocal m            m was published as a dead letter on the sending side    *)
(*  End k               k = "healthy": the link stayed up, everything must have *)
(*                      arrived; k = "faulty": only the subsequence rules apply *)
EXTENDS Integers, Sequences, FiniteSets, TLC, Json
VARIABLES l, bad, sent, got, asked, replied, dls
TLog == ndJsonDeserialize("trace.ndjson")
Ev == TLog[l]
Get(f, k, d) == IF k \in DOMAIN f THEN f[k] ELSE d
Put(f, k, v) == [x \in DOMAIN f \cup {k} |-> IF x = k THEN v ELSE f[x]]
Flag(rule) == IF bad = "" THEN rule ELSE bad
vars == <<l, bad, sent, got, asked, replied, dls>>
Init == l = 1 /\ bad = "" /\ sent = <<>> /\ got = <<>> /\ asked = {} /\ replied = {} /\ dls = {}

IsSubseq(a, b) ==     \* a is a subsequence of b (both strictly increasing id sequences here)
    \A i \in 1..Len(a) : \E j \in 1..Len(b) : b[j] = a[i]

OnReset == Ev.e = "Reset" /\ sent' = <<>> /\ got' = <<>> /\ asked' = {} /\ replied' = {} /\ dls' = {} /\ UNCHANGED bad
OnSent == /\ Ev.e = "Sent"
          /\ LET k == <<Ev.src, Ev.dst>> IN sent' = Put(sent, k, Append(Get(sent, k, <<>>), Ev.m))
          /\ asked' = IF Ev.k = "ask" THEN asked \cup {Ev.m} ELSE asked
          /\ UNCHANGED <<bad, got, replied, dls>>
OnRecv == /\ Ev.e = "Recv"
          /\ LET k == <<Ev.src, Ev.dst>>
                 g == Get(got, k, <<>>)
                 s == Get(sent, k, <<>>)
             IN /\ got' = Put(got, k, Append(g, Ev.m))
                /\ bad' = IF Ev.v # 1 THEN Flag("Intact")
                          ELSE IF \E i \in 1..Len(g) : g[i] = Ev.m THEN Flag("ExactlyOnce")
                          ELSE IF ~(\E i \in 1..Len(s) : s[i] = Ev.m) THEN Flag("OnlyWhatWasSent")
                          ELSE IF Len(g) > 0 /\ g[Len(g)] > Ev.m THEN Flag("ReceivedIsSubsequence")
                          ELSE bad
          /\ UNCHANGED <<sent, asked, replied, dls>>
OnReplied == /\ Ev.e = "Replied"
             /\ replied' = replied \cup {Ev.m}
             /\ bad' = IF Ev.v # 1 THEN Flag("ReplyReachesOriginalSender") ELSE IF Ev.m \in replied THEN Flag("ExactlyOnce") ELSE bad
             /\ UNCHANGED <<sent, got, asked, dls>>
OnDLocal == /\ Ev.e = "DLocal"
            /\ dls' = dls \cup {Ev.m}
            /\ bad' = IF Ev.m \in dls THEN Flag("DeadLetterOnce") ELSE bad
            /\ UNCHANGED <<sent, got, asked, replied>>
OnEnd == /\ Ev.e = "End"
         /\ LET missing == {k \in DOMAIN sent : Get(got, k, <<>>) # sent[k]}
                \* under faults: every message is either received or reported as a dead letter on the sending side,
                \* unless the write had succeeded locally (the kernel accepted it) - those are listed in Ev.n = count of tolerated losses
                unacc == {k \in DOMAIN sent : \E i \in 1..Len(sent[k]) :
                            LET m == sent[k][i] IN ~(\E j \in 1..Len(Get(got, k, <<>>)) : got[k][j] = m) /\ m \notin dls}
            IN bad' = IF bad # "" THEN bad
                      ELSE IF Ev.k = "healthy" /\ missing # {} THEN "LaterFramesDelivered"
                      ELSE IF Ev.k = "healthy" /\ asked \ replied # {} THEN "ReplyReachesOriginalSender"
                      ELSE IF Ev.k = "faulty-strict" /\ unacc # {} THEN "UnsentIsDeadLettered"
                      ELSE ""
         /\ UNCHANGED <<sent, got, asked, replied, dls>>
\* Tell must not block the caller: m = longest Tell call (microseconds), n = latency of a local probe sent while the
\* remote delivery was being retried (microseconds)
OnLatency == /\ Ev.e = "TellLatency"
             /\ bad' = IF Ev.m > 50000 \/ Ev.n > 100000 THEN Flag("TellReturnsPromptly") ELSE bad
             /\ UNCHANGED <<sent, got, asked, replied, dls>>
(* Accept v: a connection whose handshake bytes are valid was accepted (1) or refused (0) by the receiving side *)
OnAccept == Ev.e = "Accept" /\ bad' = (IF Ev.v # 1 THEN Flag("ValidConnectionAccepted") ELSE bad) /\ UNCHANGED <<sent, got, asked, replied, dls>>
(* Attempts m n: the peer saw m connections although n = messages x (ReconnectLimit + 1) is all the sender may open *)
OnAttempts == Ev.e = "Attempts" /\ bad' = (IF Ev.m > Ev.n THEN Flag("ReconnectAttemptsBounded") ELSE bad) /\ UNCHANGED <<sent, got, asked, replied, dls>>
OnOther == Ev.e \notin {"Reset", "Sent", "Recv", "Replied", "DLocal", "End", "TellLatency", "Accept", "Attempts"} /\ UNCHANGED <<bad, sent, got, asked, replied, dls>>
Next == l <= Len(TLog) /\ l' = l + 1 /\ (OnLatency \/ OnReset \/ OnSent \/ OnRecv \/ OnReplied \/ OnDLocal \/ OnEnd \/ OnAccept \/ OnAttempts \/ OnOther)
Spec == Init /\ [][Next]_vars
Ok == bad = ""
Accepted == TLCGet("stats").diameter - 1 = Len(TLog)
=============================================================================
