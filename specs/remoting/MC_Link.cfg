SPECIFICATION Spec
CONSTANTS
  NMsgs = 4
  Limit = 1
  MaxFaults = 2
INVARIANTS Subsequence NotBoth Accounted
PROPERTY Finishes
CHECK_DEADLOCK FALSE
