SPECIFICATION Spec
CONSTANTS
  NMsgs = 3
  Limit = 2
  MaxFaults = 1
  FlakyPeer = TRUE
  ResetOnConnect = TRUE
INVARIANTS Subsequence NotBoth Accounted
PROPERTY Finishes
CHECK_DEADLOCK FALSE
