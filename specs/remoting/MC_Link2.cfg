SPECIFICATION Spec
CONSTANTS
  NMsgs = 5
  Limit = 2
  MaxFaults = 3
  FlakyPeer = FALSE
  ResetOnConnect = FALSE
INVARIANTS Subsequence NotBoth Accounted
PROPERTY Finishes
CHECK_DEADLOCK FALSE
