SPECIFICATION Spec
CONSTANTS
  NMsgs = 5
  Limit = 2
  MaxFaults = 3
INVARIANTS Subsequence NotBoth Accounted
PROPERTY Finishes
CHECK_DEADLOCK FALSE
