INIT Init
NEXT Next
CONSTANTS
  Sizes <- S5
  Cuts <- CutsBig
  PersistentReader = TRUE
  BreakAllowed = FALSE
INVARIANT Emit
CHECK_DEADLOCK FALSE
