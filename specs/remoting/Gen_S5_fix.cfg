INIT Init
NEXT Next
CONSTANTS
  Sizes <- S5
  Cuts <- CutsBig
  PersistentReader = TRUE
INVARIANT Emit
CHECK_DEADLOCK FALSE
