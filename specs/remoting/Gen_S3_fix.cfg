INIT Init
NEXT Next
CONSTANTS
  Sizes <- S3
  Cuts <- CutsSmall
  PersistentReader = TRUE
  BreakAllowed = FALSE
INVARIANT Emit
CHECK_DEADLOCK FALSE
