SPECIFICATION Spec
CONSTANTS
  Completers <- B_Completers
  TimerThreads <- Timers
  Pipers <- B_Pipers
  Waiters <- B_Waiters
  PipeWaitsForDone = FALSE
  RegisterChecksClosed = FALSE
INVARIANTS WaitersSeeValue ForwardedOnce ForwardedValue NoRegistrationLeft
PROPERTIES CompletesOnce Terminates
CHECK_DEADLOCK FALSE
