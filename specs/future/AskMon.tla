------------------------------- MODULE AskMon -------------------------------
(* C04 monitor over traces of one real Ask driven through the hook points.   *)
(*  Attempt c (a completer starts: reply sent / timer fired / asker killed), *)
(*  AttemptEnd c, Result w v (a waiter's Result returned v), PipeCall p,     *)
(*  PipeRet p, Fwd p v (forwarder p received a PipeResult carrying v),       *)
(*  TimerFired us n (elapsed microseconds, configured timeout n),            *)
(*  Final reg pend (registrations left, calls still blocked)                 *)
(* Values are the names of the completers ("r1","r2","timer","death") or     *)
(* "unset" for a result that carries neither message nor error.              *)
EXTENDS Integers, Sequences, FiniteSets, TLC, Json
VARIABLES l, bad, attempts, ended, seen, fwd, piped
TLog == ndJsonDeserialize("trace.ndjson")
Ev == TLog[l]
Get(f, k, d) == IF k \in DOMAIN f THEN f[k] ELSE d
Put(f, k, v) == [x \in DOMAIN f \cup {k} |-> IF x = k THEN v ELSE f[x]]
Flag(rule) == IF bad = "" THEN rule ELSE bad
vars == <<l, bad, attempts, ended, seen, fwd, piped>>
Init == l = 1 /\ bad = "" /\ attempts = {} /\ ended = {} /\ seen = {} /\ fwd = <<>> /\ piped = {}

\* a value observed by a waiter or a forwarder: it must be the one completion, and that completion must
\* be one that was attempted; a completer that had finished before every other one started must be it
Observe(v) ==
    /\ seen' = seen \cup {v}
    /\ bad' = IF v = "unset" THEN Flag("ValueIsFinalResult")
              ELSE IF v \notin attempts THEN Flag("OwnReplyOnly")
              ELSE IF seen \ {v} # {} THEN Flag("CompletesOnce")
              ELSE bad

OnReset == Ev.e = "Reset" /\ attempts' = {} /\ ended' = {} /\ seen' = {} /\ fwd' = <<>> /\ piped' = {} /\ UNCHANGED bad
OnAttempt == /\ Ev.e = "Attempt" /\ attempts' = attempts \cup {Ev.a}
             /\ UNCHANGED <<bad, ended, seen, fwd, piped>>
OnAttemptEnd == /\ Ev.e = "AttemptEnd" /\ ended' = ended \cup {Ev.a}
                /\ UNCHANGED <<bad, attempts, seen, fwd, piped>>
OnResult == /\ Ev.e = "Result" /\ Observe(Ev.s) /\ UNCHANGED <<attempts, ended, fwd, piped>>
OnPipeRet == /\ Ev.e = "PipeRet" /\ piped' = piped \cup {Ev.a} /\ UNCHANGED <<bad, attempts, ended, seen, fwd>>
OnFwd == /\ Ev.e = "Fwd"
         /\ fwd' = Put(fwd, Ev.a, Get(fwd, Ev.a, 0) + 1)
         /\ seen' = seen \cup {Ev.s}
         /\ bad' = IF Ev.a = "bystander" THEN Flag("OnlyNamedForwarders")   \* an actor nobody piped to
                   ELSE IF Get(fwd, Ev.a, 0) >= 1 THEN Flag("ForwardedExactlyOnce")
                   ELSE IF Ev.s = "unset" THEN Flag("ValueIsFinalResult")
                   ELSE IF Ev.s \notin attempts THEN Flag("OwnReplyOnly")
                   ELSE IF seen \ {Ev.s} # {} THEN Flag("CompletesOnce")
                   ELSE bad
         /\ UNCHANGED <<attempts, ended, piped>>
OnTimer == /\ Ev.e = "TimerFired"
           /\ bad' = IF Ev.v < Ev.n THEN Flag("TimeoutNotEarly") ELSE bad
           /\ UNCHANGED <<attempts, ended, seen, fwd, piped>>
OnFinal == /\ Ev.e = "Final"
           /\ bad' = IF bad # "" THEN bad
                     ELSE IF Ev.n = 0 THEN "NeverCompleted"       \* every Ask completes (at the latest by its time-out)
                     ELSE IF Ev.p # "" THEN "WaitersReleased"
                     ELSE IF \E p \in piped : Get(fwd, p, 0) # 1 THEN "ForwardedExactlyOnce"
                     ELSE IF Ev.v > 0 THEN "NoRegistrationAfterCompletion"
                     ELSE ""
           /\ UNCHANGED <<attempts, ended, seen, fwd, piped>>
OnOther == /\ Ev.e \notin {"Reset", "Attempt", "AttemptEnd", "Result", "PipeRet", "Fwd", "TimerFired", "Final"}
           /\ UNCHANGED <<bad, attempts, ended, seen, fwd, piped>>
Next == l <= Len(TLog) /\ l' = l + 1 /\ (OnReset \/ OnAttempt \/ OnAttemptEnd \/ OnResult \/ OnPipeRet \/ OnFwd \/ OnTimer \/ OnFinal \/ OnOther)
Spec == Init /\ [][Next]_vars
Ok == bad = ""
Accepted == TLCGet("stats").diameter - 1 = Len(TLog)
=============================================================================
