INIT GInit
NEXT GNext
CONSTANTS
  Completers <- A_Completers
  TimerThreads <- Timers
  Pipers <- A_Pipers
  Waiters <- A_Waiters
  PipeWaitsForDone = TRUE
  RegisterChecksClosed = TRUE
INVARIANT Emit
CHECK_DEADLOCK FALSE
