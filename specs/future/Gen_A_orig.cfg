INIT GInit
NEXT GNext
CONSTANTS
  Completers <- A_Completers
  TimerThreads <- Timers
  Pipers <- A_Pipers
  Waiters <- A_Waiters
  PipeWaitsForDone = FALSE
  RegisterChecksClosed = FALSE
INVARIANT Emit
CHECK_DEADLOCK FALSE
