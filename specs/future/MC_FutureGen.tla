---------------------------- MODULE MC_FutureGen ----------------------------
EXTENDS MC_Future
VARIABLE hist
GInit == Init /\ hist = <<>>
Step(t, act) == act /\ hist' = Append(hist, [t |-> t, pc |-> pc[t]])
GNext == \/ ("death" \in Completers /\ Step("death", DeathScan))
         \/ Step(Asker, AskNew) \/ Step(Asker, AskRegister) \/ Step(Asker, AskEnqueue)
         \/ \E c \in Completers : Step(c, CloseCas(c) \/ CloseSet(c) \/ CloseDone(c) \/ CloseCloser(c) \/ CloseFwd(c))
         \/ \E p \in Pipers : Step(p, PipeCheck(p) \/ PipeTell(p))
         \/ \E w \in Waiters : Step(w, ResultWait(w))
Emit == AllEnd => PrintT("BEHAV " \o ToJson(hist))
=============================================================================
