SPECIFICATION Spec
CONSTANTS
  Futs = {f1, f2, f3}
  WipeWhenLast = FALSE
  ScanAtKillOnly = FALSE
INVARIANTS TypeOK DeadAskerLeavesNoPendingAsk NoRegistrationAfterCompletion OpenFuturesAreRegistered
CHECK_DEADLOCK FALSE
