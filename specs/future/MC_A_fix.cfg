SPECIFICATION Spec
CONSTANTS
  Completers <- A_Completers
  TimerThreads <- Timers
  Pipers <- A_Pipers
  Waiters <- A_Waiters
  PipeWaitsForDone = TRUE
  RegisterChecksClosed = TRUE
INVARIANTS WaitersSeeValue ForwardedOnce ForwardedValue NoRegistrationLeft
PROPERTIES CompletesOnce Terminates
CHECK_DEADLOCK FALSE
