------------------------------ MODULE MC_Future ------------------------------
EXTENDS Future, Json
A_Completers == {"r1", "r2", "timer"}
A_Pipers == {"p1", "p2"}
A_Waiters == {"w1"}
B_Completers == {"r1", "timer", "death"}
B_Pipers == {"p1"}
B_Waiters == {"w1", "w2"}
C_Completers == {"r1", "timer", "death"}
C_Pipers == {"p1", "p2"}
C_Waiters == {"w1"}
Timers == {"timer"}
=============================================================================
