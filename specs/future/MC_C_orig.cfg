SPECIFICATION Spec
CONSTANTS
  Completers <- C_Completers
  TimerThreads <- Timers
  Pipers <- C_Pipers
  Waiters <- C_Waiters
  PipeWaitsForDone = FALSE
  RegisterChecksClosed = FALSE
INVARIANTS WaitersSeeValue ForwardedOnce ForwardedValue NoRegistrationLeft
PROPERTIES CompletesOnce Terminates
CHECK_DEADLOCK FALSE
