INIT GInit
NEXT GNext
CONSTANTS
  Completers <- B_Completers
  TimerThreads <- Timers
  Pipers <- B_Pipers
  Waiters <- B_Waiters
  PipeWaitsForDone = FALSE
  RegisterChecksClosed = FALSE
INVARIANT Emit
CHECK_DEADLOCK FALSE
