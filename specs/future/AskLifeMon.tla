----------------------------- MODULE AskLifeMon -----------------------------
(* C04 monitor over traces of one asker that makes several Asks and then     *)
(* ends (the observable side of Registry.tla).                               *)
(*  Ask m n        request m is about to be made with time-out n (us)        *)
(*  Done m s v a   waiter a of request m got result s after v us:            *)
(*                 "own" (the reply to m) | "foreign:.." | "timer" | "death" *)
(*                 | "err:.."                                                *)
(*  Trigger s      the harness starts ending the asker (route s)             *)
(*  AskerDead      the asker has handled its own OnKilled                    *)
(*  Pending m      1.5 s later request m still has no result (the longest time-out is 4 s)                *)
(*  Check v        registrations the system still holds at that moment       *)
EXTENDS Integers, Sequences, FiniteSets, TLC, Json
VARIABLES l, bad, asks, res, triggered, isDead, pending, reqs
TLog == ndJsonDeserialize("trace.ndjson")
Ev == TLog[l]
Get(f, k, d) == IF k \in DOMAIN f THEN f[k] ELSE d
Put(f, k, v) == [x \in DOMAIN f \cup {k} |-> IF x = k THEN v ELSE f[x]]
Flag(rule) == IF bad = "" THEN rule ELSE bad
vars == <<l, bad, asks, res, triggered, isDead, pending, reqs>>
Init == l = 1 /\ bad = "" /\ asks = <<>> /\ res = <<>> /\ triggered = FALSE /\ isDead = FALSE /\ pending = 0 /\ reqs = {}

OnReset == /\ Ev.e = "Reset" /\ asks' = <<>> /\ res' = <<>> /\ triggered' = FALSE /\ isDead' = FALSE /\ pending' = 0 /\ reqs' = {} /\ UNCHANGED bad
OnAsk == /\ Ev.e = "Ask" /\ asks' = Put(asks, Ev.m, Ev.n) /\ UNCHANGED <<bad, res, triggered, isDead, pending, reqs>>
IsForeign(s) == Len(s) >= 7 /\ SubSeq(s, 1, 7) = "foreign"
OnDone == /\ Ev.e = "Done"
          /\ res' = Put(res, Ev.m, Ev.s)
          /\ bad' = IF Ev.m \notin DOMAIN asks THEN Flag("ResultOfUnknownRequest")
                    ELSE IF Ev.m \in DOMAIN res /\ res[Ev.m] # Ev.s THEN Flag("CompletesOnce")
                    ELSE IF IsForeign(Ev.s) THEN Flag("OwnReplyOnly")
                    ELSE IF Ev.s = "timer" /\ Ev.v < asks[Ev.m] THEN Flag("TimeoutNotEarly")
                    ELSE IF Ev.s = "death" /\ ~triggered THEN Flag("DeathOnlyWhenTheAskerEnds")
                    ELSE IF Ev.s \notin {"own", "timer", "death"} THEN Flag("ReplyTimeoutOrDeath")
                    ELSE bad
          /\ UNCHANGED <<asks, triggered, isDead, pending, reqs>>
OnTrigger == /\ Ev.e = "Trigger" /\ triggered' = TRUE /\ UNCHANGED <<bad, asks, res, isDead, pending, reqs>>
OnDead == /\ Ev.e = "AskerDead" /\ isDead' = TRUE /\ UNCHANGED <<bad, asks, res, triggered, pending, reqs>>
OnPending == /\ Ev.e = "Pending" /\ pending' = pending + 1
             /\ bad' = IF isDead THEN Flag("CompletesWhenTheAskerTerminates") ELSE bad
             /\ UNCHANGED <<asks, res, triggered, isDead, reqs>>
\* Req m: the request of Ask m reached the (always running) target.  Every Ask sends its request, whatever state the asker
\* is in when it asks: completing the Ask with a verdict of its own instead is not one of the three outcomes
OnReq == /\ Ev.e = "Req" /\ reqs' = reqs \cup {Ev.m} /\ UNCHANGED <<bad, asks, res, triggered, isDead, pending>>
OnCheck == /\ Ev.e = "Check"
           /\ bad' = IF Ev.v > pending THEN Flag("NoRegistrationAfterCompletion")
                     ELSE IF DOMAIN asks \ reqs # {} THEN Flag("EveryAskSendsItsRequest")
                     ELSE bad
           /\ UNCHANGED <<asks, res, triggered, isDead, pending, reqs>>
OnOther == /\ Ev.e \notin {"Reset", "Ask", "Done", "Trigger", "AskerDead", "Pending", "Check", "Req"}
           /\ UNCHANGED <<bad, asks, res, triggered, isDead, pending, reqs>>
Next == l <= Len(TLog) /\ l' = l + 1 /\ (OnReset \/ OnAsk \/ OnDone \/ OnTrigger \/ OnDead \/ OnPending \/ OnCheck \/ OnReq \/ OnOther)
Spec == Init /\ [][Next]_vars
Ok == bad = ""
Accepted == TLCGet("stats").diameter - 1 = Len(TLog)
=============================================================================
