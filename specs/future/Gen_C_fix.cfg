INIT GInit
NEXT GNext
CONSTANTS
  Completers <- C_Completers
  TimerThreads <- Timers
  Pipers <- C_Pipers
  Waiters <- C_Waiters
  PipeWaitsForDone = TRUE
  RegisterChecksClosed = TRUE
INVARIANT Emit
CHECK_DEADLOCK FALSE
