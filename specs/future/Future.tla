------------------------------- MODULE Future -------------------------------
(***************************************************************************)
(* One Ask: internal/future/future.go (close, PipeTo, Result) and the      *)
(* registration in Context.ask / System.appendFuture / removeFuture, at    *)
(* the granularity of the hook points `verifhook.At("fut....")` /          *)
(* ("ctx.ask....").                                                        *)
(*                                                                         *)
(* Threads: the asker (creates the future = arms the timer, registers it,  *)
(* enqueues the request), completers (repliers, the timer, the asker's     *)
(* death, an explicit Close) each running close(v), pipers (PipeTo with    *)
(* one forwarder each) and waiters (Result).                               *)
(*                                                                         *)
(* PipeWaitsForDone = FALSE is the original PipeTo, which forwards         *)
(* f.message / f.err as soon as the closed flag is set - possibly before   *)
(* the completing thread has written them.  TRUE is the repaired one (it   *)
(* waits for done before reading).                                         *)
(* RegisterChecksClosed = FALSE is the original ask(), which registers the *)
(* future after the timer has been armed: a timer that fires first removes *)
(* nothing and the late registration stays for ever.  TRUE: ask()          *)
(* deregisters again if the future is already completed.                   *)
(***************************************************************************)
EXTENDS Integers, Sequences, FiniteSets, TLC

CONSTANTS Completers,      \* threads that call close(v): each has a fixed value (its own name)
          TimerThreads,    \* completers that need nothing but the created future: the timer; "death" scans the registry first;
                           \* all others (repliers) and the pipers/waiters can act only once Ask has returned
          Pipers, Waiters,
          PipeWaitsForDone, RegisterChecksClosed

Asker == "asker"
Threads == {Asker} \cup Completers \cup Pipers \cup Waiters
Unset == "unset"

VARIABLES pc, closed, value, done, registered, created, fwds, got, results, removedOnce
vars == <<pc, closed, value, done, registered, created, fwds, got, results, removedOnce>>

Init ==
    /\ pc = [t \in Threads |-> CASE t = Asker -> "ask.new"
                                 [] t = "death" -> "death.scan"
                                 [] t \in Completers -> "close.cas"
                                 [] t \in Pipers -> "pipe.check"
                                 [] OTHER -> "result.wait"]
    /\ closed = FALSE /\ value = Unset /\ done = FALSE /\ registered = FALSE /\ created = FALSE
    /\ fwds = {} /\ got = [p \in Pipers |-> <<>>] /\ results = [w \in Waiters |-> Unset] /\ removedOnce = FALSE

Go(t, to) == pc' = [pc EXCEPT ![t] = to]

(* Context.ask *)
AskNew == /\ pc[Asker] = "ask.new" /\ created' = TRUE /\ Go(Asker, "ask.register")
          /\ UNCHANGED <<closed, value, done, registered, fwds, got, results, removedOnce>>
AskRegister ==
    /\ pc[Asker] = "ask.register"
    /\ registered' = IF RegisterChecksClosed /\ closed THEN FALSE ELSE TRUE
    /\ Go(Asker, "ask.enqueue")
    /\ UNCHANGED <<closed, value, done, created, fwds, got, results, removedOnce>>
AskEnqueue == /\ pc[Asker] = "ask.enqueue" /\ Go(Asker, "end")
              /\ UNCHANGED <<closed, value, done, registered, created, fwds, got, results, removedOnce>>

(* close(v) by completer c; its value is its own name *)
Returned == pc[Asker] = "end"
\* the asking actor is killed: removeFuturesByAgentPath closes the futures registered for it at that moment
DeathScan ==
    /\ pc["death"] = "death.scan" /\ created
    /\ Go("death", IF registered THEN "close.cas" ELSE "end")
    /\ UNCHANGED <<closed, value, done, registered, created, fwds, got, results, removedOnce>>
CloseCas(c) ==
    /\ pc[c] = "close.cas" /\ created /\ (c \in TimerThreads \/ c = "death" \/ Returned)
    /\ IF closed THEN Go(c, "end") /\ UNCHANGED closed
       ELSE closed' = TRUE /\ Go(c, "close.set")
    /\ UNCHANGED <<value, done, registered, created, fwds, got, results, removedOnce>>
CloseSet(c) == /\ pc[c] = "close.set" /\ value' = c /\ Go(c, "close.done")
               /\ UNCHANGED <<closed, done, registered, created, fwds, got, results, removedOnce>>
CloseDone(c) == /\ pc[c] = "close.done" /\ done' = TRUE /\ Go(c, "close.closer")
                /\ UNCHANGED <<closed, value, registered, created, fwds, got, results, removedOnce>>
CloseCloser(c) == /\ pc[c] = "close.closer" /\ registered' = FALSE /\ removedOnce' = TRUE /\ Go(c, "close.fwd")
                  /\ UNCHANGED <<closed, value, done, created, fwds, got, results>>
\* under f.mu: take the registered forwarders and tell them the result
CloseFwd(c) ==
    /\ pc[c] = "close.fwd"
    /\ got' = [p \in Pipers |-> IF p \in fwds THEN Append(got[p], value) ELSE got[p]]
    /\ fwds' = {}
    /\ Go(c, "end")
    /\ UNCHANGED <<closed, value, done, registered, created, results, removedOnce>>

(* PipeTo by piper p (one forwarder, named like the piper) *)
PipeCheck(p) ==
    /\ pc[p] = "pipe.check" /\ Returned
    /\ IF closed THEN Go(p, "pipe.tell") /\ UNCHANGED fwds
       ELSE fwds' = fwds \cup {p} /\ Go(p, "end")
    /\ UNCHANGED <<closed, value, done, registered, created, got, results, removedOnce>>
PipeTell(p) ==
    /\ pc[p] = "pipe.tell"
    /\ (PipeWaitsForDone => done)
    /\ got' = [got EXCEPT ![p] = Append(@, value)]
    /\ Go(p, "end")
    /\ UNCHANGED <<closed, value, done, registered, created, fwds, results, removedOnce>>

(* Result by waiter w *)
ResultWait(w) ==
    /\ pc[w] = "result.wait" /\ Returned /\ done
    /\ results' = [results EXCEPT ![w] = value]
    /\ Go(w, "end")
    /\ UNCHANGED <<closed, value, done, registered, created, fwds, got, removedOnce>>

Next == \/ AskNew \/ AskRegister \/ AskEnqueue
        \/ ("death" \in Completers /\ DeathScan)
        \/ \E c \in Completers : CloseCas(c) \/ CloseSet(c) \/ CloseDone(c) \/ CloseCloser(c) \/ CloseFwd(c)
        \/ \E p \in Pipers : PipeCheck(p) \/ PipeTell(p)
        \/ \E w \in Waiters : ResultWait(w)
Spec == Init /\ [][Next]_vars /\ WF_vars(Next)

AllEnd == \A t \in Threads : pc[t] = "end"
\* completes exactly once: only the winner of the CAS ever writes the value (action property)
CompletesOnce == [][value # Unset => value' = value]_vars
\* every waiter sees the completion's value
WaitersSeeValue == \A w \in Waiters : results[w] # Unset => results[w] = value
\* every forwarder receives the final result exactly once (never a half-written one)
ForwardedOnce == \A p \in Pipers : Len(got[p]) <= 1 /\ (AllEnd => Len(got[p]) = 1)
ForwardedValue == \A p \in Pipers : \A i \in 1..Len(got[p]) : got[p][i] = value /\ got[p][i] # Unset
\* once completed and at rest the system holds no registration
NoRegistrationLeft == AllEnd => ~registered
\* everybody finishes: Result/Wait never block beyond the completion
Terminates == <>AllEnd
=============================================================================
