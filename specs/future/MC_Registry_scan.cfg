SPECIFICATION Spec
CONSTANTS
  Futs = {f1, f2, f3}
  WipeWhenLast = FALSE
  ScanAtKillOnly = TRUE
INVARIANTS TypeOK DeadAskerLeavesNoPendingAsk NoRegistrationAfterCompletion OpenFuturesAreRegistered
CHECK_DEADLOCK FALSE
