------------------------------ MODULE Registry ------------------------------
(***************************************************************************)
(* The registry of outstanding Asks of ONE asker (System.futureAgents) and *)
(* the ways its entries come and go:                                       *)
(*                                                                         *)
(*   Context.ask      Create(f)  - the future exists, its timer is armed   *)
(*                    Register(f) - appendFuture                           *)
(*                    Compensate(f) - "if Closed() then removeFuture"      *)
(*   Future.Close     Close(f, by) by timer / reply / the death scan; the  *)
(*                    closer callback calls removeFuture(f) - also for a   *)
(*                    future that is not registered (yet)                  *)
(*   Context.doKill   ScanBegin (snapshot of the entry, in the asker's own *)
(*                    turn) ; ScanClose(f) for every f of the snapshot     *)
(*                                                                         *)
(* Ask and the death scan run in the asker's turn and exclude one another; *)
(* timers and replies run on their own goroutines and interleave with      *)
(* every step.  WipeWhenLast = TRUE is the variant "removeFuture drops the *)
(* whole entry when it holds at most one future" (a seeded change): TLC    *)
(* shows that it loses a live registration.  ScanAtKillOnly = TRUE moves   *)
(* the scan from doKill to onKill: a restart that is turned into a         *)
(* termination (a kill absorbed while the restart waits for the children)  *)
(* then ends the asker without any scan.                                   *)
(***************************************************************************)
EXTENDS Integers, FiniteSets, TLC
CONSTANTS Futs, WipeWhenLast, ScanAtKillOnly
VARIABLES pc,      \* f -> "new" | "created" | "registered" | "done"    progress of the Ask call that makes f
          reg,     \* the asker's entry: set of registered futures
          closed,  \* completed futures
          turn,    \* "idle" | "ask" | "scan"   what the asker's own turn is doing
          cur,     \* the future whose Ask call is in progress (turn = "ask")
          asker,   \* "running" | "restarting" | "stopping" | "dead"
          snap     \* futures the scan still has to close
vars == <<pc, reg, closed, turn, cur, asker, snap>>
None == "none"

Init == /\ pc = [f \in Futs |-> "new"] /\ reg = {} /\ closed = {} /\ turn = "idle" /\ cur = None
        /\ asker = "running" /\ snap = {}

Remove(r, f) == IF WipeWhenLast /\ Cardinality(r) <= 1 THEN {} ELSE r \ {f}

Create(f) == /\ asker = "running" /\ turn = "idle" /\ pc[f] = "new"
             /\ pc' = [pc EXCEPT ![f] = "created"] /\ turn' = "ask" /\ cur' = f
             /\ UNCHANGED <<reg, closed, asker, snap>>
Register(f) == /\ turn = "ask" /\ cur = f /\ pc[f] = "created"
               /\ pc' = [pc EXCEPT ![f] = "registered"] /\ reg' = reg \cup {f}
               /\ UNCHANGED <<closed, turn, cur, asker, snap>>
Compensate(f) == /\ turn = "ask" /\ cur = f /\ pc[f] = "registered"
                 /\ pc' = [pc EXCEPT ![f] = "done"] /\ turn' = "idle" /\ cur' = None
                 /\ reg' = IF f \in closed THEN Remove(reg, f) ELSE reg
                 /\ UNCHANGED <<closed, asker, snap>>
(* timer or reply: any time after the future exists (a reply needs the request to have been sent, i.e. pc = done) *)
Close(f, by) == /\ f \notin closed /\ pc[f] # "new" /\ (by = "reply" => pc[f] = "done")
                /\ closed' = closed \cup {f} /\ reg' = Remove(reg, f)
                /\ UNCHANGED <<pc, turn, cur, asker, snap>>

(* the asker's own end: Kill takes the scan; Fail+Restart takes the scan unless ScanAtKillOnly; a kill that arrives *)
(* while the restart waits for the children turns the restart into a termination without passing onKill again     *)
Kill == /\ asker = "running" /\ turn = "idle"
        /\ asker' = "stopping" /\ turn' = "scan" /\ snap' = reg
        /\ UNCHANGED <<pc, reg, closed, cur>>
Restart == /\ asker = "running" /\ turn = "idle"
           /\ asker' = "restarting"
           /\ IF ScanAtKillOnly THEN UNCHANGED <<turn, snap>> ELSE turn' = "scan" /\ snap' = reg
           /\ UNCHANGED <<pc, reg, closed, cur>>
ScanClose(f) == /\ turn = "scan" /\ f \in snap
                /\ snap' = snap \ {f}
                /\ IF f \in closed THEN UNCHANGED <<closed, reg>> ELSE closed' = closed \cup {f} /\ reg' = Remove(reg, f)
                /\ UNCHANGED <<pc, turn, cur, asker>>
ScanEnd == /\ turn = "scan" /\ snap = {} /\ turn' = "idle"
           /\ UNCHANGED <<pc, reg, closed, cur, asker, snap>>
Restarted == /\ asker = "restarting" /\ turn = "idle" /\ asker' = "running"
             /\ UNCHANGED <<pc, reg, closed, turn, cur, snap>>
KillAbsorbed == /\ asker = "restarting" /\ turn = "idle" /\ asker' = "stopping"
                /\ UNCHANGED <<pc, reg, closed, turn, cur, snap>>
Dead == /\ asker = "stopping" /\ turn = "idle" /\ asker' = "dead"
        /\ UNCHANGED <<pc, reg, closed, turn, cur, snap>>

Next == \/ \E f \in Futs : Create(f) \/ Register(f) \/ Compensate(f) \/ ScanClose(f) \/ \E by \in {"timer", "reply"} : Close(f, by)
        \/ Kill \/ Restart \/ ScanEnd \/ Restarted \/ KillAbsorbed \/ Dead
Spec == Init /\ [][Next]_vars

TypeOK == /\ reg \subseteq Futs /\ closed \subseteq Futs /\ snap \subseteq Futs
          /\ turn \in {"idle", "ask", "scan"} /\ asker \in {"running", "restarting", "stopping", "dead"}
(* C04: once the asker has terminated every Ask it made is complete (nobody waits for a time-out that may be far away) *)
DeadAskerLeavesNoPendingAsk == asker = "dead" => \A f \in Futs : pc[f] # "new" => f \in closed
(* C04: a completed future is not registered any more (once its Ask call has returned) *)
NoRegistrationAfterCompletion == \A f \in closed : pc[f] = "done" => f \notin reg
(* the mechanism behind both: an open future whose Ask call has returned is registered *)
OpenFuturesAreRegistered == \A f \in Futs : (pc[f] = "done" /\ f \notin closed) => f \in reg
=============================================================================
