SPECIFICATION Spec
CONSTANTS
  Completers <- B_Completers
  TimerThreads <- Timers
  Pipers <- B_Pipers
  Waiters <- B_Waiters
  PipeWaitsForDone = TRUE
  RegisterChecksClosed = TRUE
INVARIANTS WaitersSeeValue ForwardedOnce ForwardedValue NoRegistrationLeft
PROPERTIES CompletesOnce Terminates
CHECK_DEADLOCK FALSE
