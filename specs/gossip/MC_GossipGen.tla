---------------------------- MODULE MC_GossipGen ----------------------------
(* behaviour generation for C18: Gossip's actions, a history of (action, projected state) pairs *)
EXTENDS Gossip, Json
VARIABLE hist
N3 == {"n1", "n2", "n3"}
N4 == {"n1", "n2", "n3", "n4"}
N5 == {"n1", "n2", "n3", "n4", "n5"}
S1 == {"n1"}
S12 == {"n1", "n2"}
Rank(n) == CASE n = "n1" -> 1 [] n = "n2" -> 2 [] n = "n3" -> 3 [] n = "n4" -> 4 [] n = "n5" -> 5 [] OTHER -> 9

Proj == [n \in Nodes |-> [run |-> proc'[n].run,
                          mem |-> [i \in Members(view'[n]) |-> <<view'[n].mem[i].gen, view'[n].mem[i].lc, view'[n].mem[i].st>>],
                          vv |-> [i \in {j \in Ids : view'[n].vv[j] > 0} |-> view'[n].vv[i]],
                          leader |-> leader'[n]]]
Rec(a) == [a |-> a, s |-> Proj]
GenInit == Init /\ hist = <<>>
Quiet == stopped /\ ~InFlight /\ Pending = {} /\ \A n \in UpNodes : ~WouldSend(n)
GenNext ==
    /\ ~Quiet
    /\ \/ \E n \in Nodes : \/ Launch(n) /\ hist' = Append(hist, Rec(<<"launch", n>>))
                           \/ GossipTick(n) /\ hist' = Append(hist, Rec(<<"tick", n>>))
                           \/ Crash(n) /\ hist' = Append(hist, Rec(<<"crash", n>>))
                           \/ Leave(n) /\ hist' = Append(hist, Rec(<<"leave", n>>))
       \/ \E n \in Nodes, s \in Seeds : Join(n, s) /\ hist' = Append(hist, Rec(<<"join", n, s>>))
       \/ \E p \in Pairs : \/ Deliver(p) /\ hist' = Append(hist, Rec(<<"deliver", p[1], p[2]>>))
                           \/ Lose(p) /\ hist' = Append(hist, Rec(<<"lose", p[1], p[2]>>))
       \/ \E a, b \in Nodes : Rank(a) < Rank(b) /\ Cut(a, b) /\ hist' = Append(hist, Rec(<<"cut", a, b>>))
       \/ (Stop /\ \A n \in Nodes : proc[n].starts >= 1) /\ hist' = Append(hist, Rec(<<"stop">>))
Emit == Quiet => PrintT("BEHAV " \o ToJson([nodes |-> Nodes, seeds |-> Seeds, steps |-> hist]))
=============================================================================
