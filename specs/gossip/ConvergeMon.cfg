SPECIFICATION Spec
CONSTANT Skip = {}
INVARIANT Ok
POSTCONDITION Accepted
CHECK_DEADLOCK FALSE
