----------------------------- MODULE MC_Gossip ------------------------------
EXTENDS Gossip
N3 == {"n1", "n2", "n3"}
N2 == {"n1", "n2"}
S1 == {"n1"}
S12 == {"n1", "n2"}
S0 == {}
(* bound for the failure-detection family: every removal and re-adoption bumps a version vector *)
VVBound == \A n \in Nodes : \A i \in Ids : view[n].vv[i] <= 4
Rank(n) == CASE n = "n1" -> 1 [] n = "n2" -> 2 [] n = "n3" -> 3 [] n = "n4" -> 4 [] OTHER -> 9
=============================================================================
