INIT GenInit
NEXT GenNext
CONSTANTS
  Nodes <- N3
  Seeds <- S1
  MaxStarts = 4
  MaxFaults = 2
  StableIds = TRUE
  FD = FALSE
  MaxAge = 2
  QuietTicks = FALSE
  JoinShortcut = FALSE
  BumpAdvancesVersion = TRUE
  NodeRank <- Rank
INVARIANT Emit
CHECK_DEADLOCK FALSE
