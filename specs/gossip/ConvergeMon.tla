----------------------------- MODULE ConvergeMon -----------------------------
(* C18 monitor over traces of the cluster simulator (real NodeActor objects). *)
(*                                                                            *)
(*  Launch n s(run state after OnLaunch) k(start number) | Join n x(seed) s   *)
(*  Crash n | Leave n | Dropped n x | FaultsStopped                           *)
(*  Leader n x(leader) v(IAmLeader)      ClusterLeaderChangedEvent            *)
(*  MembersChanged n k                   ClusterMembersChangedEvent           *)
(*  Quiet p(phase): "final" v(1 = three consecutive rounds of all deliveries  *)
(*       and all timers changed nothing) k(rounds needed); "after" k(number   *)
(*       of the five further rounds that changed something)                   *)
(*  Node n s(run) p(phase) m(member addresses, sorted sequence)               *)
(*       i(sequence of "id=gen/lc/status") o(own "id=gen/lc/status")          *)
(*       x(leader computed from the view) l(last announced leader)            *)
(*       v(last announced IAmLeader) k(#ids) d(#addresses)                    *)
(*  Check    evaluate the convergence rules on the phase "final" probes       *)
(*  Reset                                                                     *)
EXTENDS Integers, Sequences, FiniteSets, TLC, Json
CONSTANT Skip   \* rules not evaluated in this pass (second pass over classes with a recorded finding)
VARIABLES l, bad, nodes, quiet, afterStable, crashed, left
TLog == ndJsonDeserialize("trace.ndjson")
Ev == TLog[l]
vars == <<l, bad, nodes, quiet, afterStable, crashed, left>>
Put(f, k, v) == [x \in DOMAIN f \cup {k} |-> IF x = k THEN v ELSE f[x]]
Flag(rule) == IF bad = "" THEN rule ELSE bad
Range(s) == {s[i] : i \in 1..Len(s)}
Init == l = 1 /\ bad = "" /\ nodes = <<>> /\ quiet = -1 /\ afterStable = FALSE /\ crashed = {} /\ left = {}

OnNode == /\ Ev.e = "Node" /\ Ev.p = "final"
          /\ nodes' = Put(nodes, Ev.n, Ev)
          /\ UNCHANGED <<bad, quiet, afterStable, crashed, left>>
OnQuiet == /\ Ev.e = "Quiet"
           /\ IF Ev.p = "final" THEN quiet' = Ev.v /\ afterStable' = (Ev.v = 1) /\ UNCHANGED bad
              ELSE /\ bad' = IF afterStable /\ (Ev.v # 1 \/ Ev.k # 0) THEN Flag("ViewsUnchangedAfterConvergence") ELSE bad
                   /\ UNCHANGED <<quiet, afterStable>>
           /\ UNCHANGED <<nodes, crashed, left>>
OnAnnounce == /\ Ev.e \in {"Leader", "MembersChanged"}
              /\ bad' = IF afterStable THEN Flag("NoAnnouncementAfterConvergence") ELSE bad
              /\ UNCHANGED <<nodes, quiet, afterStable, crashed, left>>
OnCrash == /\ Ev.e = "Crash" /\ crashed' = crashed \cup {Ev.n} /\ UNCHANGED <<bad, nodes, quiet, afterStable, left>>
OnLeave == /\ Ev.e = "Leave" /\ left' = left \cup {Ev.n} /\ UNCHANGED <<bad, nodes, quiet, afterStable, crashed>>
OnLaunch == /\ Ev.e = "Launch" /\ crashed' = crashed \ {Ev.n} /\ left' = left \ {Ev.n} /\ UNCHANGED <<bad, nodes, quiet, afterStable>>

Up == {n \in DOMAIN nodes : nodes[n].s = "up"}
Gone(S) == {n \in DOMAIN nodes : nodes[n].s # "up" /\ n \in S}
Rules == <<
    <<"EventuallyStable", quiet # 1>>,
    <<"SameMembers", \E a, b \in Up : nodes[a].m # nodes[b].m>>,
    <<"SameLeader", \E a, b \in Up : nodes[a].x # nodes[b].x>>,
    <<"LeaderAnnounced", \E a \in Up : nodes[a].l # nodes[a].x>>,
    <<"ExactlyOneLeader", Up # {} /\ Cardinality({a \in Up : nodes[a].v = 1}) # 1>>,
    <<"JoinedNodeKnownToAll", \E a \in Up : Up \ Range(nodes[a].m) # {}>>,
    <<"NewestIncarnationEverywhere", \E a, b \in Up : nodes[b].o \notin Range(nodes[a].i)>>,
    <<"NoShadowIncarnation", \E a \in Up : nodes[a].k # nodes[a].d>>,
    <<"CrashedNodeAbsent", \E a \in Up : Range(nodes[a].m) \cap Gone(crashed) # {}>>,
    <<"LeftNodeAbsent", \E a \in Up : Range(nodes[a].m) \cap Gone(left) # {}>>,
    <<"OnlyRunningNodes", \E a \in Up : Range(nodes[a].m) \ (Up \cup Gone(crashed) \cup Gone(left)) # {}>> >>
Broken == {i \in 1..Len(Rules) : Rules[i][1] \notin Skip /\ Rules[i][2]}
Verdict == IF Broken = {} THEN "" ELSE Rules[CHOOSE i \in Broken : \A j \in Broken : i <= j][1]
OnCheck == /\ Ev.e = "Check"
           /\ bad' = IF Verdict # "" THEN Flag(Verdict) ELSE bad
           /\ UNCHANGED <<nodes, quiet, afterStable, crashed, left>>
OnReset == /\ Ev.e = "Reset" /\ nodes' = <<>> /\ quiet' = -1 /\ afterStable' = FALSE /\ crashed' = {} /\ left' = {} /\ UNCHANGED bad
Other == /\ ~(Ev.e \in {"Quiet", "Leader", "MembersChanged", "Crash", "Leave", "Launch", "Check", "Reset"} \/ (Ev.e = "Node" /\ Ev.p = "final"))
         /\ UNCHANGED <<bad, nodes, quiet, afterStable, crashed, left>>
Next == l <= Len(TLog) /\ l' = l + 1 /\ (OnNode \/ OnQuiet \/ OnAnnounce \/ OnCrash \/ OnLeave \/ OnLaunch \/ OnCheck \/ OnReset \/ Other)
Spec == Init /\ [][Next]_vars
Ok == bad = ""
Accepted == TLCGet("stats").diameter - 1 = Len(TLog)
=============================================================================
