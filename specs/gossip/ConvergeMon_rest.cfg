SPECIFICATION Spec
CONSTANT Skip = {"CrashedNodeAbsent", "LeftNodeAbsent", "NoShadowIncarnation"}
INVARIANT Ok
POSTCONDITION Accepted
CHECK_DEADLOCK FALSE
