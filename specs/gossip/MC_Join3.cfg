SPECIFICATION Spec
CONSTANTS
  Nodes <- N3
  Seeds <- S1
  MaxStarts = 3
  MaxFaults = 0
  StableIds = TRUE
  FD = FALSE
  MaxAge = 2
  QuietTicks = TRUE
  JoinShortcut = FALSE
  BumpAdvancesVersion = TRUE
  NodeRank <- Rank
INVARIANTS ConvergedMembers ConvergedIncarnations ConvergedExact
PROPERTY EventuallyAgreed
CHECK_DEADLOCK FALSE
