SPECIFICATION Spec
CONSTANTS
  Nodes <- N2
  Seeds <- S1
  MaxStarts = 5
  MaxFaults = 3
  StableIds = TRUE
  FD = FALSE
  MaxAge = 2
  QuietTicks = TRUE
  JoinShortcut = FALSE
  BumpAdvancesVersion = TRUE
  NodeRank <- Rank
INVARIANTS ConvergedMembers ConvergedIncarnations
CHECK_DEADLOCK FALSE
