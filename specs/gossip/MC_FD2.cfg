SPECIFICATION Spec
CONSTANTS
  Nodes <- N2
  Seeds <- S1
  MaxStarts = 2
  MaxFaults = 0
  StableIds = TRUE
  FD = TRUE
  MaxAge = 2
  QuietTicks = TRUE
  JoinShortcut = FALSE
  BumpAdvancesVersion = TRUE
  NodeRank <- Rank
CONSTRAINT VVBound
PROPERTIES NoLiveMemberRemoved EventuallyAgreed
CHECK_DEADLOCK FALSE
