SPECIFICATION Spec
CONSTANTS
  Nodes <- N3
  Seeds <- S1
  MaxStarts = 4
  MaxFaults = 1
  StableIds = TRUE
  FD = FALSE
  MaxAge = 2
  QuietTicks = TRUE
  JoinShortcut = TRUE
  BumpAdvancesVersion = TRUE
  NodeRank <- Rank
INVARIANTS ConvergedMembers ConvergedIncarnations
CHECK_DEADLOCK FALSE
