------------------------------- MODULE Gossip -------------------------------
(* Gossip-based cluster membership (C18), shaped like internal/cluster/       *)
(* node_actor.go: one action per message handled by NodeActor.OnReceive.      *)
(*                                                                            *)
(*  Launch(n)        OnLaunch: bootstrap (no seeds / self in seeds) or join   *)
(*  Join(n, s)       tryJoinSeeds: Ask to seed s = an atomic exchange:        *)
(*                   handleJoinRequest at s (add member, bump own version,    *)
(*                   reply a snapshot, broadcast), then the joiner adds       *)
(*                   itself, bumps, merges, raises its generation, broadcasts *)
(*  JoinFails(n)     every seed is down / unreachable: retry timer            *)
(*  Deliver(m)       handleGossip: remember the sender's version vector,      *)
(*                   merge, broadcast when the merge changed something        *)
(*  GossipTick(n)    runGossipRound                                           *)
(*  Crash / Restart / Leave / Cut / Heal / Lose: the environment              *)
(*                                                                            *)
(* Every send passes shouldSendGossipTo: nothing is sent to a peer whose      *)
(* last received version vector is equal to or after ours.                    *)
(* Failure detection is a separate family (FD): members whose LastSeen age    *)
(* exceeds the time-out are removed; LastSeen is refreshed only by gossip     *)
(* received from that member.                                                 *)
EXTENDS Integers, FiniteSets, Sequences, TLC

CONSTANTS Nodes,         \* node names; the address order is the string order
          Seeds,         \* configured seed nodes (the same list on every node)
          MaxStarts,     \* bound on process starts in total
          MaxFaults,     \* bound on Crash + Leave + Cut + Lose steps
          StableIds,     \* TRUE: NodeID is configured (same id after a restart); FALSE: a fresh id per process
          FD,            \* TRUE: failure detection on (ages), FALSE: off
          MaxAge,        \* FD: age at which a member is removed
          BumpAdvancesVersion, \* TRUE: a re-joining node increments its version-vector entry again after raising its generation
          QuietTicks,    \* TRUE: timers fire only when nothing is in flight (timers are slow compared with delivery)
          JoinShortcut   \* TRUE: the variant "a joining node that sees itself listed as up in a gossip is done" (a seeded change)

None == [gen |-> 0, lc |-> 0, st |-> "none", ts |-> 0, at |-> "none"]

(* identities: with StableIds a process of node n has id n; otherwise id <<n, k>> for its k-th start.  *)
(* A view maps ids to member records; "at" is the member's address (the node name).                     *)
VARIABLES proc,      \* node -> [run : "down"|"joining"|"up"|"left", id, self : own NodeState record, starts]
          view,      \* node -> [mem : id -> record, vv : id -> Nat, ts : creation rank]   (ids as a finite function)
          lastVV,    \* node -> (address -> version vector last received from it)
          age,       \* node -> (id -> ticks since gossip was last received from that member)   (FD only)
          leader,    \* node -> last published leader address ("" none yet)
          net,       \* <<src, dst>> -> sequence of views in flight (one TCP connection per pair: FIFO)
          cut,       \* set of unordered pairs {a, b} that cannot talk
          clock,     \* process start counter (ranks timestamps)
          faults,    \* fault steps so far
          stopped    \* TRUE once faults have stopped for good

vars == <<proc, view, lastVV, age, leader, net, cut, clock, faults, stopped>>

Ids == IF StableIds THEN Nodes ELSE Nodes \X (1..MaxStarts)
IdOf(n, k) == IF StableIds THEN n ELSE <<n, k>>

EmptyVV == [i \in Ids |-> 0]
Unknown == [i \in Ids |-> -1]     \* "no version vector received from that address yet": below every vector
EmptyView(t) == [mem |-> [i \in Ids |-> None], vv |-> EmptyVV, ts |-> t]
Members(v) == {i \in Ids : v.mem[i] # None}
Addrs(v) == {v.mem[i].at : i \in Members(v)}
UpAddrs(v) == {v.mem[i].at : i \in {j \in Members(v) : v.mem[j].st = "up"}}

(* NodeState.IsNewerThan *)
IsNewer(n, o) == IF o = None THEN TRUE
                 ELSE IF n.gen # o.gen THEN n.gen > o.gen
                 ELSE IF n.lc # o.lc THEN n.lc > o.lc
                 ELSE n.ts > o.ts

Prune(v) == [v EXCEPT !.vv = [i \in Ids |-> IF v.mem[i] # None THEN v.vv[i] ELSE 0]]
AddMember(v, i, rec) == IF v.mem[i] = None \/ IsNewer(rec, v.mem[i]) THEN Prune([v EXCEPT !.mem[i] = rec]) ELSE v
Inc(v, i) == [v EXCEPT !.vv[i] = @ + 1]
Remove(v, i) == Prune([v EXCEPT !.mem[i] = None])

VVLeq(a, b) == \A i \in Ids : a[i] <= b[i]
VVMax(a, b) == [i \in Ids |-> IF a[i] >= b[i] THEN a[i] ELSE b[i]]

(* ClusterView.MergeFromWithOptions (default options); see specs/cv/ClusterView.tla for the full version *)
Merge(v, o) ==
    IF Members(o) = {} THEN [view |-> v, changed |-> FALSE]
    ELSE LET adopt(i) == o.mem[i] # None /\ (v.mem[i] = None \/ IsNewer(o.mem[i], v.mem[i]))
             mem1 == [i \in Ids |-> IF adopt(i) THEN o.mem[i] ELSE v.mem[i]]
             vv1  == [i \in Ids |-> IF mem1[i] # None THEN v.vv[i] ELSE 0]
             vv2  == VVMax(vv1, o.vv)
             ts2  == IF o.ts > v.ts THEN o.ts ELSE v.ts
         IN [view |-> [mem |-> mem1, vv |-> vv2, ts |-> ts2],
             changed |-> (\E i \in Ids : adopt(i)) \/ vv2 # vv1 \/ ts2 # v.ts]

(* deterministic leader: smallest address among Up members *)
Min(S) == CHOOSE x \in S : \A y \in S : x <= y   \* strings are not ordered in TLC: see NodeRank
CONSTANT NodeRank(_)                              \* node -> its rank in the address order
LeaderOf(v) == IF UpAddrs(v) = {} THEN ""
               ELSE CHOOSE a \in UpAddrs(v) : \A b \in UpAddrs(v) : NodeRank(a) <= NodeRank(b)

Running(n) == proc[n].run \in {"up", "joining"}
CanTalk(a, b) == {a, b} \notin cut

(* gossip targets: all seeds and all member addresses except self (MaxDiscoveryTargetsPerTick = 20) *)
Targets(n, v) == (Seeds \cup Addrs(v)) \ {n}

(* shouldSendGossipTo *)
ShouldSend(n, v, t) == ~VVLeq(v.vv, lastVV[n][t])   \* not Before and not Equal

(* pruneLastVersionVectors + the sends of broadcastViewOnce / runGossipRound *)
Allowed(n, v) == Seeds \cup Addrs(v)
PrunedLast(n, v) == [t \in Nodes |-> IF t \in Allowed(n, v) THEN lastVV[n][t] ELSE Unknown]
SendTo(n, v, lv) == {x \in Targets(n, v) : ~VVLeq(v.vv, lv[x])}
Pairs == {p \in Nodes \X Nodes : p[1] # p[2]}
Empty == [p \in Pairs |-> <<>>]
(* append view v to the channels from n to every target in T *)
Push(nw, n, v, T) == [p \in Pairs |-> IF p[1] = n /\ p[2] \in T THEN Append(nw[p], v) ELSE nw[p]]
InFlight == \E p \in Pairs : net[p] # <<>>

Init == /\ proc = [n \in Nodes |-> [run |-> "down", id |-> IdOf(n, 1), self |-> None, starts |-> 0]]
        /\ view = [n \in Nodes |-> EmptyView(0)]
        /\ lastVV = [n \in Nodes |-> [t \in Nodes |-> Unknown]]
        /\ age = [n \in Nodes |-> [i \in Ids |-> 0]]
        /\ leader = [n \in Nodes |-> ""]
        /\ net = Empty /\ cut = {} /\ clock = 0 /\ faults = 0 /\ stopped = (MaxFaults = 0)

Fresh(n, k, t) == [gen |-> 1, lc |-> 1, st |-> "joining", ts |-> t, at |-> n]

(* a process starts: newNodeState, newClusterView; OnLaunch decides between bootstrap and join *)
Launch(n) ==
    /\ proc[n].run = "down" /\ clock < MaxStarts
    /\ LET k == proc[n].starts + 1
           t == clock + 1
           id == IdOf(n, k)
           me == Fresh(n, k, t)
       IN IF Seeds = {} \/ n \in Seeds
          THEN \* bootstrapAsSeed
               LET up == [me EXCEPT !.st = "up"]
                   v1 == Inc(AddMember(EmptyView(t), id, up), id)
                   lv == [x \in Nodes |-> Unknown]
               IN /\ proc' = [proc EXCEPT ![n] = [run |-> "up", id |-> id, self |-> up, starts |-> k]]
                  /\ view' = [view EXCEPT ![n] = v1]
                  /\ lastVV' = [lastVV EXCEPT ![n] = lv]
                  /\ leader' = [leader EXCEPT ![n] = LeaderOf(v1)]
                  /\ net' = Push(net, n, v1, SendTo(n, v1, lv))
          ELSE /\ proc' = [proc EXCEPT ![n] = [run |-> "joining", id |-> id, self |-> me, starts |-> k]]
               /\ view' = [view EXCEPT ![n] = EmptyView(t)]
               /\ lastVV' = [lastVV EXCEPT ![n] = [x \in Nodes |-> Unknown]]
               /\ leader' = [leader EXCEPT ![n] = ""]
               /\ net' = net
    /\ age' = [age EXCEPT ![n] = [i \in Ids |-> 0]]
    /\ clock' = clock + 1
    /\ UNCHANGED <<cut, faults, stopped>>

(* tryJoinSeeds succeeding at seed s (the Ask is answered) *)
Join(n, s) ==
    /\ proc[n].run = "joining" /\ s \in Seeds /\ proc[s].run = "up" /\ CanTalk(n, s)
    /\ LET id == proc[n].id
           me == proc[n].self
           \* --- seed side: handleJoinRequest ---
           acc == [me EXCEPT !.st = "up"]
           sv1 == Inc(AddMember(view[s], id, acc), proc[s].id)
           slv == PrunedLast(s, sv1)
           \* --- joiner side ---
           up  == [me EXCEPT !.st = "up"]
           jv1 == Inc(AddMember(view[n], id, up), id)
           jv2 == Merge(jv1, sv1).view
           prev == jv2.mem[id]
           bumped == prev.gen >= up.gen
           me2 == IF bumped THEN [up EXCEPT !.gen = prev.gen + 1, !.lc = prev.lc + 1, !.ts = up.ts + 0] ELSE up
           \* BumpAdvancesVersion: the generation bump is recorded in the version vector (the increment made before the merge
           \* is absorbed by the counter the previous incarnation left behind)
           jv3 == IF bumped THEN (IF BumpAdvancesVersion THEN Inc(AddMember(jv2, id, me2), id) ELSE AddMember(jv2, id, me2)) ELSE jv2
           jlv == PrunedLast(n, jv3)
       IN /\ view' = [view EXCEPT ![s] = sv1, ![n] = jv3]
          /\ proc' = [proc EXCEPT ![n].run = "up", ![n].self = me2]
          /\ lastVV' = [lastVV EXCEPT ![s] = slv, ![n] = jlv]
          /\ leader' = [leader EXCEPT ![s] = LeaderOf(sv1), ![n] = LeaderOf(jv3)]
          /\ net' = Push(Push(net, s, sv1, SendTo(s, sv1, slv)), n, jv3, SendTo(n, jv3, jlv))
          /\ age' = [age EXCEPT ![s][id] = 0]
    /\ UNCHANGED <<cut, clock, faults, stopped>>

(* handleGossip: the oldest message of one channel *)
Deliver(p) ==
    /\ net[p] # <<>>
    /\ LET src == p[1]
           dst == p[2]
           mv  == Head(net[p])
           rest == [net EXCEPT ![p] = Tail(@)]
       \* (handleGossip does not look at the node's own status: a node that is still joining merges and re-broadcasts too)
       IN IF proc[dst].run \in {"up", "joining"} /\ CanTalk(src, dst)
          THEN LET r == Merge(view[dst], mv)
                   lv0 == [lastVV[dst] EXCEPT ![src] = mv.vv]
                   lv1 == IF r.changed THEN [t \in Nodes |-> IF t \in Allowed(dst, r.view) THEN lv0[t] ELSE Unknown] ELSE lv0
               IN /\ view' = [view EXCEPT ![dst] = r.view]
                  \* JoinShortcut: the entry found may belong to the previous incarnation; the generation bump of Join is skipped
                  /\ proc' = IF JoinShortcut /\ proc[dst].run = "joining" /\ r.view.mem[proc[dst].id] # None
                                 /\ r.view.mem[proc[dst].id].st = "up" /\ r.view.mem[proc[dst].id].at = dst
                              THEN [proc EXCEPT ![dst].run = "up", ![dst].self = [@ EXCEPT !.st = "up"]] ELSE proc
                  /\ lastVV' = [lastVV EXCEPT ![dst] = lv1]
                  /\ leader' = [leader EXCEPT ![dst] = IF r.changed THEN LeaderOf(r.view) ELSE @]
                  /\ age' = [age EXCEPT ![dst] = [i \in Ids |-> IF view[dst].mem[i] # None /\ view[dst].mem[i].at = src THEN 0 ELSE @[i]]]
                  /\ net' = IF r.changed THEN Push(rest, dst, r.view, SendTo(dst, r.view, lv1)) ELSE rest
          ELSE /\ net' = rest
               /\ UNCHANGED <<proc, view, lastVV, leader, age>>
    /\ UNCHANGED <<cut, clock, faults, stopped>>

(* runGossipRound; with FD the tick also stands for elapsed time: every member's age grows *)
GossipTick(n) ==
    /\ proc[n].run = "up" /\ (QuietTicks => ~InFlight)
    /\ LET lv == PrunedLast(n, view[n]) IN
       /\ lastVV' = [lastVV EXCEPT ![n] = lv]
       /\ net' = Push(net, n, view[n], SendTo(n, view[n], lv))
       /\ SendTo(n, view[n], lv) # {} \/ lv # lastVV[n] \/ FD      \* no stuttering ticks
    /\ age' = IF FD THEN [age EXCEPT ![n] = [i \in Ids |-> IF view[n].mem[i] # None /\ @[i] < MaxAge THEN @[i] + 1 ELSE @[i]]] ELSE age
    /\ (FD => \E i \in Members(view[n]) : age[n][i] < MaxAge)
    /\ UNCHANGED <<proc, view, leader, cut, clock, faults, stopped>>

(* runFailureDetection (SuspectConfirmDuration = 0): members other than self that are too old are removed *)
FDTick(n) ==
    /\ FD /\ proc[n].run = "up" /\ (QuietTicks => ~InFlight)
    /\ LET dead == {i \in Members(view[n]) : view[n].mem[i].at # n /\ age[n][i] >= MaxAge} IN
       /\ dead # {}
       /\ LET RECURSIVE Rm(_, _)
              Rm(v, S) == IF S = {} THEN v ELSE LET i == CHOOSE x \in S : TRUE IN Rm(Inc(Remove(v, i), proc[n].id), S \ {i})
              v2 == Rm(view[n], dead)
              lv == PrunedLast(n, v2)
          IN /\ view' = [view EXCEPT ![n] = v2]
             /\ lastVV' = [lastVV EXCEPT ![n] = lv]
             /\ leader' = [leader EXCEPT ![n] = LeaderOf(v2)]
             /\ net' = Push(net, n, v2, SendTo(n, v2, lv))
    /\ UNCHANGED <<proc, age, cut, clock, faults, stopped>>

(* ---------------- environment ---------------- *)
Fault == ~stopped /\ faults < MaxFaults /\ faults' = faults + 1
Crash(n) == /\ Running(n) /\ n \notin Seeds /\ Fault
            /\ proc' = [proc EXCEPT ![n].run = "down"]
            /\ UNCHANGED <<view, lastVV, age, leader, net, cut, clock, stopped>>
(* handleLeaveRequest: the own status changes on the node's private copy, the view is broadcast as it is, the node stops *)
Leave(n) == /\ proc[n].run = "up" /\ n \notin Seeds /\ Fault
            /\ LET lv == PrunedLast(n, view[n]) IN net' = Push(net, n, view[n], SendTo(n, view[n], lv))
            /\ proc' = [proc EXCEPT ![n].run = "left"]
            /\ UNCHANGED <<view, lastVV, age, leader, cut, clock, stopped>>
Cut(a, b) == /\ a # b /\ {a, b} \notin cut /\ Fault /\ cut' = cut \cup {{a, b}}
             /\ UNCHANGED <<proc, view, lastVV, age, leader, net, clock, stopped>>
Lose(p) == /\ net[p] # <<>> /\ Fault /\ net' = [net EXCEPT ![p] = Tail(@)]
           /\ UNCHANGED <<proc, view, lastVV, age, leader, cut, clock, stopped>>
(* faults stop for good: partitions heal *)
Stop == /\ ~stopped /\ stopped' = TRUE /\ cut' = {}
        /\ UNCHANGED <<proc, view, lastVV, age, leader, net, clock, faults>>

Next == \/ \E n \in Nodes : Launch(n) \/ GossipTick(n) \/ FDTick(n) \/ Crash(n) \/ Leave(n)
        \/ \E n \in Nodes, s \in Seeds : Join(n, s)
        \/ \E p \in Pairs : Deliver(p) \/ Lose(p)
        \/ \E a, b \in Nodes : Cut(a, b)
        \/ Stop

Spec == Init /\ [][Next]_vars /\ WF_vars(\E p \in Pairs : Deliver(p))
        /\ \A n \in Nodes : WF_vars(GossipTick(n)) /\ WF_vars(FDTick(n)) /\ \A s \in Seeds : WF_vars(Join(n, s))

----------------------------------------------------------------------------
UpNodes == {n \in Nodes : proc[n].run = "up"}
Pending == {n \in Nodes : proc[n].run = "joining"}
WouldSend(n) == SendTo(n, view[n], PrunedLast(n, view[n])) # {}
FDQuiet == ~FD \/ \A n \in UpNodes : \A i \in Members(view[n]) : view[n].mem[i].at = n \/ age[n][i] < MaxAge
(* nothing is in flight, nobody would send anything on its next tick, nobody is still trying to join *)
Stable == stopped /\ ~InFlight /\ Pending = {} /\ (\A n \in UpNodes : ~WouldSend(n)) /\ FDQuiet

SameView == \A a, b \in UpNodes : view[a].mem = view[b].mem
SameMembers == \A a, b \in UpNodes : Addrs(view[a]) = Addrs(view[b])
SameLeader == \A a, b \in UpNodes : LeaderOf(view[a]) = LeaderOf(view[b])
LeaderAnnounced == \A n \in UpNodes : leader[n] = LeaderOf(view[n])
OneLeader == UpNodes # {} => Cardinality({n \in UpNodes : leader[n] = n}) = 1
ExactlyTheRunning == \A n \in UpNodes : Addrs(view[n]) = UpNodes
NoShadow == \A n \in UpNodes : \A i, j \in Members(view[n]) : view[n].mem[i].at = view[n].mem[j].at => i = j
NewestIncarnation == /\ \A n, x \in UpNodes : proc[x].id \in Members(view[n]) /\ view[n].mem[proc[x].id] = view[x].mem[proc[x].id]
                     \* ... and what a node holds about itself is the running process, not a predecessor
                     /\ \A x \in UpNodes : view[x].mem[proc[x].id].gen = proc[x].self.gen /\ view[x].mem[proc[x].id].ts = proc[x].self.ts

(* liveness: from some point on all running nodes hold the same members in the same incarnations and have announced the same leader *)
Agreed == /\ \A a, b \in UpNodes : view[a].mem = view[b].mem
          /\ \A a \in UpNodes : leader[a] = LeaderOf(view[a])
          /\ (Seeds \cap UpNodes # {} => Pending = {})
EventuallyAgreed == <>[]Agreed

(* failure detection must not remove a member whose node is running and reachable *)
NoLiveMemberRemoved == [][\A n \in Nodes : \A i \in Ids :
                            (proc[n].run = "up" /\ view[n].mem[i] # None /\ view'[n].mem[i] = None)
                              => ~(proc[view[n].mem[i].at].run = "up" /\ proc[view[n].mem[i].at].id = i /\ CanTalk(n, view[n].mem[i].at))]_vars

ConvergedMembers == Stable => SameMembers /\ SameLeader /\ LeaderAnnounced
ConvergedIncarnations == Stable => NewestIncarnation /\ NoShadow
ConvergedExact == Stable => ExactlyTheRunning /\ OneLeader
=============================================================================
