INIT GInit
NEXT GNext
CONSTANTS
  Callers <- P_Callers
  Msgs <- P_Msgs
  SysMsgs <- P_Sys
  CallerScript <- P_CallerScript
  MsgScript <- P_MsgScript
  ConsumerSeq <- Pool3
  RecheckPaused = TRUE
INVARIANT Emit
CHECK_DEADLOCK FALSE
