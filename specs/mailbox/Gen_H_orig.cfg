INIT GInit
NEXT GNext
CONSTANTS
  Callers <- H_Callers
  Msgs <- H_Msgs
  SysMsgs <- H_Sys
  CallerScript <- H_CallerScript
  MsgScript <- H_MsgScript
  ConsumerSeq <- Pool4
  RecheckPaused = FALSE
INVARIANT Emit
CHECK_DEADLOCK FALSE
