SPECIFICATION Spec
CONSTANTS
  Callers <- W_Callers
  Msgs <- W_Msgs
  SysMsgs <- W_Sys
  CallerScript <- W_CallerScript
  MsgScript <- W_MsgScript
  ConsumerSeq <- Pool3
  RecheckPaused = TRUE
VIEW View
INVARIANTS TypeOK CountersExact OneAtATime AtMostOnce OnlyAccepted SingleOwner PoolSuffices NoLostWakeup
PROPERTY NoSpin
CHECK_DEADLOCK FALSE
