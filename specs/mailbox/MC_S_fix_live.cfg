SPECIFICATION Spec
CONSTANTS
  Callers <- S_Callers
  Msgs <- S_Msgs
  SysMsgs <- S_Sys
  CallerScript <- S_CallerScript
  MsgScript <- S_MsgScript
  ConsumerSeq <- Pool5
  RecheckPaused = TRUE
VIEW View
INVARIANTS TypeOK CountersExact OneAtATime AtMostOnce OnlyAccepted SingleOwner PoolSuffices NoLostWakeup
PROPERTY NoSpin
CHECK_DEADLOCK FALSE
