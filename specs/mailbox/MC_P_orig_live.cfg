SPECIFICATION Spec
CONSTANTS
  Callers <- P_Callers
  Msgs <- P_Msgs
  SysMsgs <- P_Sys
  CallerScript <- P_CallerScript
  MsgScript <- P_MsgScript
  ConsumerSeq <- Pool3
  RecheckPaused = FALSE
VIEW View
INVARIANTS TypeOK CountersExact OneAtATime AtMostOnce OnlyAccepted SingleOwner PoolSuffices NoLostWakeup
PROPERTY NoSpin
CHECK_DEADLOCK FALSE
