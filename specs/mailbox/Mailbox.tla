------------------------------- MODULE Mailbox -------------------------------
(***************************************************************************)
(* internal/mailbox/unbounded_mailbox.go at the granularity of its atomic  *)
(* operations.  One action per hook point `verifhook.At("mb....")`: the    *)
(* action named after a hook performs what the code does between that hook *)
(* and the next one, so a TLC behaviour is directly a schedule for the     *)
(* controlled goroutines of the harness.                                   *)
(*                                                                         *)
(* Threads: external callers (senders, pause/resume callers) running a     *)
(* script of operations, and a pool of consumer incarnations (goroutines   *)
(* started by `go m.process()`), taken in order.  A handled message may    *)
(* itself carry a script that the consumer executes inside the handler     *)
(* (enqueue to self, Pause, Resume).                                       *)
(*                                                                         *)
(* The two ring queues are abstract FIFO sequences with atomic Push/Pop;   *)
(* that abstraction is discharged by specs/ring (C02).                     *)
(*                                                                         *)
(* RecheckPaused selects the repaired re-election rule (the consumer does  *)
(* not re-elect itself for user messages while the mailbox is paused);     *)
(* FALSE is the original code, which spins while paused mail is waiting.   *)
(***************************************************************************)
EXTENDS Integers, Sequences, FiniteSets, TLC

CONSTANTS Callers,        \* external threads
          ConsumerSeq,    \* pool of consumer incarnations, in the order in which they are started
          Msgs,           \* message ids
          SysMsgs,        \* subset of Msgs that are system messages
          CallerScript,   \* [Callers -> Seq(op)]   op = <<"enq", m>> | <<"pause">> | <<"resume">>
          MsgScript,      \* [Msgs -> Seq(op)]      what the handler does with the message
          RecheckPaused

VARIABLES status, paused, num, sysnum, userQ, sysQ, nextC,
          pc, ops, cur, lnum, lsys,
          handled, hcount, pushed, maxIn

vars == <<status, paused, num, sysnum, userQ, sysQ, nextC, pc, ops, cur, lnum, lsys,
          handled, hcount, pushed, maxIn>>

Consumers == {ConsumerSeq[i] : i \in 1..Len(ConsumerSeq)}
Threads == Callers \cup Consumers
None == "none"                       \* no current message (Msgs are strings)

\* pcs of a thread that is inside one mailbox operation
OpPcs == {"enq.push", "enq.add", "enq.cas", "spawn", "pause.store", "resume.cas_paused", "resume.cas_status"}
\* consumer pcs outside operations
InHandlerPcs == {"h.body"} \cup OpPcs

FirstPc(op) == CASE op[1] = "enq" -> "enq.push"
                 [] op[1] = "pause" -> "pause.store"
                 [] op[1] = "resume" -> "resume.cas_paused"

Init ==
    /\ status = 0 /\ paused = 0 /\ num = 0 /\ sysnum = 0
    /\ userQ = <<>> /\ sysQ = <<>> /\ nextC = 0
    /\ ops = [t \in Threads |-> IF t \in Callers THEN CallerScript[t] ELSE <<>>]
    /\ pc = [t \in Threads |-> IF t \in Callers
                               THEN (IF CallerScript[t] = <<>> THEN "done" ELSE FirstPc(CallerScript[t][1]))
                               ELSE "off"]
    /\ cur = [t \in Threads |-> None]
    /\ lnum = [t \in Threads |-> 0] /\ lsys = [t \in Threads |-> 0]
    /\ handled = <<>> /\ hcount = [m \in Msgs |-> 0] /\ pushed = {} /\ maxIn = 0

IsConsumer(t) == t \in Consumers
InHandler(t) == IsConsumer(t) /\ pc[t] \in InHandlerPcs

\* pc after the current operation of t has completed (ops' is the remaining script)
AfterOp(t, rest) ==
    IF rest # <<>> THEN FirstPc(rest[1])
    ELSE IF IsConsumer(t) THEN "ph.pop_sys"      \* handler returns, loop continues with the system queue
    ELSE "done"

FinishOp(t) ==
    /\ ops' = [ops EXCEPT ![t] = Tail(@)]
    /\ pc' = [pc EXCEPT ![t] = AfterOp(t, Tail(ops[t]))]
    /\ cur' = IF IsConsumer(t) /\ Tail(ops[t]) = <<>> THEN [cur EXCEPT ![t] = None] ELSE cur

\* `go m.process()`: the next incarnation of the pool starts at its first hook
Spawn == /\ nextC < Cardinality(Consumers)
         /\ nextC' = nextC + 1

(**************************** mailbox operations ****************************)
EnqPush(t) ==
    /\ pc[t] = "enq.push"
    /\ LET m == ops[t][1][2] IN
         /\ IF m \in SysMsgs THEN sysQ' = Append(sysQ, m) /\ userQ' = userQ
                             ELSE userQ' = Append(userQ, m) /\ sysQ' = sysQ
         /\ pushed' = pushed \cup {m}
    /\ pc' = [pc EXCEPT ![t] = "enq.add"]
    /\ UNCHANGED <<status, paused, num, sysnum, nextC, ops, cur, lnum, lsys, handled, hcount, maxIn>>

EnqAdd(t) ==
    /\ pc[t] = "enq.add"
    /\ IF ops[t][1][2] \in SysMsgs THEN sysnum' = sysnum + 1 /\ num' = num
                                   ELSE num' = num + 1 /\ sysnum' = sysnum
    /\ pc' = [pc EXCEPT ![t] = "enq.cas"]
    /\ UNCHANGED <<status, paused, userQ, sysQ, nextC, ops, cur, lnum, lsys, handled, hcount, pushed, maxIn>>

\* CAS idle->processing; success leads to the spawn hook, failure ends the operation
CasStatusThenSpawn(t, fromPc) ==
    /\ pc[t] = fromPc
    /\ IF status = 0
       THEN /\ status' = 1
            /\ pc' = [pc EXCEPT ![t] = "spawn"]
            /\ UNCHANGED <<ops, cur>>
       ELSE /\ status' = status
            /\ FinishOp(t)
    /\ UNCHANGED <<paused, num, sysnum, userQ, sysQ, nextC, lnum, lsys, handled, hcount, pushed, maxIn>>

EnqCas(t) == CasStatusThenSpawn(t, "enq.cas")

DoSpawn(t) ==
    /\ pc[t] = "spawn"
    /\ Spawn
    /\ LET c == ConsumerSeq[nextC + 1] IN
         /\ ops' = [ops EXCEPT ![t] = Tail(@)]
         /\ pc' = [pc EXCEPT ![t] = AfterOp(t, Tail(ops[t])), ![c] = "ph.pop_sys"]
         /\ cur' = IF IsConsumer(t) /\ Tail(ops[t]) = <<>> THEN [cur EXCEPT ![t] = None] ELSE cur
    /\ UNCHANGED <<status, paused, num, sysnum, userQ, sysQ, lnum, lsys, handled, hcount, pushed, maxIn>>

PauseStore(t) ==
    /\ pc[t] = "pause.store"
    /\ paused' = 1
    /\ FinishOp(t)
    /\ UNCHANGED <<status, num, sysnum, userQ, sysQ, nextC, lnum, lsys, handled, hcount, pushed, maxIn>>

ResumeCasPaused(t) ==
    /\ pc[t] = "resume.cas_paused"
    /\ IF paused = 1
       THEN /\ paused' = 0
            /\ pc' = [pc EXCEPT ![t] = "resume.cas_status"]
            /\ UNCHANGED <<ops, cur>>
       ELSE /\ paused' = paused
            /\ FinishOp(t)
    /\ UNCHANGED <<status, num, sysnum, userQ, sysQ, nextC, lnum, lsys, handled, hcount, pushed, maxIn>>

ResumeCasStatus(t) == CasStatusThenSpawn(t, "resume.cas_status")

(**************************** the consumer **********************************)
NowIn(t) == Cardinality({c \in Consumers : InHandler(c)} \cup {t})

PopSys(c) ==
    /\ pc[c] = "ph.pop_sys"
    /\ IF sysQ # <<>>
       THEN /\ cur' = [cur EXCEPT ![c] = Head(sysQ)]
            /\ sysQ' = Tail(sysQ)
            /\ pc' = [pc EXCEPT ![c] = "ph.dec_sys"]
       ELSE /\ pc' = [pc EXCEPT ![c] = "ph.load_paused"]
            /\ UNCHANGED <<cur, sysQ>>
    /\ UNCHANGED <<status, paused, num, sysnum, userQ, nextC, ops, lnum, lsys, handled, hcount, pushed, maxIn>>

\* decrement, then the handler is entered (HandleIn) and parks at its body hook
DecAndEnter(c, fromPc, isSys) ==
    /\ pc[c] = fromPc
    /\ IF isSys THEN sysnum' = sysnum - 1 /\ num' = num ELSE num' = num - 1 /\ sysnum' = sysnum
    /\ handled' = Append(handled, cur[c])
    /\ hcount' = [hcount EXCEPT ![cur[c]] = @ + 1]
    /\ maxIn' = IF NowIn(c) > maxIn THEN NowIn(c) ELSE maxIn
    /\ pc' = [pc EXCEPT ![c] = "h.body"]
    /\ UNCHANGED <<status, paused, userQ, sysQ, nextC, ops, cur, lnum, lsys, pushed>>

DecSys(c)  == DecAndEnter(c, "ph.dec_sys", TRUE)
DecUser(c) == DecAndEnter(c, "ph.dec_user", FALSE)

\* the handler body: start executing the message's script (or return at once)
HBody(c) ==
    /\ pc[c] = "h.body"
    /\ LET s == MsgScript[cur[c]] IN
         /\ ops' = [ops EXCEPT ![c] = s]
         /\ pc' = [pc EXCEPT ![c] = IF s = <<>> THEN "ph.pop_sys" ELSE FirstPc(s[1])]
         /\ cur' = IF s = <<>> THEN [cur EXCEPT ![c] = None] ELSE cur
    /\ UNCHANGED <<status, paused, num, sysnum, userQ, sysQ, nextC, lnum, lsys, handled, hcount, pushed, maxIn>>

LoadPaused(c) ==
    /\ pc[c] = "ph.load_paused"
    /\ pc' = [pc EXCEPT ![c] = IF paused = 1 THEN "proc.store_idle" ELSE "ph.pop_user"]
    /\ UNCHANGED <<status, paused, num, sysnum, userQ, sysQ, nextC, ops, cur, lnum, lsys, handled, hcount, pushed, maxIn>>

PopUser(c) ==
    /\ pc[c] = "ph.pop_user"
    /\ IF userQ # <<>>
       THEN /\ cur' = [cur EXCEPT ![c] = Head(userQ)]
            /\ userQ' = Tail(userQ)
            /\ pc' = [pc EXCEPT ![c] = "ph.dec_user"]
       ELSE /\ pc' = [pc EXCEPT ![c] = "proc.store_idle"]
            /\ UNCHANGED <<cur, userQ>>
    /\ UNCHANGED <<status, paused, num, sysnum, sysQ, nextC, ops, lnum, lsys, handled, hcount, pushed, maxIn>>

StoreIdle(c) ==
    /\ pc[c] = "proc.store_idle"
    /\ status' = 0
    /\ pc' = [pc EXCEPT ![c] = "proc.load_num"]
    /\ UNCHANGED <<paused, num, sysnum, userQ, sysQ, nextC, ops, cur, lnum, lsys, handled, hcount, pushed, maxIn>>

LoadNum(c) ==
    /\ pc[c] = "proc.load_num"
    /\ lnum' = [lnum EXCEPT ![c] = num]
    /\ pc' = [pc EXCEPT ![c] = "proc.load_sys"]
    /\ UNCHANGED <<status, paused, num, sysnum, userQ, sysQ, nextC, ops, cur, lsys, handled, hcount, pushed, maxIn>>

\* original: re-elect if user > 0 || system > 0
\* repaired: re-elect if system > 0 || (user > 0 && !IsPaused()) - the pause flag is loaded only when it matters
LoadSys(c) ==
    /\ pc[c] = "proc.load_sys"
    /\ lsys' = [lsys EXCEPT ![c] = sysnum]
    /\ pc' = [pc EXCEPT ![c] =
                IF RecheckPaused
                THEN (IF sysnum > 0 THEN "proc.cas" ELSE IF lnum[c] > 0 THEN "ispaused.load" ELSE "dead")
                ELSE (IF lnum[c] > 0 \/ sysnum > 0 THEN "proc.cas" ELSE "dead")]
    /\ UNCHANGED <<status, paused, num, sysnum, userQ, sysQ, nextC, ops, cur, lnum, handled, hcount, pushed, maxIn>>

IsPausedLoad(c) ==
    /\ pc[c] = "ispaused.load"
    /\ pc' = [pc EXCEPT ![c] = IF paused = 0 THEN "proc.cas" ELSE "dead"]
    /\ UNCHANGED <<status, paused, num, sysnum, userQ, sysQ, nextC, ops, cur, lnum, lsys, handled, hcount, pushed, maxIn>>

ProcCas(c) ==
    /\ pc[c] = "proc.cas"
    /\ IF status = 0
       THEN /\ status' = 1
            /\ pc' = [pc EXCEPT ![c] = "ph.pop_sys"]
       ELSE /\ status' = status
            /\ pc' = [pc EXCEPT ![c] = "dead"]
    /\ UNCHANGED <<paused, num, sysnum, userQ, sysQ, nextC, ops, cur, lnum, lsys, handled, hcount, pushed, maxIn>>

Step(t) ==
    \/ EnqPush(t) \/ EnqAdd(t) \/ EnqCas(t) \/ DoSpawn(t)
    \/ PauseStore(t) \/ ResumeCasPaused(t) \/ ResumeCasStatus(t)
    \/ (IsConsumer(t) /\ (PopSys(t) \/ DecSys(t) \/ DecUser(t) \/ HBody(t) \/ LoadPaused(t) \/ PopUser(t)
                          \/ StoreIdle(t) \/ LoadNum(t) \/ LoadSys(t) \/ IsPausedLoad(t) \/ ProcCas(t)))

Next == \E t \in Threads : Step(t)

Fairness == \A t \in Threads : WF_vars(Step(t))
Spec == Init /\ [][Next]_vars /\ Fairness

(**************************** properties ************************************)
Live(c) == pc[c] \notin {"off", "dead"}
AllDone == /\ \A t \in Callers : pc[t] = "done"
           /\ \A c \in Consumers : ~Live(c)

TypeOK ==
    /\ status \in {0, 1} /\ paused \in {0, 1}
    /\ num \in Int /\ sysnum \in Int
    /\ nextC \in 0..Cardinality(Consumers)

\* at most one handler invocation in progress
OneAtATime == maxIn <= 1 /\ Cardinality({c \in Consumers : InHandler(c)}) <= 1
\* never handed out twice
AtMostOnce == \A m \in Msgs : hcount[m] <= 1
\* only accepted messages are handled
OnlyAccepted == \A i \in 1..Len(handled) : handled[i] \in pushed
\* (the counters may be transiently negative: Push precedes the increment, so a running consumer can
\* pop and decrement before the sender has counted the message; they are exact once everybody rests)
CountersExact == AllDone => num = Len(userQ) /\ sysnum = Len(sysQ)
\* at most one goroutine inside processHandle
SingleOwner == Cardinality({c \in Consumers : pc[c] \in {"ph.pop_sys", "ph.dec_sys", "ph.dec_user", "ph.load_paused", "ph.pop_user"} \cup InHandlerPcs}) <= 1
\* the pool is large enough for the configuration (otherwise the model would hide behaviour)
PoolSuffices == \A t \in Threads : pc[t] = "spawn" => nextC < Cardinality(Consumers)

\* when everything has come to rest: no lost wake-up, pause respected
HandledSet == {handled[i] : i \in 1..Len(handled)}
NoLostWakeup ==
    AllDone => /\ \A m \in pushed \cap SysMsgs : m \in HandledSet
               /\ (paused = 0 => \A m \in pushed : m \in HandledSet)
               /\ (paused = 1 => \A m \in pushed \ SysMsgs : m \in HandledSet \/ \E i \in 1..Len(userQ) : userQ[i] = m)
               /\ status = 0

\* FIFO per class (one queue per class; C02)
Restrict(seq, S) == SelectSeq(seq, LAMBDA x : x \in S)

\* no work without something to process: under weak fairness of every thread the system
\* always comes to rest (a consumer that keeps re-electing itself is a lasso that violates this)
NoSpin == <>[]AllDone
=============================================================================
