INIT GInit
NEXT GNext
CONSTANTS
  Callers <- S_Callers
  Msgs <- S_Msgs
  SysMsgs <- S_Sys
  CallerScript <- S_CallerScript
  MsgScript <- S_MsgScript
  ConsumerSeq <- Pool5
  RecheckPaused = TRUE
INVARIANT Emit
CHECK_DEADLOCK FALSE
