INIT GInit
NEXT GNext
CONSTANTS
  Callers <- Q_Callers
  Msgs <- Q_Msgs
  SysMsgs <- Q_Sys
  CallerScript <- Q_CallerScript
  MsgScript <- Q_MsgScript
  ConsumerSeq <- Pool3
  RecheckPaused = TRUE
INVARIANT Emit
CHECK_DEADLOCK FALSE
