SPECIFICATION Spec
CONSTANTS
  Callers <- H_Callers
  Msgs <- H_Msgs
  SysMsgs <- H_Sys
  CallerScript <- H_CallerScript
  MsgScript <- H_MsgScript
  ConsumerSeq <- Pool4
  RecheckPaused = FALSE
VIEW View
INVARIANTS TypeOK CountersExact OneAtATime AtMostOnce OnlyAccepted SingleOwner PoolSuffices NoLostWakeup

CHECK_DEADLOCK FALSE
