SPECIFICATION Spec
CONSTANTS
  Callers <- Q_Callers
  Msgs <- Q_Msgs
  SysMsgs <- Q_Sys
  CallerScript <- Q_CallerScript
  MsgScript <- Q_MsgScript
  ConsumerSeq <- Pool3
  RecheckPaused = FALSE
VIEW View
INVARIANTS TypeOK CountersExact OneAtATime AtMostOnce OnlyAccepted SingleOwner PoolSuffices NoLostWakeup

CHECK_DEADLOCK FALSE
