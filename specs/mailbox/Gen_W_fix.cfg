INIT GInit
NEXT GNext
CONSTANTS
  Callers <- W_Callers
  Msgs <- W_Msgs
  SysMsgs <- W_Sys
  CallerScript <- W_CallerScript
  MsgScript <- W_MsgScript
  ConsumerSeq <- Pool3
  RecheckPaused = TRUE
INVARIANT Emit
CHECK_DEADLOCK FALSE
