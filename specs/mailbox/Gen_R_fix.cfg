INIT GInit
NEXT GNext
CONSTANTS
  Callers <- R_Callers
  Msgs <- R_Msgs
  SysMsgs <- R_Sys
  CallerScript <- R_CallerScript
  MsgScript <- R_MsgScript
  ConsumerSeq <- Pool4
  RecheckPaused = TRUE
INVARIANT Emit
CHECK_DEADLOCK FALSE
