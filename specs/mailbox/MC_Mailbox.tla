----------------------------- MODULE MC_Mailbox -----------------------------
EXTENDS Mailbox, Json

\* history variables that do not influence behaviour are hidden from the fingerprint
View == <<status, paused, num, sysnum, userQ, sysQ, nextC, pc, ops, cur, lnum, lsys, hcount, maxIn>>

Pool3 == <<"c1", "c2", "c3">>
Pool4 == <<"c1", "c2", "c3", "c4">>
Pool5 == <<"c1", "c2", "c3", "c4", "c5">>

\* ----- configuration Q: two senders (one user, one system message), one Pause;Resume caller
Q_Callers == {"s1", "s2", "p1"}
Q_Msgs == {"u1", "y1"}
Q_Sys == {"y1"}
Q_CallerScript == [t \in Q_Callers |-> CASE t = "s1" -> << <<"enq", "u1">> >>
                                        [] t = "s2" -> << <<"enq", "y1">> >>
                                        [] t = "p1" -> << <<"pause">>, <<"resume">> >>]
Q_MsgScript == [m \in Q_Msgs |-> <<>>]

\* ----- configuration H: handler scripts - the system message pauses from inside the handler, the
\* user message u1 sends u2 to its own mailbox, an outside caller resumes
H_Callers == {"s1", "s2", "p1"}
H_Msgs == {"u1", "u2", "y1"}
H_Sys == {"y1"}
H_CallerScript == [t \in H_Callers |-> CASE t = "s1" -> << <<"enq", "u1">> >>
                                        [] t = "s2" -> << <<"enq", "y1">> >>
                                        [] t = "p1" -> << <<"resume">> >>]
H_MsgScript == [m \in H_Msgs |-> CASE m = "u1" -> << <<"enq", "u2">> >>
                                   [] m = "y1" -> << <<"pause">> >>
                                   [] OTHER -> <<>>]

\* ----- configuration P: a user message stays queued while paused and nobody resumes (spin scenario)
P_Callers == {"s1", "p1"}
P_Msgs == {"u1", "u2"}
P_Sys == {}
P_CallerScript == [t \in P_Callers |-> CASE t = "s1" -> << <<"enq", "u1">>, <<"enq", "u2">> >>
                                        [] t = "p1" -> << <<"pause">> >>]
P_MsgScript == [m \in P_Msgs |-> <<>>]

\* ----- configuration R: three senders (two user messages from one sender, one system message),
\* a Pause;Resume caller
R_Callers == {"s1", "s2", "p1"}
R_Msgs == {"u1", "u2", "y1"}
R_Sys == {"y1"}
R_CallerScript == [t \in R_Callers |-> CASE t = "s1" -> << <<"enq", "u1">>, <<"enq", "u2">> >>
                                        [] t = "s2" -> << <<"enq", "y1">> >>
                                        [] t = "p1" -> << <<"pause">>, <<"resume">> >>]
R_MsgScript == [m \in R_Msgs |-> <<>>]

\* ----- configuration S: handler pauses and resumes itself, sends to itself twice, outside pause
S_Callers == {"s1", "s2", "p1"}
S_Msgs == {"u1", "u2", "u3", "y1", "y2"}
S_Sys == {"y1", "y2"}
S_CallerScript == [t \in S_Callers |-> CASE t = "s1" -> << <<"enq", "u1">> >>
                                        [] t = "s2" -> << <<"enq", "y1">> >>
                                        [] t = "p1" -> << <<"pause">>, <<"resume">> >>]
S_MsgScript == [m \in S_Msgs |-> CASE m = "u1" -> << <<"enq", "u2">>, <<"enq", "y2">> >>
                                   [] m = "y1" -> << <<"pause">>, <<"enq", "u3">>, <<"resume">> >>
                                   [] OTHER -> <<>>]

\* ----- configuration W: one message, one Pause;Resume caller (Resume must elect a consumer itself)
W_Callers == {"s1", "p1"}
W_Msgs == {"u1"}
W_Sys == {}
W_CallerScript == [t \in W_Callers |-> CASE t = "s1" -> << <<"enq", "u1">> >>
                                        [] t = "p1" -> << <<"pause">>, <<"resume">> >>]
W_MsgScript == [m \in W_Msgs |-> <<>>]
=============================================================================
