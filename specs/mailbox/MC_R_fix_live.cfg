SPECIFICATION Spec
CONSTANTS
  Callers <- R_Callers
  Msgs <- R_Msgs
  SysMsgs <- R_Sys
  CallerScript <- R_CallerScript
  MsgScript <- R_MsgScript
  ConsumerSeq <- Pool5
  RecheckPaused = TRUE
VIEW View
INVARIANTS TypeOK CountersExact OneAtATime AtMostOnce OnlyAccepted SingleOwner PoolSuffices NoLostWakeup
PROPERTY NoSpin
CHECK_DEADLOCK FALSE
