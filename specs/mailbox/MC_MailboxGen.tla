---------------------------- MODULE MC_MailboxGen ----------------------------
(* Behaviour generation: the Mailbox spec with a history of the steps taken.  *)
(* Run with -simulate; every behaviour that has come to rest (or reached the  *)
(* depth limit) is printed as one JSON line for the replay driver.            *)
EXTENDS MC_Mailbox, SequencesExt

VARIABLE hist
MaxDepth == 400

GInit == Init /\ hist = <<>>
GNext == \E t \in Threads :
           /\ Step(t)
           /\ hist' = Append(hist, [t |-> t, pc |-> pc[t],
                                    s |-> <<status', paused', num', sysnum', Len(userQ'), Len(sysQ')>>])
GSpec == GInit /\ [][GNext]_<<vars, hist>>

ASSUME PrintT("SCEN " \o ToJson([cs |-> CallerScript, ms |-> MsgScript, sys |-> SetToSeq(SysMsgs), pool |-> ConsumerSeq]))

Emit == (AllDone \/ TLCGet("level") >= MaxDepth) => PrintT("BEHAV " \o ToJson(hist))
=============================================================================
