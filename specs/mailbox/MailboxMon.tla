----------------------------- MODULE MailboxMon -----------------------------
(***************************************************************************)
(* Property monitor for C01 (and the mailbox part of C02), evaluated by    *)
(* TLC on event traces recorded from the real UnboundedMailbox under the   *)
(* controlled scheduler (and, as a self check of the monitor, on traces    *)
(* generated from the Mailbox specification itself).                       *)
(*                                                                         *)
(* One line of trace.ndjson = one event, totally ordered by the controller:*)
(*   e    "Reset" | "EnqCall" | "EnqRet" | "PauseCall" | "PauseRet" |      *)
(*        "ResumeCall" | "ResumeRet" | "Start" | "HandleIn" | "HandleOut" |*)
(*        "Spin" | "Quiescent"                                             *)
(*   th   calling thread / consumer goroutine, m message id, sys (0/1),    *)
(*   inh  1 if the call is made from inside a message handler,             *)
(*   paused, ulen : mailbox projection at Quiescent                        *)
(* Only the observable alphabet of the property is used; nothing about the *)
(* lock-free algorithm inside.                                             *)
(***************************************************************************)
EXTENDS Integers, Sequences, FiniteSets, TLC, Json

TLog == ndJsonDeserialize("trace.ndjson")

VARIABLES l,          \* next line
          called,     \* messages whose Enqueue has been called
          returned,   \* ... and has returned
          sysm,       \* the system messages among them
          hc,         \* message -> number of times handed to the handler
          inH,        \* consumer goroutines currently inside the handler
          sendOrd,    \* <<thread, class>> -> sequence of messages in call order
          nextIdx,    \* <<thread, class>> -> how many of them have been handled
          hold,       \* "no" | "held" | "unknown": a Pause has returned and no Resume has been called since
          budget,     \* user messages that may still start while held
          resumers,   \* Resume calls in progress
          snap,       \* system messages returned-but-unhandled at the last HandleOut / consumer start
          spun,       \* a consumer was seen spinning
          bad         \* name of the first violated rule ("" if none)

vars == <<l, called, returned, sysm, hc, inH, sendOrd, nextIdx, hold, budget, resumers, snap, spun, bad>>

Fresh ==
    /\ called = {} /\ returned = {} /\ sysm = {}
    /\ hc = <<>> /\ inH = {} /\ sendOrd = <<>> /\ nextIdx = <<>>
    /\ hold = "no" /\ budget = 0 /\ resumers = 0 /\ snap = {} /\ spun = FALSE

Init == l = 1 /\ Fresh /\ bad = ""

Ev == TLog[l]
Cls(e) == IF e.sys = 1 THEN "sys" ELSE "user"
Get(f, k, d) == IF k \in DOMAIN f THEN f[k] ELSE d
Put(f, k, v) == [x \in DOMAIN f \cup {k} |-> IF x = k THEN v ELSE f[x]]
Flag(cond, name) == bad' = IF bad = "" /\ cond THEN name ELSE bad

Unhandled(S) == {m \in S : Get(hc, m, 0) = 0}

Reset ==
    /\ Ev.e = "Reset"
    /\ called' = {} /\ returned' = {} /\ sysm' = {}
    /\ hc' = <<>> /\ inH' = {} /\ sendOrd' = <<>> /\ nextIdx' = <<>>
    /\ hold' = "no" /\ budget' = 0 /\ resumers' = 0 /\ snap' = {} /\ spun' = FALSE
    /\ UNCHANGED bad

EnqCall ==
    /\ Ev.e = "EnqCall"
    /\ called' = called \cup {Ev.m}
    /\ sysm' = IF Ev.sys = 1 THEN sysm \cup {Ev.m} ELSE sysm
    /\ LET k == <<Ev.th, Cls(Ev)>> IN sendOrd' = Put(sendOrd, k, Append(Get(sendOrd, k, <<>>), Ev.m))
    /\ UNCHANGED <<returned, hc, inH, nextIdx, hold, budget, resumers, snap, spun, bad>>

EnqRet ==
    /\ Ev.e = "EnqRet"
    /\ returned' = returned \cup {Ev.m}
    /\ UNCHANGED <<called, sysm, hc, inH, sendOrd, nextIdx, hold, budget, resumers, snap, spun, bad>>

PauseCall == Ev.e = "PauseCall" /\ UNCHANGED <<called, returned, sysm, hc, inH, sendOrd, nextIdx, hold, budget, resumers, snap, spun, bad>>

\* a completed Pause holds user messages back; one that overlaps a Resume call decides nothing
PauseRet ==
    /\ Ev.e = "PauseRet"
    /\ IF resumers > 0 THEN hold' = "unknown" /\ budget' = budget
       ELSE IF hold = "held" THEN hold' = hold /\ budget' = budget
       ELSE hold' = "held" /\ budget' = IF Ev.inh = 1 THEN 0 ELSE 1
    /\ UNCHANGED <<called, returned, sysm, hc, inH, sendOrd, nextIdx, resumers, snap, spun, bad>>

ResumeCall ==
    /\ Ev.e = "ResumeCall"
    /\ hold' = "no" /\ budget' = 0 /\ resumers' = resumers + 1
    /\ UNCHANGED <<called, returned, sysm, hc, inH, sendOrd, nextIdx, snap, spun, bad>>

ResumeRet ==
    /\ Ev.e = "ResumeRet"
    /\ resumers' = resumers - 1
    /\ UNCHANGED <<called, returned, sysm, hc, inH, sendOrd, nextIdx, hold, budget, snap, spun, bad>>

\* a consumer goroutine starts
Start ==
    /\ Ev.e = "Start"
    /\ snap' = Unhandled(returned \cap sysm)
    /\ UNCHANGED <<called, returned, sysm, hc, inH, sendOrd, nextIdx, hold, budget, resumers, spun, bad>>

HandleIn ==
    /\ Ev.e = "HandleIn"
    /\ LET m == Ev.m
           isSys == m \in sysm
           k == <<Ev.sender, IF isSys THEN "sys" ELSE "user">>
           expectIdx == Get(nextIdx, k, 0) + 1
           ord == Get(sendOrd, k, <<>>)
       IN /\ hc' = Put(hc, m, Get(hc, m, 0) + 1)
          /\ inH' = inH \cup {Ev.th}
          /\ nextIdx' = Put(nextIdx, k, expectIdx)
          /\ budget' = IF ~isSys /\ hold = "held" THEN budget - 1 ELSE budget
          /\ bad' = IF bad # "" THEN bad
                    ELSE IF inH # {} THEN "OneAtATime"
                    ELSE IF m \notin called THEN "OnlyAccepted"
                    ELSE IF Get(hc, m, 0) >= 1 THEN "AtMostOnce"
                    ELSE IF ~(expectIdx <= Len(ord) /\ ord[expectIdx] = m) THEN "SenderFIFO"
                    ELSE IF ~isSys /\ hold = "held" /\ budget <= 0 THEN "PauseHolds"
                    ELSE IF ~isSys /\ Unhandled(snap) # {} THEN "SystemFirst"
                    ELSE ""
    /\ UNCHANGED <<called, returned, sysm, sendOrd, hold, resumers, snap, spun>>

HandleOut ==
    /\ Ev.e = "HandleOut"
    /\ inH' = inH \ {Ev.th}
    /\ snap' = Unhandled(returned \cap sysm)
    /\ UNCHANGED <<called, returned, sysm, hc, sendOrd, nextIdx, hold, budget, resumers, spun, bad>>

Spin ==
    /\ Ev.e = "Spin"
    /\ spun' = TRUE
    /\ Flag(TRUE, "NoSpin")
    /\ UNCHANGED <<called, returned, sysm, hc, inH, sendOrd, nextIdx, hold, budget, resumers, snap>>

\* everything has come to rest: nothing is running, no call in progress
Quiescent ==
    /\ Ev.e = "Quiescent"
    /\ bad' = IF bad # "" THEN bad
              ELSE IF inH # {} THEN "HandlerNeverReturned"
              ELSE IF Unhandled(returned \cap sysm) # {} THEN "NoLostWakeup.system"
              ELSE IF Ev.paused = 0 /\ Unhandled(returned) # {} THEN "NoLostWakeup.user"
              ELSE IF Ev.paused = 1 /\ Cardinality(Unhandled(returned \ sysm)) # Ev.ulen THEN "PausedMailAccounted"
              ELSE IF Ev.live # 0 THEN "ConsumerStillActive"
              ELSE ""
    /\ UNCHANGED <<called, returned, sysm, hc, inH, sendOrd, nextIdx, hold, budget, resumers, snap, spun>>

Next == /\ l <= Len(TLog)
        /\ l' = l + 1
        /\ \/ Reset \/ EnqCall \/ EnqRet \/ PauseCall \/ PauseRet \/ ResumeCall \/ ResumeRet
           \/ Start \/ HandleIn \/ HandleOut \/ Spin \/ Quiescent

Spec == Init /\ [][Next]_vars

\* the verdict: no rule was broken on any line
Ok == bad = ""
\* every line was consumed (every event is one of the known kinds)
Accepted == TLCGet("stats").diameter - 1 = Len(TLog)
=============================================================================
