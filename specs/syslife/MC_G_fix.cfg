SPECIFICATION FairSpec
CONSTANTS
  Callers <- G_Callers
  Script <- G_Script
  GuardianLocks = FALSE
  StartHoldsLock = TRUE
INVARIANTS StartOnce StopOnce CleanShutdown LockReleased
PROPERTY NeverHangs
CHECK_DEADLOCK FALSE
