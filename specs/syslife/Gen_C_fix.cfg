INIT GInit
NEXT GNext
CONSTANTS
  Callers <- C_Callers
  Script <- C_Script
  GuardianLocks = FALSE
  StartHoldsLock = TRUE
INVARIANT Emit
CHECK_DEADLOCK FALSE
