INIT GInit
NEXT GNext
CONSTANTS
  Callers <- D_Callers
  Script <- D_Script
  GuardianLocks = TRUE
  StartHoldsLock = FALSE
INVARIANT Emit
CHECK_DEADLOCK FALSE
