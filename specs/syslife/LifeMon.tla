------------------------------- MODULE LifeMon -------------------------------
(***************************************************************************)
(* Property monitor for C07, evaluated by TLC on call/return traces of the *)
(* real actor.System driven through the controlled scheduler.              *)
(*   e = "Reset" | "Call" | "Ret" | "Hang" | "Final"                       *)
(*   p process, op "start"|"stop"|"cancel", r result                        *)
(*   ("ok","already-started","already-stopped","not-started","stop-failed",*)
(*    "other"), Final: alive = actors still registered, gor = goroutines   *)
(*   of the system still present, pend = calls that never returned         *)
(***************************************************************************)
EXTENDS Integers, Sequences, FiniteSets, TLC, Json

TLog == ndJsonDeserialize("trace.ndjson")
VARIABLES l, startCalls, stopCalls, cancels, okStart, okStop, open, bad, failedStop, voidStops, startFailed
vars == <<l, startCalls, stopCalls, cancels, okStart, okStop, open, bad, failedStop, voidStops, startFailed>>

Fresh == startCalls = 0 /\ stopCalls = 0 /\ cancels = 0 /\ okStart = 0 /\ okStop = 0 /\ open = <<>> /\ failedStop = FALSE /\ voidStops = 0 /\ startFailed = FALSE
Init == l = 1 /\ Fresh /\ bad = ""
Ev == TLog[l]
Put(f, k, v) == [x \in DOMAIN f \cup {k} |-> IF x = k THEN v ELSE f[x]]

Reset == Ev.e = "Reset" /\ startCalls' = 0 /\ stopCalls' = 0 /\ cancels' = 0 /\ okStart' = 0 /\ okStop' = 0 /\ open' = <<>> /\ failedStop' = FALSE /\ voidStops' = 0 /\ startFailed' = FALSE /\ UNCHANGED bad

\* at call time remember what had already happened: decides which results are acceptable
Call ==
    /\ Ev.e = "Call"
    /\ open' = Put(open, Ev.p, [op |-> Ev.op, okStartBefore |-> okStart, okStopBefore |-> okStop,
                                 startsBefore |-> startCalls, stopsBefore |-> stopCalls, cancelsBefore |-> cancels])
    /\ startCalls' = startCalls + (IF Ev.op = "start" THEN 1 ELSE 0)
    /\ stopCalls' = stopCalls + (IF Ev.op = "stop" THEN 1 ELSE 0)
    /\ cancels' = cancels + (IF Ev.op = "cancel" THEN 1 ELSE 0)
    /\ UNCHANGED <<okStart, okStop, bad, failedStop, voidStops, startFailed>>

Ret ==
    /\ Ev.e = "Ret"
    /\ LET c == open[Ev.p]
           othersStart == startCalls - 1       \* start calls other than this one made so far
           \* stop calls other than this one that may have stopped the system: a Stop that was rejected because the system
           \* had not been started (voidStops) changed nothing and explains nothing
           othersStop == stopCalls - (IF Ev.op = "stop" THEN 1 ELSE 0) - voidStops
           \* a Start that fails in its first step (the scenario says so: fail = 1) leaves a stopped system behind; what the
           \* later calls answer is not judged, only that nothing hangs and nothing is left running
           verdict ==
             CASE Ev.op = "start" /\ Ev.r = "start-failed" -> IF Ev.fail = 1 THEN "" ELSE "Result.start"
               [] startFailed -> ""
               [] Ev.op = "start" /\ Ev.r = "ok" -> IF okStart >= 1 THEN "StartOnce" ELSE ""
               [] Ev.op = "start" /\ Ev.r = "already-started" -> IF othersStart = 0 THEN "Result.start" ELSE ""
               [] Ev.op = "start" /\ Ev.r = "already-stopped" -> IF othersStop = 0 /\ cancels = 0 THEN "Result.start" ELSE ""
               [] Ev.op = "start" -> "Result.start"
               [] Ev.op = "stop" /\ Ev.r = "ok" -> IF okStop >= 1 THEN "StopOnce" ELSE IF startCalls = 0 THEN "Result.stop" ELSE ""
               [] Ev.op = "stop" /\ Ev.r = "not-started" -> IF c.okStartBefore >= 1 THEN "Result.stop" ELSE ""
               [] Ev.op = "stop" /\ Ev.r = "already-stopped" -> IF othersStop = 0 /\ cancels = 0 THEN "Result.stop" ELSE ""
               \* the tree did not terminate within the time-out given: legitimate only if the scenario contains an actor
               \* that takes longer than that time-out to terminate (Ev.slow = 1)
               [] Ev.op = "stop" /\ Ev.r = "stop-failed" -> IF Ev.slow = 1 THEN "" ELSE "StopTerminatesWithinTimeout"
               [] Ev.op = "stop" -> "Result.stop." \o Ev.r
               [] OTHER -> ""
           \* sequential clauses: what was already complete when the call was made
           seq ==
             CASE Ev.op = "start" /\ c.okStopBefore >= 1 /\ Ev.r # "already-stopped" -> "AfterStop.start"
               [] Ev.op = "start" /\ c.okStartBefore >= 1 /\ Ev.r \notin {"already-started", "already-stopped"} -> "AfterStart.start"
               [] Ev.op = "stop" /\ c.okStopBefore >= 1 /\ Ev.r # "already-stopped" -> "AfterStop.stop"
               [] OTHER -> ""
       IN bad' = IF bad # "" THEN bad ELSE IF verdict # "" THEN verdict ELSE IF startFailed \/ Ev.r = "start-failed" THEN "" ELSE seq
    /\ okStart' = okStart + (IF Ev.op = "start" /\ Ev.r = "ok" THEN 1 ELSE 0)
    /\ okStop' = okStop + (IF Ev.op = "stop" /\ Ev.r = "ok" THEN 1 ELSE 0)
    /\ open' = [x \in DOMAIN open \ {Ev.p} |-> open[x]]
    /\ failedStop' = (failedStop \/ (Ev.op = "stop" /\ Ev.r = "stop-failed"))
    /\ voidStops' = voidStops + (IF Ev.op = "stop" /\ Ev.r = "not-started" THEN 1 ELSE 0)
    /\ startFailed' = (startFailed \/ (Ev.op = "start" /\ Ev.r = "start-failed"))
    /\ UNCHANGED <<startCalls, stopCalls, cancels>>

Hang == Ev.e = "Hang" /\ bad' = (IF bad = "" THEN "NeverHangs" ELSE bad) /\ UNCHANGED <<startCalls, stopCalls, cancels, okStart, okStop, open, failedStop, voidStops, startFailed>>
\* Stop returns within its time-out: the wait for the tree (alive = milliseconds spent, gor = time-out given, <= 0 means at once)
StopWaited == /\ Ev.e = "StopWaited"
              /\ bad' = IF bad = "" /\ Ev.alive > (IF Ev.gor > 0 THEN Ev.gor ELSE 0) + 400 THEN "StopWithinTimeout" ELSE bad
              /\ UNCHANGED <<startCalls, stopCalls, cancels, okStart, okStop, open, failedStop, voidStops, startFailed>>

\* Up alive gor: a system that was started and that nobody stopped or cancelled was observed at the end of the run:
\* alive = actors registered, gor = 1 if a job scheduled then was delivered
Up == /\ Ev.e = "Up"
      /\ bad' = IF bad # "" THEN bad
                ELSE IF okStart >= 1 /\ okStop = 0 /\ cancels = 0 /\ (Ev.alive = 0 \/ Ev.gor = 0) THEN "StartedSystemKeepsRunning"
                ELSE ""
      /\ UNCHANGED <<startCalls, stopCalls, cancels, okStart, okStop, open, failedStop, voidStops, startFailed>>

Final ==
    /\ Ev.e = "Final"
    /\ bad' = IF bad # "" THEN bad
              ELSE IF DOMAIN open # {} \/ Ev.pend > 0 THEN "NeverHangs"
              ELSE IF ~failedStop /\ okStart >= 1 /\ (okStop >= 1 \/ cancels >= 1) /\ Ev.alive > 0 THEN "StopTerminatesActors"
              ELSE IF ~failedStop /\ okStart >= 1 /\ (okStop >= 1 \/ cancels >= 1) /\ Ev.gor > 0 THEN "NoGoroutineLeft"
              ELSE IF startFailed /\ okStart = 0 /\ Ev.gor > 0 THEN "NoGoroutineLeft"
              ELSE ""
    /\ UNCHANGED <<startCalls, stopCalls, cancels, okStart, okStop, open, failedStop, voidStops, startFailed>>

Next == l <= Len(TLog) /\ l' = l + 1 /\ (Reset \/ Call \/ Ret \/ Hang \/ StopWaited \/ Up \/ Final)
Spec == Init /\ [][Next]_vars
Ok == bad = ""
Accepted == TLCGet("stats").diameter - 1 = Len(TLog)
=============================================================================
