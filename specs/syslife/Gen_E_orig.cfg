INIT GInit
NEXT GNext
CONSTANTS
  Callers <- E_Callers
  Script <- E_Script
  GuardianLocks = TRUE
  StartHoldsLock = FALSE
INVARIANT Emit
CHECK_DEADLOCK FALSE
