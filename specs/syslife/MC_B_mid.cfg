SPECIFICATION FairSpec
CONSTANTS
  Callers <- B_Callers
  Script <- B_Script
  GuardianLocks = FALSE
  StartHoldsLock = FALSE
INVARIANTS StartOnce StopOnce CleanShutdown LockReleased
PROPERTY NeverHangs
CHECK_DEADLOCK FALSE
