SPECIFICATION FairSpec
CONSTANTS
  Callers <- F_Callers
  Script <- F_Script
  GuardianLocks = FALSE
  StartHoldsLock = TRUE
INVARIANTS StartOnce StopOnce CleanShutdown LockReleased
PROPERTY NeverHangs
CHECK_DEADLOCK FALSE
