INIT GInit
NEXT GNext
CONSTANTS
  Callers <- A_Callers
  Script <- A_Script
  GuardianLocks = FALSE
  StartHoldsLock = TRUE
INVARIANT Emit
CHECK_DEADLOCK FALSE
