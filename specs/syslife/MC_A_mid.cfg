SPECIFICATION FairSpec
CONSTANTS
  Callers <- A_Callers
  Script <- A_Script
  GuardianLocks = FALSE
  StartHoldsLock = FALSE
INVARIANTS StartOnce StopOnce CleanShutdown LockReleased
PROPERTY NeverHangs
CHECK_DEADLOCK FALSE
