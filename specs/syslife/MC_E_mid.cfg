SPECIFICATION FairSpec
CONSTANTS
  Callers <- E_Callers
  Script <- E_Script
  GuardianLocks = FALSE
  StartHoldsLock = FALSE
INVARIANTS StartOnce StopOnce CleanShutdown LockReleased
PROPERTY NeverHangs
CHECK_DEADLOCK FALSE
