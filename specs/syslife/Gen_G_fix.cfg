INIT GInit
NEXT GNext
CONSTANTS
  Callers <- G_Callers
  Script <- G_Script
  GuardianLocks = FALSE
  StartHoldsLock = TRUE
INVARIANT Emit
CHECK_DEADLOCK FALSE
