INIT GInit
NEXT GNext
CONSTANTS
  Callers <- B_Callers
  Script <- B_Script
  GuardianLocks = TRUE
  StartHoldsLock = FALSE
INVARIANT Emit
CHECK_DEADLOCK FALSE
