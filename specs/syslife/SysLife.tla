------------------------------- MODULE SysLife -------------------------------
(***************************************************************************)
(* Start / Stop / context cancellation of internal/actor/system.go.        *)
(* One action per hook point `verifhook.At("sys....")`.                    *)
(*                                                                         *)
(* Processes: API callers executing a script over {"start","stop",         *)
(* "cancel"} and the guardian goroutine that Start launches (it waits for  *)
(* the context and then stops the system).  The actor tree is abstract:    *)
(* once the root has been poison-killed it terminates by itself            *)
(* (action RootDies, fair) - its correctness is C06's business.            *)
(*                                                                         *)
(* StartHoldsLock = TRUE is the repaired Start, which keeps statusLock     *)
(* until the start chain has created the root actor (one atomic step here);*)
(* FALSE is the original, where a Stop may slip in between the status      *)
(* change and the creation of the root and then skips the termination.     *)
(* GuardianLocks = TRUE is the original code: the guardian takes           *)
(* statusLock and then calls stop(), which takes it again (self-deadlock,  *)
(* after which every Start/Stop blocks for ever).  FALSE is the repaired   *)
(* code (fix: commit).                                                     *)
(***************************************************************************)
EXTENDS Integers, Sequences, FiniteSets, TLC

CONSTANTS Callers, Script, GuardianLocks, StartHoldsLock

G == "guardian"
Procs == Callers \cup {G}

VARIABLES status,       \* "ready" | "start" | "stop"
          lock,         \* "free" or the process holding statusLock across several steps (only the original guardian does)
          ctxNonNil,    \* System.Context (root actor) has been created by Start's chain
          cancelled,    \* the context has been cancelled
          rootKilled,   \* the poison kill has been sent to the root
          guardClosed,  \* the root has terminated (guardClosedSignal closed): every actor is gone
          schedStopped, \* scheduler.Stop() has run
          pc, rest,     \* per process: program counter and remaining script
          results       \* sequence of <<process, op, result>> in return order (history)

vars == <<status, lock, ctxNonNil, cancelled, rootKilled, guardClosed, schedStopped, pc, rest, results>>

FirstPc(op) == CASE op = "start" -> "start.lock" [] op = "stop" -> "stop.lock" [] op = "cancel" -> "cancel"

Init ==
    /\ status = "ready" /\ lock = "free" /\ ctxNonNil = FALSE /\ cancelled = FALSE
    /\ rootKilled = FALSE /\ guardClosed = FALSE /\ schedStopped = FALSE
    /\ rest = [p \in Procs |-> IF p \in Callers THEN Script[p] ELSE <<>>]
    /\ pc = [p \in Procs |-> IF p \in Callers THEN (IF Script[p] = <<>> THEN "done" ELSE FirstPc(Script[p][1])) ELSE "off"]
    /\ results = <<>>

\* the current operation of p returns r; p moves on to its next operation
Return(p, op, r) ==
    /\ results' = Append(results, <<p, op, r>>)
    /\ IF p = G
       THEN /\ pc' = [pc EXCEPT ![p] = "done"] /\ rest' = rest
       ELSE /\ rest' = [rest EXCEPT ![p] = Tail(@)]
            /\ pc' = [pc EXCEPT ![p] = IF Tail(rest[p]) = <<>> THEN "done" ELSE FirstPc(Tail(rest[p])[1])]

CanLock(p) == lock = "free" \/ (lock = p /\ FALSE)     \* sync.Mutex is not re-entrant

(* Start *)
StartLock(p) ==
    /\ pc[p] = "start.lock" /\ CanLock(p)
    /\ CASE status = "start" -> Return(p, "start", "already-started") /\ UNCHANGED status
         [] status = "stop"  -> Return(p, "start", "already-stopped") /\ UNCHANGED status
         [] OTHER -> /\ status' = "start"
                     /\ pc' = [pc EXCEPT ![p] = IF StartHoldsLock THEN "start.guardian" ELSE "start.chain"]
                     /\ UNCHANGED <<rest, results>>
    /\ ctxNonNil' = (ctxNonNil \/ (StartHoldsLock /\ status = "ready"))
    /\ UNCHANGED <<lock, cancelled, rootKilled, guardClosed, schedStopped>>

StartChain(p) ==       \* spawn the guard (root) actor, metrics, remoting, cluster
    /\ pc[p] = "start.chain"
    /\ ctxNonNil' = TRUE
    /\ pc' = [pc EXCEPT ![p] = "start.guardian"]
    /\ UNCHANGED <<status, lock, cancelled, rootKilled, guardClosed, schedStopped, rest, results>>

StartGuardian(p) ==    \* go func() { <-ctx.Done(); ... }()
    /\ pc[p] = "start.guardian"
    /\ results' = Append(results, <<p, "start", "ok">>)
    /\ rest' = [rest EXCEPT ![p] = Tail(@)]
    /\ pc' = [pc EXCEPT ![p] = IF Tail(rest[p]) = <<>> THEN "done" ELSE FirstPc(Tail(rest[p])[1]), ![G] = "g.wait"]
    /\ UNCHANGED <<status, lock, ctxNonNil, cancelled, rootKilled, guardClosed, schedStopped>>

(* stop(), called by Stop and by the guardian *)
StopLock(p) ==
    /\ pc[p] = "stop.lock" /\ (lock = "free")
    /\ CASE status = "ready" -> Return(p, "stop", "not-started") /\ UNCHANGED status
         [] status = "stop"  -> Return(p, "stop", "already-stopped") /\ UNCHANGED status
         [] OTHER -> /\ status' = "stop" /\ pc' = [pc EXCEPT ![p] = "stop.kill"] /\ UNCHANGED <<rest, results>>
    /\ UNCHANGED <<lock, ctxNonNil, cancelled, rootKilled, guardClosed, schedStopped>>

StopKill(p) ==         \* if s.Context != nil { Kill(root, poison); cancel(); wait } ; scheduler.Stop()
    /\ pc[p] = "stop.kill"
    /\ IF ctxNonNil
       THEN /\ rootKilled' = TRUE /\ cancelled' = TRUE
            /\ pc' = [pc EXCEPT ![p] = "stop.wait"]
       ELSE /\ pc' = [pc EXCEPT ![p] = "stop.sched"]
            /\ UNCHANGED <<rootKilled, cancelled>>
    /\ UNCHANGED <<status, lock, ctxNonNil, guardClosed, schedStopped, rest, results>>

StopWait(p) ==         \* <-guardClosedSignal (the time-out branch is not taken: the tree terminates)
    /\ pc[p] = "stop.wait" /\ guardClosed
    /\ pc' = [pc EXCEPT ![p] = "stop.sched"]
    /\ UNCHANGED <<status, lock, ctxNonNil, cancelled, rootKilled, guardClosed, schedStopped, rest, results>>

StopSched(p) ==
    /\ pc[p] = "stop.sched"
    /\ schedStopped' = TRUE
    /\ Return(p, "stop", "ok")
    /\ lock' = IF p = G /\ lock = G THEN "free" ELSE lock
    /\ UNCHANGED <<status, ctxNonNil, cancelled, rootKilled, guardClosed>>

(* cancelling the context the system was created with *)
Cancel(p) ==
    /\ pc[p] = "cancel"
    /\ cancelled' = TRUE
    /\ Return(p, "cancel", "ok")
    /\ UNCHANGED <<status, lock, ctxNonNil, rootKilled, guardClosed, schedStopped>>

(* the guardian *)
GWait ==
    /\ pc[G] = "g.wait" /\ cancelled
    /\ IF GuardianLocks
       THEN lock = "free" /\ lock' = G
       ELSE UNCHANGED lock
    /\ pc' = [pc EXCEPT ![G] = "stop.lock"]
    /\ UNCHANGED <<status, ctxNonNil, cancelled, rootKilled, guardClosed, schedStopped, rest, results>>

\* a guardian that finds the system already stopped releases the lock it may hold
GReturnUnlock ==
    /\ pc[G] = "done" /\ lock = G
    /\ lock' = "free"
    /\ UNCHANGED <<status, ctxNonNil, cancelled, rootKilled, guardClosed, schedStopped, pc, rest, results>>

(* the actor tree terminates after the poison kill *)
RootDies ==
    /\ rootKilled /\ ~guardClosed
    /\ guardClosed' = TRUE
    /\ UNCHANGED <<status, lock, ctxNonNil, cancelled, rootKilled, schedStopped, pc, rest, results>>

Step(p) == StartLock(p) \/ StartChain(p) \/ StartGuardian(p) \/ StopLock(p) \/ StopKill(p) \/ StopWait(p) \/ StopSched(p) \/ Cancel(p)

Next == (\E p \in Procs : Step(p)) \/ GWait \/ GReturnUnlock \/ RootDies

Spec == Init /\ [][Next]_vars /\ WF_vars(Next)
FairSpec == Init /\ [][Next]_vars /\ (\A p \in Procs : WF_vars(Step(p))) /\ WF_vars(GWait) /\ WF_vars(GReturnUnlock) /\ WF_vars(RootDies)

(**************************** properties ************************************)
Res(k) == results[k]
OkStarts == {k \in 1..Len(results) : Res(k)[2] = "start" /\ Res(k)[3] = "ok"}
\* Start succeeds at most once
StartOnce == Cardinality(OkStarts) <= 1
\* a Stop through the API completes the shutdown at most once
StopOnce == Cardinality({k \in 1..Len(results) : Res(k)[1] # G /\ Res(k)[2] = "stop" /\ Res(k)[3] = "ok"}) <= 1

CallersDone == \A p \in Callers : pc[p] = "done"
GuardianDone == pc[G] \in {"off", "done"}
Stopping == \E k \in 1..Len(results) : Res(k)[2] = "stop" /\ Res(k)[3] = "ok"
Started == OkStarts # {}

\* every call returns: the system never hangs (a process blocked for ever on statusLock violates this)
NeverHangs == <>[](CallersDone /\ (cancelled => GuardianDone))

\* once everything is at rest: a started system that was stopped or whose context was cancelled is really down
CleanShutdown ==
    (CallersDone /\ GuardianDone /\ Started /\ (Stopping \/ cancelled))
      => (status = "stop" /\ guardClosed /\ schedStopped)
\* at rest the lock is free
LockReleased == (CallersDone /\ GuardianDone) => lock = "free"
=============================================================================
