---------------------------- MODULE MC_SysLifeGen ----------------------------
EXTENDS MC_SysLife

VARIABLE hist
GInit == Init /\ hist = <<>>
Lbl(p) == [p |-> p, pc |-> pc[p]]
GNext == \/ \E p \in Procs : Step(p) /\ hist' = Append(hist, Lbl(p))
         \/ GWait /\ hist' = Append(hist, [p |-> G, pc |-> "g.wait"])
         \/ GReturnUnlock /\ hist' = hist
         \/ RootDies /\ hist' = Append(hist, [p |-> "env", pc |-> "rootdies"])
AtRest == ~ENABLED Next
Emit == AtRest => PrintT("BEHAV " \o ToJson([steps |-> hist, results |-> results]))
ASSUME PrintT("SCEN " \o ToJson([script |-> Script]))
=============================================================================
