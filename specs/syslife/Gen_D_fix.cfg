INIT GInit
NEXT GNext
CONSTANTS
  Callers <- D_Callers
  Script <- D_Script
  GuardianLocks = FALSE
  StartHoldsLock = TRUE
INVARIANT Emit
CHECK_DEADLOCK FALSE
