SPECIFICATION FairSpec
CONSTANTS
  Callers <- C_Callers
  Script <- C_Script
  GuardianLocks = FALSE
  StartHoldsLock = TRUE
INVARIANTS StartOnce StopOnce CleanShutdown LockReleased
PROPERTY NeverHangs
CHECK_DEADLOCK FALSE
