SPECIFICATION FairSpec
CONSTANTS
  Callers <- D_Callers
  Script <- D_Script
  GuardianLocks = FALSE
  StartHoldsLock = FALSE
INVARIANTS StartOnce StopOnce CleanShutdown LockReleased
PROPERTY NeverHangs
CHECK_DEADLOCK FALSE
