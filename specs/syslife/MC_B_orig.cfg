SPECIFICATION FairSpec
CONSTANTS
  Callers <- B_Callers
  Script <- B_Script
  GuardianLocks = TRUE
  StartHoldsLock = FALSE
INVARIANTS StartOnce StopOnce CleanShutdown LockReleased
PROPERTY NeverHangs
CHECK_DEADLOCK FALSE
