----------------------------- MODULE MC_SysLife -----------------------------
EXTENDS SysLife, Json

\* scripts: every sequence of length <= 2 over {start, stop, cancel} per caller would be large to list;
\* the configurations pick representative families
A_Callers == {"a"}
A_Script == [p \in A_Callers |-> <<"start", "stop", "start", "stop">>]

B_Callers == {"a", "b"}
B_Script == [p \in B_Callers |-> IF p = "a" THEN <<"start", "stop">> ELSE <<"stop", "start">>]

C_Callers == {"a", "b"}
C_Script == [p \in C_Callers |-> IF p = "a" THEN <<"start", "cancel">> ELSE <<"stop", "stop">>]

D_Callers == {"a", "b", "c"}
D_Script == [p \in D_Callers |-> CASE p = "a" -> <<"start", "stop">> [] p = "b" -> <<"start", "stop">> [] OTHER -> <<"cancel", "start">>]

E_Callers == {"a", "b"}
E_Script == [p \in E_Callers |-> IF p = "a" THEN <<"start", "cancel", "stop", "start">> ELSE <<"start", "stop">>]

\* a Stop that comes too early (rejected: not started) must leave the system fully usable: F ends stopped, G ends running
F_Callers == {"a"}
F_Script == [p \in F_Callers |-> <<"stop", "start", "stop">>]

G_Callers == {"a", "b"}
G_Script == [p \in G_Callers |-> IF p = "a" THEN <<"stop", "start">> ELSE <<"stop">>]

=============================================================================
