INIT GInit
NEXT GNext
CONSTANTS
  Callers <- A_Callers
  Script <- A_Script
  GuardianLocks = TRUE
  StartHoldsLock = FALSE
INVARIANT Emit
CHECK_DEADLOCK FALSE
