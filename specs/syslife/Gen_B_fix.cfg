INIT GInit
NEXT GNext
CONSTANTS
  Callers <- B_Callers
  Script <- B_Script
  GuardianLocks = FALSE
  StartHoldsLock = TRUE
INVARIANT Emit
CHECK_DEADLOCK FALSE
