INIT GInit
NEXT GNext
CONSTANTS
  Callers <- F_Callers
  Script <- F_Script
  GuardianLocks = FALSE
  StartHoldsLock = TRUE
INVARIANT Emit
CHECK_DEADLOCK FALSE
