INIT GInit
NEXT GNext
CONSTANTS
  Callers <- A_Callers
  Script <- A_Script
  GuardianLocks = FALSE
  StartHoldsLock = FALSE
INVARIANT Emit
CHECK_DEADLOCK FALSE
