INIT GInit
NEXT GNext
CONSTANTS
  Callers <- C_Callers
  Script <- C_Script
  GuardianLocks = FALSE
  StartHoldsLock = FALSE
INVARIANT Emit
CHECK_DEADLOCK FALSE
