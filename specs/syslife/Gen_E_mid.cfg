INIT GInit
NEXT GNext
CONSTANTS
  Callers <- E_Callers
  Script <- E_Script
  GuardianLocks = FALSE
  StartHoldsLock = FALSE
INVARIANT Emit
CHECK_DEADLOCK FALSE
