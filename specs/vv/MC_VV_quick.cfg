SPECIFICATION Spec
CONSTANTS
  Nodes = {"n1", "n2"}
  K = 4
  AllVectors = TRUE
INVARIANTS TypeOK Laws
CHECK_DEADLOCK FALSE
