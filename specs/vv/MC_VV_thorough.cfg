SPECIFICATION Spec
CONSTANTS
  Nodes = {"n1", "n2", "n3"}
  K = 3
  AllVectors = TRUE
INVARIANTS TypeOK Laws
CHECK_DEADLOCK FALSE
