---------------------------- MODULE VersionVector ----------------------------
(***************************************************************************)
(* Version vectors of internal/cluster/version_vector.go.                  *)
(*                                                                         *)
(* A vector is a function from node ids to a counter *rank* or Absent.     *)
(* Ranks are 0..K; the harness maps them order-preservingly to the real    *)
(* uint64 counters 0,1,2,...,MAX-1,MAX (TLC integers are 32 bit, the real  *)
(* maximum 2^63-1 is not representable).  Absent (no map entry) and an     *)
(* explicit 0 entry are different representations of the same vector.      *)
(*                                                                         *)
(* Two layers:                                                             *)
(*   *Def  – the mathematical definition the property speaks about         *)
(*           (product order, pointwise max);                               *)
(*   *Alg  – a transcription of what the Go code does (two-pass Compare    *)
(*           with the less/greater flags, Merge with its empty-operand     *)
(*           shortcuts and map copying, Increment via Clone, Prune).       *)
(* TLC checks Alg = Def and the lattice laws on every reachable tuple.     *)
(***************************************************************************)
EXTENDS Integers, FiniteSets, Sequences

CONSTANTS Nodes,   \* node ids
          K        \* highest rank; rank K stands for the maximum counter

Absent == -1
Ranks  == 0..K
Vec    == [Nodes -> Ranks \cup {Absent}]
Empty  == [n \in Nodes |-> Absent]

Present(v) == {n \in Nodes : v[n] # Absent}
Val(v, n)  == IF v[n] = Absent THEN 0 ELSE v[n]

(*************************** definitions ***********************************)
Leq(a, b) == \A n \in Nodes : Val(a, n) <= Val(b, n)
SemEq(a, b) == \A n \in Nodes : Val(a, n) = Val(b, n)

\* "EQ" equal, "LT" a before b, "GT" a after b, "CC" concurrent
CompareDef(a, b) ==
    CASE Leq(a, b) /\ Leq(b, a)   -> "EQ"
      [] Leq(a, b) /\ ~Leq(b, a)  -> "LT"
      [] ~Leq(a, b) /\ Leq(b, a)  -> "GT"
      [] OTHER                    -> "CC"

Max(x, y) == IF x >= y THEN x ELSE y
MergeDef(a, b) == [n \in Nodes |-> Max(Val(a, n), Val(b, n))]

(*************************** the algorithms of the code ********************)
\* Compare: first loop over the entries of v, second loop over the entries of
\* other that v does not have (v counts as 0 there).  The early returns do not
\* change the result, only the flags matter.
CompareAlg(v, o) ==
    LET less    == (\E n \in Present(v) : v[n] < Val(o, n))
                   \/ (\E n \in Present(o) \ Present(v) : 0 < o[n])
        greater == \E n \in Present(v) : v[n] > Val(o, n)
    IN  IF Present(v) = {} /\ Present(o) = {} THEN "EQ"
        ELSE CASE less /\ greater   -> "CC"
               [] less /\ ~greater  -> "LT"
               [] ~less /\ greater  -> "GT"
               [] OTHER             -> "EQ"

\* Merge: clone shortcuts for empty operands, otherwise copy v and take the
\* larger counter for every entry of other (presence = union of entries).
MergeAlg(v, o) ==
    IF Present(o) = {} THEN v
    ELSE IF Present(v) = {} THEN o
    ELSE [n \in Nodes |->
            IF n \in Present(o) /\ (n \notin Present(v) \/ o[n] > v[n]) THEN o[n] ELSE v[n]]

\* Increment: error at the maximum, otherwise clone and add one.
CanIncrement(v, n) == Val(v, n) < K
IncrementAlg(v, n) == [v EXCEPT ![n] = Val(v, n) + 1]

\* Prune to a set of active nodes (PruneWithMax with no effective maximum).
PruneAlg(v, act) == IF Present(v) = {} \/ act = {} THEN Empty
                    ELSE [n \in Nodes |-> IF n \in act THEN v[n] ELSE Absent]

\* Serialisation: sorted list of the present entries; reading rebuilds the map.
Write(v) == {<<n, v[n]>> : n \in Present(v)}
Read(es) == [n \in Nodes |-> IF \E e \in es : e[1] = n
                             THEN (CHOOSE e \in es : e[1] = n)[2] ELSE Absent]

(*************************** laws over a triple *****************************)
Conv(o) == CASE o = "LT" -> "GT" [] o = "GT" -> "LT" [] OTHER -> o

LawsAt(a, b, c) ==
    /\ CompareAlg(a, b) = CompareDef(a, b)                  \* transcription = definition
    /\ CompareAlg(a, a) = "EQ"                              \* reflexive
    /\ CompareAlg(b, a) = Conv(CompareAlg(a, b))            \* converse / symmetric concurrency
    /\ (CompareAlg(a, b) = "EQ" => SemEq(a, b))             \* antisymmetric
    /\ (CompareAlg(a, b) \in {"LT", "EQ"} /\ CompareAlg(b, c) \in {"LT", "EQ"}
          => CompareAlg(a, c) \in {"LT", "EQ"})             \* transitive
    /\ (CompareAlg(a, b) = "LT" /\ CompareAlg(b, c) \in {"LT", "EQ"} => CompareAlg(a, c) = "LT")
    /\ SemEq(MergeAlg(a, b), MergeDef(a, b))
    /\ SemEq(MergeAlg(a, b), MergeAlg(b, a))                \* commutative
    /\ SemEq(MergeAlg(MergeAlg(a, b), c), MergeAlg(a, MergeAlg(b, c)))  \* associative
    /\ SemEq(MergeAlg(a, a), a)                             \* idempotent
    /\ CompareAlg(a, MergeAlg(a, b)) \in {"LT", "EQ"}       \* upper bound
    /\ CompareAlg(b, MergeAlg(a, b)) \in {"LT", "EQ"}
    /\ (CompareAlg(a, c) \in {"LT", "EQ"} /\ CompareAlg(b, c) \in {"LT", "EQ"}
          => CompareAlg(MergeAlg(a, b), c) \in {"LT", "EQ"})  \* least
    /\ \A n \in Nodes : CanIncrement(a, n) => CompareAlg(IncrementAlg(a, n), a) = "GT"
    /\ Read(Write(a)) = a                                   \* survives serialisation
=============================================================================
