------------------------------- MODULE VVMon -------------------------------
(***************************************************************************)
(* Property monitor for C16, evaluated by TLC on tables that the harness   *)
(* filled by calling the REAL cluster.VersionVector on every vector of the *)
(* domain TLC generated (domain.json -> tables.json):                      *)
(*   cmp[i][j]    result of D[i].Compare(D[j])        ("EQ","LT","GT","CC")*)
(*   merge[i][j]  index in D of D[i].Merge(D[j]) (same entries, same       *)
(*                counters), 0 if the result is not a vector of the domain *)
(*   rt[i]        index in D of Read(Write(D[i])), 0 if outside / error    *)
(*   inc[i][p]    observations on D[i].Increment(node p) (wire: the result    *)
(*                survives Write/Read)                                        *)
(*   mergeWire[i][j]  Read(Write(D[i].Merge(D[j]))) equals the merge result   *)
(*   longIds      number of node-id lengths {1,17,255,256} whose vector does   *)
(*                not round-trip                                               *)
(*   mutated      number of operations after which an operand serialised   *)
(*                differently than before                                  *)
(* The laws below are stated on those tables only (plus the identity of    *)
(* the vectors), so they judge the implementation, not the model.          *)
(* The state machine merely spreads the (i,j) pairs over TLC's workers.    *)
(***************************************************************************)
EXTENDS Integers, Sequences, TLC, Json, FiniteSets

T == JsonDeserialize("tables.json")
N      == T.n
NodeSeq == T.nodes
K      == T.k
D      == T.vecs          \* D[i] is a record node -> rank (-1 = absent)
Cmp    == T.cmp
Mrg    == T.merge
Rt     == T.rt
Inc    == T.inc

NodesOf == {NodeSeq[p] : p \in 1..Len(NodeSeq)}
Val(v, n)  == IF v[n] = -1 THEN 0 ELSE v[n]
SemEq(a, b) == \A n \in NodesOf : Val(a, n) = Val(b, n)
Leq(a, b)  == \A n \in NodesOf : Val(a, n) <= Val(b, n)
CompareDef(a, b) ==
    CASE Leq(a, b) /\ Leq(b, a)   -> "EQ"
      [] Leq(a, b) /\ ~Leq(b, a)  -> "LT"
      [] ~Leq(a, b) /\ Leq(b, a)  -> "GT"
      [] OTHER                    -> "CC"
Conv(o) == CASE o = "LT" -> "GT" [] o = "GT" -> "LT" [] OTHER -> o
LE(o) == o \in {"LT", "EQ"}

VARIABLES i, j
Init == i \in 1..N /\ j = 0
Next == j = 0 /\ j' \in 1..N /\ UNCHANGED i
Spec == Init /\ [][Next]_<<i, j>>

\* ---- laws over single vectors (checked in the states with j = 0) --------
Reflexive      == j = 0 => Cmp[i][i] = "EQ"
MergeIdempotent == j = 0 => Mrg[i][i] # 0 /\ SemEq(D[Mrg[i][i]], D[i])
RoundTrip      == j = 0 => Rt[i] # 0 /\ SemEq(D[Rt[i]], D[i])
IncrementAfter == j = 0 => \A p \in 1..Len(NodeSeq) :
                     LET o == Inc[i][p] IN
                       IF Val(D[i], NodeSeq[p]) = K
                       THEN o.err                       \* at the maximum counter: an error, no vector
                       ELSE ~o.err /\ o.cmpNewOld = "GT" /\ o.cmpOldNew = "LT" /\ o.plusOne /\ o.othersSame
(* what an operation returns survives serialisation like any other vector: Read(Write(x.Increment(p))) and      *)
(* Read(Write(x.Merge(y))) are the vectors themselves (the operands come out of the reader, as received gossip does) *)
IncrementSurvivesWire == j = 0 => \A p \in 1..Len(NodeSeq) : Inc[i][p].err \/ Inc[i][p].wire
MergeSurvivesWire == j > 0 => T.mergeWire[i][j]
LongNodeIds == j = 0 => T.longIds = 0     \* node ids of 1, 17, 255 and 256 bytes (the longest legal one) round-trip
OperandsUntouched == j = 0 => T.mutated = 0
\* two disjoint vectors of 40 000 ids and a small third one: failed observations (union complete, upper bound, both orders equal)
LargeMerge == j = 0 => T.largeMerge = 0
\* vectors serialised from 48 goroutines at once: round trips that did not give back what was written
ConcurrentWire == j = 0 => T.concurrentWire = 0

\* ---- laws over pairs and (through k) triples ------------------------------
Converse       == j > 0 => Cmp[j][i] = Conv(Cmp[i][j])
Antisymmetric  == j > 0 => (Cmp[i][j] = "EQ" <=> SemEq(D[i], D[j]))
Transitive     == j > 0 => \A k \in 1..N :
                     /\ (LE(Cmp[i][j]) /\ LE(Cmp[j][k]) => LE(Cmp[i][k]))
                     /\ (Cmp[i][j] = "LT" /\ LE(Cmp[j][k]) => Cmp[i][k] = "LT")
                     /\ (LE(Cmp[i][j]) /\ Cmp[j][k] = "LT" => Cmp[i][k] = "LT")
MergeClosed    == j > 0 => Mrg[i][j] # 0
MergeCommutes  == j > 0 /\ Mrg[i][j] # 0 /\ Mrg[j][i] # 0 => SemEq(D[Mrg[i][j]], D[Mrg[j][i]])
MergeAssociative == j > 0 /\ Mrg[i][j] # 0 => \A k \in 1..N :
                     (Mrg[j][k] # 0 /\ Mrg[Mrg[i][j]][k] # 0 /\ Mrg[i][Mrg[j][k]] # 0)
                       => SemEq(D[Mrg[Mrg[i][j]][k]], D[Mrg[i][Mrg[j][k]]])
MergeUpperBound == j > 0 /\ Mrg[i][j] # 0 => LE(Cmp[i][Mrg[i][j]]) /\ LE(Cmp[j][Mrg[i][j]])
MergeLeast     == j > 0 /\ Mrg[i][j] # 0 => \A k \in 1..N :
                     (LE(Cmp[i][k]) /\ LE(Cmp[j][k])) => LE(Cmp[Mrg[i][j]][k])
\* the documented meaning of the four results (product order on the counters)
ProductOrder   == j > 0 => Cmp[i][j] = CompareDef(D[i], D[j])
=============================================================================
