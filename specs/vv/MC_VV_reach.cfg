SPECIFICATION Spec
CONSTANTS
  Nodes = {"n1", "n2", "n3"}
  K = 2
  AllVectors = FALSE
INVARIANTS TypeOK Laws
CHECK_DEADLOCK FALSE
