SPECIFICATION Spec
INVARIANTS
  Reflexive MergeIdempotent RoundTrip IncrementAfter OperandsUntouched IncrementSurvivesWire MergeSurvivesWire LongNodeIds LargeMerge ConcurrentWire
  Converse Antisymmetric Transitive MergeClosed MergeCommutes MergeAssociative
  MergeUpperBound MergeLeast ProductOrder
CHECK_DEADLOCK FALSE
