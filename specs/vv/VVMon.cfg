SPECIFICATION Spec
INVARIANTS
  Reflexive MergeIdempotent RoundTrip IncrementAfter OperandsUntouched
  Converse Antisymmetric Transitive MergeClosed MergeCommutes MergeAssociative
  MergeUpperBound MergeLeast ProductOrder
CHECK_DEADLOCK FALSE
