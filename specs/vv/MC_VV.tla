------------------------------- MODULE MC_VV -------------------------------
(***************************************************************************)
(* Three vectors evolving by the operations of the API.  The lattice laws  *)
(* are invariants over every reachable triple.  With AllVectors = TRUE the *)
(* steps may also set any entry to any rank, so the reachable set is the   *)
(* full domain Vec^3 (generated through Next, i.e. in parallel).           *)
(***************************************************************************)
EXTENDS VersionVector, TLC, Json, SequencesExt

CONSTANT AllVectors
VARIABLES a, b, c
vars == <<a, b, c>>

Init == a = Empty /\ b = Empty /\ c = Empty

Step(x, y, z) ==    \* new value for x, given the two others
    \/ \E n \in Nodes : CanIncrement(x, n) /\ x' = IncrementAlg(x, n)
    \/ x' = MergeAlg(x, y)
    \/ x' = MergeAlg(x, z)
    \/ \E act \in SUBSET Nodes : x' = PruneAlg(x, act)
    \/ \E n \in Nodes : x[n] = Absent /\ x' = [x EXCEPT ![n] = 0]   \* explicit zero (only reachable by deserialisation)
    \/ AllVectors /\ \E n \in Nodes, r \in Ranks \cup {Absent} : x' = [x EXCEPT ![n] = r]

Next == \/ Step(a, b, c) /\ UNCHANGED <<b, c>>
        \/ Step(b, a, c) /\ UNCHANGED <<a, c>>
        \/ Step(c, a, b) /\ UNCHANGED <<a, b>>

Spec == Init /\ [][Next]_vars

TypeOK == a \in Vec /\ b \in Vec /\ c \in Vec
Laws   == LawsAt(a, b, c)

\* The domain the harness evaluates with the real VersionVector: written once.
Domain == SetToSeq(Vec)
ASSUME JsonSerialize("domain.json", [nodes |-> SetToSeq(Nodes), k |-> K,
         vecs |-> [i \in 1..Len(Domain) |-> [n \in Nodes |-> Domain[i][n]]]])
=============================================================================
