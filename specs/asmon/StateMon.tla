------------------------------ MODULE StateMon ------------------------------
(* C08, "Resume lets the actor continue with its state intact", for the part *)
(* of an actor's state that the library keeps for it: the jobs of its own     *)
(* scheduler.  An actor that started a Loop job and has not cancelled it, has *)
(* not been restarted and has not been killed still owns the job at every     *)
(* quiescent point - whatever failures were answered with Resume in between.  *)
(* Trace alphabet: see FateMon (Sched a s, SchedCancel a, Consult a p d s,    *)
(* Hook a, Deliv a k, AState a s d = number of jobs the actor remembers).     *)
EXTENDS Integers, Sequences, FiniteSets, TLC, Json
VARIABLES l, bad, loops, parent, aimed, stopLike, targets, killedEv, phase
TLog == ndJsonDeserialize("trace.ndjson")
Ev == TLog[l]
Get(f, k, d) == IF k \in DOMAIN f THEN f[k] ELSE d
Put(f, k, v) == [x \in DOMAIN f \cup {k} |-> IF x = k THEN v ELSE f[x]]
Flag(rule) == IF bad = "" THEN rule ELSE bad
vars == <<l, bad, loops, parent, aimed, stopLike, targets, killedEv, phase>>
Init == l = 1 /\ bad = "" /\ loops = {} /\ parent = <<>> /\ aimed = {} /\ stopLike = FALSE /\ targets = {} /\ killedEv = {} /\ phase = ""
RECURSIVE Anc(_, _)
Anc(par, x) == IF x \notin DOMAIN par \/ par[x] = "root" THEN {} ELSE {par[x]} \cup Anc(par, par[x])

OnReset == /\ Ev.e = "Reset" /\ loops' = {} /\ parent' = <<>> /\ aimed' = {} /\ stopLike' = FALSE /\ targets' = {} /\ killedEv' = {} /\ phase' = ""
           /\ UNCHANGED bad
OnSpawn == Ev.e = "Spawn" /\ parent' = Put(parent, Ev.a, Ev.p) /\ UNCHANGED <<bad, loops, aimed, stopLike, targets, killedEv, phase>>
OnSched == Ev.e = "Sched" /\ loops' = (IF Ev.s = "sched-loop" THEN loops \cup {Ev.a} ELSE loops) /\ UNCHANGED <<bad, parent, aimed, stopLike, targets, killedEv, phase>>
OnCancel == Ev.e = "SchedCancel" /\ loops' = loops \ {Ev.a} /\ UNCHANGED <<bad, parent, aimed, stopLike, targets, killedEv, phase>>
\* a decision other than Resume may restart or stop actors: forget their jobs (Escalate itself touches nobody: the decision
\* at the end of the chain does).  Restart decisions name their targets: the failing child (one-for-one) or every child of
\* the supervisor (one-for-all).  Stop decisions, and escalations (which may end in the default Stop), end the part of the
\* monitor that speaks about who may terminate
OnConsult == /\ Ev.e = "Consult"
             /\ loops' = (IF Ev.d \in {"resume", "escalate"} THEN loops ELSE {})
             /\ targets' = IF Ev.d \in {"restart", "grestart"}
                            THEN targets \cup (IF Ev.s = "ofa" THEN {c \in DOMAIN parent : parent[c] = Ev.a} ELSE {Ev.p})
                            ELSE targets
             /\ stopLike' = (stopLike \/ Ev.d \in {"stop", "gstop", "escalate"})
             /\ UNCHANGED <<bad, parent, aimed, killedEv, phase>>
\* a failure of a top-level actor is decided by the system's default (Stop), which the trace does not show;
\* a failing restart hook makes a zombie, which is released by its parent's termination only
OnFail == /\ Ev.e = "Fail" /\ stopLike' = (stopLike \/ Get(parent, Ev.a, "root") = "root")
          /\ UNCHANGED <<bad, loops, parent, aimed, targets, killedEv, phase>>
OnHook == /\ Ev.e = "Hook" /\ loops' = loops \ {Ev.a} /\ stopLike' = (stopLike \/ Ev.v = 0)
          /\ UNCHANGED <<bad, parent, aimed, targets, killedEv, phase>>
\* an immediate kill may reach the actor at any moment; a poison kill is handled after the mail sent before it
OnKill == /\ Ev.e = "KillCall" /\ loops' = (IF Ev.v = 1 THEN loops ELSE {}) /\ aimed' = aimed \cup {Ev.a}
          /\ UNCHANGED <<bad, parent, stopLike, targets, killedEv, phase>>
OnDeliv == /\ Ev.e = "Deliv" /\ loops' = (IF Ev.k \in {"kill", "killed", "launch"} THEN loops \ {Ev.a} ELSE loops)
           /\ UNCHANGED <<bad, parent, aimed, stopLike, targets, killedEv, phase>>
OnEvKilled == Ev.e = "EvKilled" /\ killedEv' = killedEv \cup {Ev.a} /\ UNCHANGED <<bad, loops, parent, aimed, stopLike, targets, phase>>
OnAState == /\ Ev.e = "AState"
            /\ bad' = IF Ev.a \in loops /\ Ev.s = "running" /\ Ev.d = "0" THEN Flag("ResumeKeepsScheduledJobs") ELSE bad
            /\ UNCHANGED <<loops, parent, aimed, stopLike, targets, killedEv, phase>>
\* Jobs a v: inside a turn the actor asked its scheduler whether the job exists (v = 1) or not
OnJobs == /\ Ev.e = "Jobs"
          /\ bad' = IF Ev.a \in loops /\ Ev.v = 0 THEN Flag("ResumeKeepsScheduledJobs") ELSE bad
          /\ UNCHANGED <<loops, parent, aimed, stopLike, targets, killedEv, phase>>
OnQBegin == Ev.e = "QBegin" /\ phase' = Ev.s /\ UNCHANGED <<bad, loops, parent, aimed, stopLike, targets, killedEv>>
\* "Restart keeps the reference": as long as nothing but Restart and Resume was ever decided, the only actors that terminate
\* are those a Kill was aimed at with their subtrees, and the descendants of restarted actors (children do not follow a
\* restart) - never a restart target itself
OnQEnd == /\ Ev.e = "QEnd"
          /\ LET allowed == {x \in DOMAIN parent : x \in aimed \/ Anc(parent, x) \cap (aimed \cup targets) # {}}
                 lost == (targets \cap killedEv) \ allowed
             IN bad' = IF phase \in {"rest", "probed"} /\ ~stopLike /\ lost # {} THEN Flag("RestartKeepsTheReference") ELSE bad
          /\ UNCHANGED <<loops, parent, aimed, stopLike, targets, killedEv, phase>>
OnOther == Ev.e \notin {"Reset", "Spawn", "Sched", "SchedCancel", "Consult", "Fail", "Hook", "KillCall", "Deliv", "EvKilled", "AState", "Jobs", "QBegin", "QEnd"}
           /\ UNCHANGED <<bad, loops, parent, aimed, stopLike, targets, killedEv, phase>>
Next == l <= Len(TLog) /\ l' = l + 1 /\ (OnReset \/ OnSpawn \/ OnSched \/ OnCancel \/ OnConsult \/ OnFail \/ OnHook \/ OnKill \/ OnDeliv \/ OnEvKilled
                                         \/ OnAState \/ OnJobs \/ OnQBegin \/ OnQEnd \/ OnOther)
Spec == Init /\ [][Next]_vars
Ok == bad = ""
Accepted == TLCGet("stats").diameter - 1 = Len(TLog)
=============================================================================
