------------------------------ MODULE LifecycleMon ------------------------------
(* C05: per incarnation OnLaunch first, own OnKilled last, OnKill before it;  *)
(* a restart starts a new incarnation with an OnLaunch delivered to the       *)
(* restarted actor itself and (with a provider) a fresh instance.             *)
EXTENDS Integers, Sequences, FiniteSets, TLC, Json
VARIABLES l, bad, phase, awaitLaunch, lastInst, newInst, zombies, depth, noSuch

(***************************************************************************)
(* Trace alphabet (one JSON object per line, totally ordered by the turn   *)
(* controller; recorded by the scripted behaviours, the driver and an      *)
(* event-stream observer actor of the real system):                        *)
(*  Spawn a p | Tell a p(from) m s(op) | KillCall a p v(poison) | Turn a | *)
(*  Deliv a k m p i(instance) s | Fail a k m | Consult a p d s(strategy) n |*)
(*  Hook a k v(ok) | Stashed a m n | Unstashed a n v | Watch a p |         *)
(*  Sub a s | Unsub a s | UnsubAll a | Pub a m s | DL k m a |              *)
(*  EvKilled a | EvRestarted a | EvFailed a | EvLaunched a |               *)
(*  QBegin s | AState a s v(paused) n(stash) m(user queue) | QEnd |        *)
(*  Find a v | Stopped v n | End | Reset                                   *)
(***************************************************************************)
TLog == ndJsonDeserialize("trace.ndjson")
Ev == TLog[l]
Get(f, k, d) == IF k \in DOMAIN f THEN f[k] ELSE d
Put(f, k, v) == [x \in DOMAIN f \cup {k} |-> IF x = k THEN v ELSE f[x]]
Flag(rule) == IF bad = "" THEN rule ELSE bad
Range(s) == {s[i] : i \in 1..Len(s)}
vars == <<l, bad, phase, awaitLaunch, lastInst, newInst, zombies, depth, noSuch>>
Fresh == phase = <<>> /\ awaitLaunch = {} /\ lastInst = <<>> /\ newInst = {} /\ zombies = {} /\ depth = <<>> /\ noSuch = {}
FreshNext == phase' = <<>> /\ awaitLaunch' = {} /\ lastInst' = <<>> /\ newInst' = {} /\ zombies' = {} /\ depth' = <<>> /\ noSuch' = {}
Init == l = 1 /\ bad = "" /\ Fresh
OnDeliv ==
    /\ (Ev.e = "Deliv")
    /\ LET a == Ev.a ph == Get(phase, a, "none") IN
       /\ phase' = Put(phase, a, IF Ev.k = "launch" THEN "up" ELSE IF Ev.k = "killed" THEN "dead" ELSE ph)
       /\ awaitLaunch' = IF Ev.k = "launch" THEN awaitLaunch \ {a} ELSE awaitLaunch
       /\ lastInst' = Put(lastInst, a, Ev.i)
       /\ newInst' = newInst \ {a}
       /\ bad' = IF Ev.k = "launch" /\ ph = "up" THEN Flag("LaunchOnlyToItself")
                  ELSE IF Ev.k = "launch" /\ ph = "dead" THEN Flag("LaunchAfterKilled")
                  ELSE IF Ev.k # "launch" /\ ph = "none" THEN Flag("LaunchFirst")
                  ELSE IF Ev.k # "launch" /\ ph = "dead" THEN Flag("NothingAfterOwnKilled")
                  ELSE IF a \in newInst /\ Ev.i = Get(lastInst, a, -1) THEN Flag("ProviderGivesFreshInstance")
                  ELSE IF Ev.i < Get(lastInst, a, 0) THEN Flag("OnlyTheNewestInstanceHandlesMessages")
                  ELSE IF a \in noSuch THEN Flag("FailedSpawnReceivesNothing")
                  ELSE IF Ev.k = "user" /\ Ev.n # Get(depth, a, 0) THEN Flag("BehaviourStackFollowsBecomeAndRestart")
                  ELSE bad
    /\ UNCHANGED <<zombies, depth, noSuch>>
OnHook ==
    /\ (Ev.e = "Hook") /\ Ev.k # "prelaunch-spawn"
    /\ IF Ev.k = "restarted"
       THEN /\ bad' = IF Get(phase, Ev.a, "none") # "dead" THEN Flag("RestartBeforeOwnKilled") ELSE bad
            /\ phase' = Put(phase, Ev.a, "none")
            /\ awaitLaunch' = IF Ev.v = 1 THEN awaitLaunch \cup {Ev.a} ELSE awaitLaunch
            /\ newInst' = newInst \cup {Ev.a}
            /\ zombies' = IF Ev.v = 0 THEN zombies \cup {Ev.a} ELSE zombies
            /\ depth' = Put(depth, Ev.a, 0)            \* a new incarnation starts with the actor's OnReceive alone
       ELSE /\ zombies' = IF Ev.v = 0 /\ Ev.k = "prelaunch" THEN zombies \cup {Ev.a} ELSE zombies
            /\ awaitLaunch' = IF Ev.v = 0 /\ Ev.k = "prelaunch" THEN awaitLaunch \ {Ev.a} ELSE awaitLaunch
            /\ UNCHANGED <<bad, phase, newInst, depth, noSuch>>
    /\ UNCHANGED <<lastInst, noSuch>>
(* Become a n: the actor's script called Become / UnBecome (stacking or discarding); n = label of the behaviour that *)
(* is on top afterwards (0 = the actor's own OnReceive)                                                            *)
OnBecome == /\ Ev.e = "Become" /\ depth' = Put(depth, Ev.a, Ev.n)
            /\ UNCHANGED <<bad, phase, awaitLaunch, lastInst, newInst, zombies, noSuch>>
(* Hook a prelaunch-spawn v=0: a's OnPrelaunch returned an error at its first spawn; SpawnErr a: ActorOf returned an *)
(* error for a.  Either way the actor never exists.                                                                 *)
OnSpawnErr == /\ (Ev.e = "SpawnErr" \/ (Ev.e = "Hook" /\ Ev.k = "prelaunch-spawn" /\ Ev.v = 0)) /\ noSuch' = noSuch \cup {Ev.a}
              /\ UNCHANGED <<bad, phase, awaitLaunch, lastInst, newInst, zombies, depth>>
OnFindNoSuch == /\ Ev.e = "Find" /\ bad' = (IF Ev.v = 1 /\ Ev.a \in noSuch THEN Flag("FailedSpawnLeavesNoActor") ELSE bad)
                /\ UNCHANGED <<phase, awaitLaunch, lastInst, newInst, zombies, depth, noSuch>>
OnQEnd ==
    /\ (Ev.e = "QEnd")
    /\ bad' = IF awaitLaunch \ zombies # {} THEN Flag("RestartedWithoutLaunch") ELSE bad
    /\ UNCHANGED <<phase, awaitLaunch, lastInst, newInst, zombies, depth, noSuch>>
OnEvKilled ==
    /\ (Ev.e = "EvKilled")
    /\ awaitLaunch' = awaitLaunch \ {Ev.a}
    /\ UNCHANGED <<bad, phase, lastInst, newInst, zombies, depth, noSuch>>
OnReset == Ev.e = "Reset" /\ FreshNext /\ UNCHANGED bad
OnOther == Ev.e \notin {"Deliv", "Hook", "QEnd", "EvKilled", "Reset", "Become", "SpawnErr", "Find"} /\ UNCHANGED <<bad, phase, awaitLaunch, lastInst, newInst, zombies, depth, noSuch>>
Next == l <= Len(TLog) /\ l' = l + 1 /\ (OnDeliv \/ OnBecome \/ OnSpawnErr \/ OnFindNoSuch \/ OnHook \/ OnQEnd \/ OnEvKilled \/ OnReset \/ OnOther)
Spec == Init /\ [][Next]_vars

Ok == bad = ""
Accepted == TLCGet("stats").diameter - 1 = Len(TLog)
=============================================================================
