------------------------------ MODULE OrderMon ------------------------------
(* C02 (actor level): messages to one actor are processed in the order they  *)
(* were sent, an immediate kill overtakes queued user messages, a poison kill *)
(* is processed only after every user message enqueued before it, stashed     *)
(* messages come back in stash order.  Trace alphabet: see FateMon.           *)
EXTENDS Integers, Sequences, FiniteSets, TLC, Json
VARIABLES l, bad, last, requeued, reqSeq, stash, pendingImm, parent, dirty, kcalls, prior, delivered, fromOf
TLog == ndJsonDeserialize("trace.ndjson")
Ev == TLog[l]
Get(f, k, d) == IF k \in DOMAIN f THEN f[k] ELSE d
Put(f, k, v) == [x \in DOMAIN f \cup {k} |-> IF x = k THEN v ELSE f[x]]
Flag(rule) == IF bad = "" THEN rule ELSE bad
vars == <<l, bad, last, requeued, reqSeq, stash, pendingImm, parent, dirty, kcalls, prior, delivered, fromOf>>

Fresh == /\ last = <<>> /\ requeued = {} /\ reqSeq = <<>> /\ stash = <<>> /\ pendingImm = {} /\ parent = <<>>
         /\ dirty = {} /\ kcalls = <<>> /\ prior = <<>> /\ delivered = {} /\ fromOf = <<>>
Init == l = 1 /\ bad = "" /\ Fresh

RECURSIVE Anc(_, _)
Anc(par, x) == IF x \notin DOMAIN par \/ par[x] = "root" THEN {} ELSE {par[x]} \cup Anc(par, par[x])
Subtree(par, x) == {x} \cup {d \in DOMAIN par : x \in Anc(par, d)}

OnReset == /\ Ev.e = "Reset"
           /\ last' = <<>> /\ requeued' = {} /\ reqSeq' = <<>> /\ stash' = <<>> /\ pendingImm' = {} /\ parent' = <<>>
           /\ dirty' = {} /\ kcalls' = <<>> /\ prior' = <<>> /\ delivered' = {} /\ fromOf' = <<>>
           /\ UNCHANGED bad
OnSpawn == /\ Ev.e = "Spawn" /\ parent' = Put(parent, Ev.a, Ev.p)
           /\ UNCHANGED <<bad, last, requeued, reqSeq, stash, pendingImm, dirty, kcalls, prior, delivered, fromOf>>
\* (a message handed to the actor's own scheduler is "sent" when the timer fires, which the trace does not show: it is
\* left out of the bookkeeping of what was told before a kill)
OnTell == /\ Ev.e = "Tell" /\ fromOf' = (IF Ev.s = "sstash" THEN fromOf ELSE Put(fromOf, Ev.m, <<Ev.p, Ev.a>>))
          /\ UNCHANGED <<bad, last, requeued, reqSeq, stash, pendingImm, parent, dirty, kcalls, prior, delivered>>
\* a failure makes the whole subtree "dirty": supervision may kill or restart it in ways the poison rule does not speak about
\* a failure anywhere may lead to kills and restarts by supervision that the poison rule does not speak about:
\* the rule is evaluated on traces without failures ("*" marks that a failure happened)
OnFail == /\ Ev.e = "Fail" /\ dirty' = dirty \cup {"*"}
          /\ UNCHANGED <<bad, last, requeued, reqSeq, stash, pendingImm, parent, kcalls, prior, delivered, fromOf>>
OnKillCall ==
    /\ Ev.e = "KillCall"
    /\ kcalls' = Put(kcalls, Ev.a, Get(kcalls, Ev.a, 0) + 1)
    /\ pendingImm' = IF Ev.v = 0 THEN pendingImm \cup {Ev.a} ELSE pendingImm
    \* a kill aimed at x reaches the whole subtree below it through other kill messages ("!x": x was aimed at)
    /\ dirty' = dirty \cup {"!" \o Ev.a}
    \* the user messages told to x before this poison kill and not yet delivered
    \* (a poison kill is passed on to the descendants as a poison kill: what they were told before counts for them too)
    /\ prior' = IF Ev.v = 1
                THEN [d \in DOMAIN prior \cup Subtree(parent, Ev.a) |->
                        IF d \in DOMAIN prior THEN prior[d] ELSE {m \in DOMAIN fromOf : fromOf[m][2] = d /\ m \notin delivered}]
                ELSE prior
    /\ UNCHANGED <<bad, last, requeued, reqSeq, stash, parent, delivered, fromOf>>
OnStashed == /\ Ev.e = "Stashed" /\ stash' = Put(stash, Ev.a, Append(Get(stash, Ev.a, <<>>), Ev.m))
             /\ UNCHANGED <<bad, last, requeued, reqSeq, pendingImm, parent, dirty, kcalls, prior, delivered, fromOf>>
OnUnstashed ==
    /\ Ev.e = "Unstashed"
    /\ LET s == Get(stash, Ev.a, <<>>) n == IF Ev.n <= Len(s) THEN Ev.n ELSE Len(s) IN
         /\ requeued' = requeued \cup {s[i] : i \in 1..n}
         /\ reqSeq' = Put(reqSeq, Ev.a, Get(reqSeq, Ev.a, <<>>) \o SubSeq(s, 1, n))
         /\ stash' = Put(stash, Ev.a, SubSeq(s, n + 1, Len(s)))
    /\ UNCHANGED <<bad, last, pendingImm, parent, dirty, kcalls, prior, delivered, fromOf>>
OnDeliv ==
    /\ Ev.e = "Deliv"
    /\ LET a == Ev.a
           isMsg == Ev.k \in {"user", "event"}
           isReq == Ev.k = "user" /\ Ev.m \in requeued
           rs == Get(reqSeq, a, <<>>)
           cleanPoison == /\ Ev.k = "kill" /\ Ev.v = 1 /\ "*" \notin dirty /\ a \notin dirty
                          /\ \A y \in Anc(parent, a) : ("!" \o y) \notin dirty
                          /\ Get(kcalls, a, 0) = 1 /\ a \in DOMAIN prior
           \* the poison kill that reaches a through exactly one poison-killed ancestor (nobody else was ever aimed at)
           aimedAnc == {y \in Anc(parent, a) : ("!" \o y) \in dirty}
           cleanProp == /\ Ev.k = "kill" /\ Ev.v = 1 /\ "*" \notin dirty /\ a \notin dirty /\ ("!" \o a) \notin dirty
                        /\ Get(kcalls, a, 0) = 0 /\ a \in DOMAIN prior
                        /\ Cardinality(aimedAnc) = 1 /\ \A y \in aimedAnc : Get(kcalls, y, 0) = 1 /\ y \in DOMAIN prior
       IN /\ last' = IF Ev.k = "user" /\ ~isReq THEN Put(last, a, Ev.m) ELSE last
          /\ requeued' = IF isReq THEN requeued \ {Ev.m} ELSE requeued
          /\ reqSeq' = IF isReq /\ rs # <<>> THEN Put(reqSeq, a, Tail(rs)) ELSE reqSeq
          /\ delivered' = IF Ev.k = "user" THEN delivered \cup {Ev.m} ELSE delivered
          /\ pendingImm' = IF Ev.k \in {"kill", "killed"} THEN pendingImm \ {a} ELSE pendingImm
          /\ bad' = IF isMsg /\ a \in pendingImm THEN Flag("ImmediateKillOvertakes")
                     ELSE IF Ev.k = "user" /\ ~isReq /\ Ev.s # "sstash" /\ Ev.m < Get(last, a, 0) THEN Flag("SendOrder")
                     ELSE IF isReq /\ (rs = <<>> \/ Head(rs) # Ev.m) THEN Flag("StashOrder")
                     ELSE IF (cleanPoison \/ cleanProp) /\ prior[a] \ delivered # {} THEN Flag("PoisonKillAfterPrior")
                     ELSE bad
    /\ UNCHANGED <<stash, parent, dirty, kcalls, prior, fromOf>>
OnEvKilled == /\ Ev.e = "EvKilled" /\ pendingImm' = pendingImm \ {Ev.a}
              /\ UNCHANGED <<bad, last, requeued, reqSeq, stash, parent, dirty, kcalls, prior, delivered, fromOf>>
\* a restart hook marks a new incarnation: what was pending for the old one is moot
OnHook == /\ Ev.e = "Hook" /\ dirty' = dirty \cup {Ev.a}
          /\ UNCHANGED <<bad, last, requeued, reqSeq, stash, pendingImm, parent, kcalls, prior, delivered, fromOf>>
\* at rest: what Unstash gave back to a running, unpaused actor whose mailbox is empty has been delivered ("each exactly once")
OnAState == /\ Ev.e = "AState"
            /\ bad' = IF Ev.s = "running" /\ Ev.v = 0 /\ Ev.m = 0 /\ Get(reqSeq, Ev.a, <<>>) # <<>> THEN Flag("StashedComeBackExactlyOnce") ELSE bad
            /\ UNCHANGED <<last, requeued, reqSeq, stash, pendingImm, parent, dirty, kcalls, prior, delivered, fromOf>>
OnOther == /\ Ev.e \notin {"Reset", "Spawn", "Tell", "Fail", "KillCall", "Stashed", "Unstashed", "Deliv", "EvKilled", "Hook", "AState"}
           /\ UNCHANGED <<bad, last, requeued, reqSeq, stash, pendingImm, parent, dirty, kcalls, prior, delivered, fromOf>>
Next == l <= Len(TLog) /\ l' = l + 1 /\ (OnReset \/ OnSpawn \/ OnTell \/ OnFail \/ OnKillCall \/ OnStashed \/ OnUnstashed \/ OnDeliv \/ OnEvKilled \/ OnHook \/ OnAState \/ OnOther)
Spec == Init /\ [][Next]_vars
Ok == bad = ""
Accepted == TLCGet("stats").diameter - 1 = Len(TLog)
=============================================================================
