------------------------------ MODULE StreamMon ------------------------------
(* C19: an event goes exactly once to exactly the actors subscribed to its    *)
(* type at publication time, in publication order per publisher; a terminated  *)
(* or unsubscribed actor gets nothing; a restart keeps subscriptions.          *)
EXTENDS Integers, Sequences, FiniteSets, TLC, Json
VARIABLES l, bad, subs, expect, got, ptype, pubBy, lastFrom, dead, dl, zombies

(***************************************************************************)
(* Trace alphabet (one JSON object per line, totally ordered by the turn   *)
(* controller; recorded by the scripted behaviours, the driver and an      *)
(* event-stream observer actor of the real system):                        *)
(*  Spawn a p | Tell a p(from) m s(op) | KillCall a p v(poison) | Turn a | *)
(*  Deliv a k m p i(instance) s | Fail a k m | Consult a p d s(strategy) n |*)
(*  Hook a k v(ok) | Stashed a m n | Unstashed a n v | Watch a p |         *)
(*  Sub a s | Unsub a s | UnsubAll a | Pub a m s | DL k m a |              *)
(*  EvKilled a | EvRestarted a | EvFailed a | EvLaunched a |               *)
(*  QBegin s | AState a s v(paused) n(stash) m(user queue) | QEnd |        *)
(*  Find a v | Stopped v n | End | Reset                                   *)
(***************************************************************************)
TLog == ndJsonDeserialize("trace.ndjson")
Ev == TLog[l]
Get(f, k, d) == IF k \in DOMAIN f THEN f[k] ELSE d
Put(f, k, v) == [x \in DOMAIN f \cup {k} |-> IF x = k THEN v ELSE f[x]]
Flag(rule) == IF bad = "" THEN rule ELSE bad
Range(s) == {s[i] : i \in 1..Len(s)}
vars == <<l, bad, subs, expect, got, ptype, pubBy, lastFrom, dead, dl, zombies>>
Fresh == subs = {} /\ expect = <<>> /\ got = <<>> /\ ptype = <<>> /\ pubBy = <<>> /\ lastFrom = <<>> /\ dead = {} /\ dl = {} /\ zombies = {}
FreshNext == subs' = {} /\ expect' = <<>> /\ got' = <<>> /\ ptype' = <<>> /\ pubBy' = <<>> /\ lastFrom' = <<>> /\ dead' = {} /\ dl' = {} /\ zombies' = {}
Init == l = 1 /\ bad = "" /\ Fresh
OnSub ==
    /\ (Ev.e = "Sub")
    /\ subs' = subs \cup {<<Ev.s, Ev.a>>}
    /\ UNCHANGED <<bad, expect, got, ptype, pubBy, lastFrom, dead, dl, zombies>>
OnUnsub ==
    /\ (Ev.e = "Unsub")
    /\ subs' = subs \ {<<Ev.s, Ev.a>>}
    /\ UNCHANGED <<bad, expect, got, ptype, pubBy, lastFrom, dead, dl, zombies>>
OnUnsubAll ==
    /\ (Ev.e = "UnsubAll")
    /\ subs' = {s \in subs : s[2] # Ev.a}
    /\ UNCHANGED <<bad, expect, got, ptype, pubBy, lastFrom, dead, dl, zombies>>
OnEvKilled ==
    /\ (Ev.e = "EvKilled")
    /\ subs' = {s \in subs : s[2] # Ev.a} /\ dead' = dead \cup {Ev.a}
    /\ UNCHANGED <<bad, expect, got, ptype, pubBy, lastFrom, dl, zombies>>
OnPub ==
    /\ (Ev.e = "Pub")
    /\ expect' = Put(expect, Ev.m, {s[2] : s \in {s \in subs : s[1] = Ev.s}})
    /\ ptype' = Put(ptype, Ev.m, Ev.s) /\ pubBy' = Put(pubBy, Ev.m, Ev.a) /\ got' = Put(got, Ev.m, {})
    /\ UNCHANGED <<bad, subs, lastFrom, dead, dl, zombies>>
OnDeliv ==
    /\ (Ev.e = "Deliv")
    /\ IF Ev.k # "event" THEN UNCHANGED <<got, lastFrom, bad, zombies>>
       ELSE LET key == <<Get(pubBy, Ev.m, ""), Ev.a>> IN
            /\ got' = Put(got, Ev.m, Get(got, Ev.m, {}) \cup {Ev.a})
            /\ lastFrom' = Put(lastFrom, key, Ev.m)
            /\ bad' = IF Ev.m \notin DOMAIN expect THEN Flag("NeverPublished")
                       ELSE IF Ev.a \notin expect[Ev.m] THEN Flag("OnlySubscribers")
                       ELSE IF Ev.a \in Get(got, Ev.m, {}) THEN Flag("ExactlyOnce")
                       ELSE IF Ev.s # Get(ptype, Ev.m, "") THEN Flag("TypeIsolation")
                       ELSE IF Ev.m < Get(lastFrom, key, 0) THEN Flag("PublisherOrder")
                       ELSE bad
    /\ UNCHANGED <<subs, expect, ptype, pubBy, dead, dl, zombies>>
OnDL ==
    /\ (Ev.e = "DL")
    /\ dl' = IF Ev.k = "event" THEN dl \cup {<<Ev.m, Ev.a>>} ELSE dl
    /\ UNCHANGED <<bad, subs, expect, got, ptype, pubBy, lastFrom, dead, zombies>>
OnAState ==
    /\ (Ev.e = "AState")
    /\ LET n == Cardinality({x \in subs : x[2] = Ev.a})
           want == ToString(n) \o "/" \o ToString(n)
       IN bad' = IF Ev.k # want THEN Flag(IF Ev.s = "gone" THEN "NoEntryAfterTermination" ELSE "TableMatchesSubscriptions") ELSE bad
    /\ UNCHANGED <<subs, expect, got, ptype, pubBy, lastFrom, dead, dl, zombies>>
OnQEnd ==
    /\ (Ev.e = "QEnd")
    /\ LET missing == {m \in DOMAIN expect : \E a \in expect[m] : a \notin Get(got, m, {}) /\ a \notin dead /\ a \notin zombies /\ <<m, a>> \notin dl}
       IN bad' = IF missing # {} THEN Flag("DeliveredToEverySubscriber") ELSE bad
    /\ UNCHANGED <<subs, expect, got, ptype, pubBy, lastFrom, dead, dl, zombies>>
OnReset == Ev.e = "Reset" /\ FreshNext /\ UNCHANGED bad
(* a restart hook that fails turns the actor into a zombie: it consumes its mail without running user code *)
OnHook == /\ Ev.e = "Hook" /\ zombies' = (IF Ev.v = 0 /\ Ev.k \in {"restarted", "prelaunch"} THEN zombies \cup {Ev.a} ELSE zombies)
          /\ UNCHANGED <<bad, subs, expect, got, ptype, pubBy, lastFrom, dead, dl>>
OnOther == Ev.e \notin {"Sub", "Unsub", "UnsubAll", "EvKilled", "Pub", "Deliv", "DL", "QEnd", "AState", "Reset", "Hook"} /\ UNCHANGED <<bad, subs, expect, got, ptype, pubBy, lastFrom, dead, dl, zombies>>
Next == l <= Len(TLog) /\ l' = l + 1 /\ (OnAState \/ OnSub \/ OnUnsub \/ OnUnsubAll \/ OnEvKilled \/ OnPub \/ OnDeliv \/ OnDL \/ OnQEnd \/ OnReset \/ OnHook \/ OnOther)
Spec == Init /\ [][Next]_vars

Ok == bad = ""
Accepted == TLCGet("stats").diameter - 1 = Len(TLog)
=============================================================================
