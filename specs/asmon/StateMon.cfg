SPECIFICATION Spec
INVARIANT Ok
POSTCONDITION Accepted
CHECK_DEADLOCK FALSE
