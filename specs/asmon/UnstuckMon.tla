------------------------------ MODULE UnstuckMon ------------------------------
(* C09: at rest nobody alive is paused or half-stopped, everybody answers a   *)
(* probe, queued mail keeps its order, a zombie runs no user code.            *)
EXTENDS Integers, Sequences, FiniteSets, TLC, Json
VARIABLES l, bad, zombies, probes, delivered, dl, lastDrv, requeued, stash, states, phase, dlTo, tellAt, firstFail, awaiting

(***************************************************************************)
(* Trace alphabet (one JSON object per line, totally ordered by the turn   *)
(* controller; recorded by the scripted behaviours, the driver and an      *)
(* event-stream observer actor of the real system):                        *)
(*  Spawn a p | Tell a p(from) m s(op) | KillCall a p v(poison) | Turn a | *)
(*  Deliv a k m p i(instance) s | Fail a k m | Consult a p d s(strategy) n |*)
(*  Hook a k v(ok) | Stashed a m n | Unstashed a n v | Watch a p |         *)
(*  Sub a s | Unsub a s | UnsubAll a | Pub a m s | DL k m a |              *)
(*  EvKilled a | EvRestarted a | EvFailed a | EvLaunched a |               *)
(*  QBegin s | AState a s v(paused) n(stash) m(user queue) | QEnd |        *)
(*  Find a v | Stopped v n | End | Reset                                   *)
(***************************************************************************)
TLog == ndJsonDeserialize("trace.ndjson")
Ev == TLog[l]
Get(f, k, d) == IF k \in DOMAIN f THEN f[k] ELSE d
Put(f, k, v) == [x \in DOMAIN f \cup {k} |-> IF x = k THEN v ELSE f[x]]
Flag(rule) == IF bad = "" THEN rule ELSE bad
Range(s) == {s[i] : i \in 1..Len(s)}
vars == <<l, bad, zombies, probes, delivered, dl, lastDrv, requeued, stash, states, phase, dlTo, tellAt, firstFail, awaiting>>
Fresh == zombies = {} /\ probes = <<>> /\ delivered = {} /\ dl = {} /\ lastDrv = <<>> /\ requeued = {} /\ stash = <<>> /\ states = <<>> /\ phase = "" /\ dlTo = {} /\ tellAt = <<>> /\ firstFail = 0 /\ awaiting = {}
FreshNext == zombies' = {} /\ probes' = <<>> /\ delivered' = {} /\ dl' = {} /\ lastDrv' = <<>> /\ requeued' = {} /\ stash' = <<>> /\ states' = <<>> /\ phase' = "" /\ dlTo' = {} /\ tellAt' = <<>> /\ firstFail' = 0 /\ awaiting' = {}
Init == l = 1 /\ bad = "" /\ Fresh
OnTell ==
    /\ (Ev.e = "Tell")
    /\ probes' = IF Ev.s = "probe" THEN Put(probes, Ev.m, Ev.a) ELSE probes
    /\ tellAt' = Put(tellAt, Ev.m, l)
    /\ UNCHANGED <<bad, zombies, delivered, dl, lastDrv, requeued, stash, states, phase, dlTo, firstFail, awaiting>>
OnHook ==
    /\ (Ev.e = "Hook")
    /\ zombies' = IF Ev.v = 0 /\ Ev.k \in {"restarted", "prelaunch"} THEN zombies \cup {Ev.a} ELSE zombies
    /\ awaiting' = awaiting \ {Ev.a}
    /\ UNCHANGED <<bad, probes, delivered, dl, lastDrv, requeued, stash, states, phase, dlTo, tellAt, firstFail>>
OnDeliv ==
    /\ (Ev.e = "Deliv")
    /\ delivered' = IF Ev.k = "user" THEN delivered \cup {Ev.m} ELSE delivered
    /\ requeued' = requeued \ {Ev.m}
    /\ lastDrv' = IF Ev.k = "user" /\ Ev.m \notin requeued THEN Put(lastDrv, Ev.a, Ev.m) ELSE lastDrv
    /\ awaiting' = IF Ev.k \in {"kill", "killed"} THEN awaiting \ {Ev.a} ELSE awaiting
    /\ bad' = IF Ev.a \in zombies THEN Flag("ZombieRunsUserCode")
               ELSE IF Ev.k = "user" /\ Ev.a \in awaiting THEN Flag("FailedActorWaitsForTheDecision")
               ELSE IF Ev.k = "user" /\ Ev.m \notin requeued /\ Ev.m < Get(lastDrv, Ev.a, 0) /\ Ev.s # "nop2" THEN Flag("QueuedMailInOrder")
               ELSE bad
    /\ UNCHANGED <<zombies, probes, dl, stash, states, phase, dlTo, tellAt, firstFail>>
OnStashed ==
    /\ (Ev.e = "Stashed")
    /\ stash' = Put(stash, Ev.a, Append(Get(stash, Ev.a, <<>>), Ev.m))
    /\ UNCHANGED <<bad, zombies, probes, delivered, dl, lastDrv, requeued, states, phase, dlTo, tellAt, firstFail, awaiting>>
OnUnstashed ==
    /\ (Ev.e = "Unstashed")
    /\ LET s == Get(stash, Ev.a, <<>>) n == IF Ev.n <= Len(s) THEN Ev.n ELSE Len(s) IN
         /\ requeued' = requeued \cup {s[i] : i \in 1..n}
         /\ stash' = Put(stash, Ev.a, SubSeq(s, n + 1, Len(s)))
    /\ UNCHANGED <<bad, zombies, probes, delivered, dl, lastDrv, states, phase, dlTo, tellAt, firstFail, awaiting>>
OnDL ==
    /\ (Ev.e = "DL")
    /\ dl' = IF Ev.k = "user" THEN dl \cup {Ev.m} ELSE dl
    /\ dlTo' = IF Ev.k = "user" /\ Ev.a # "" THEN dlTo \cup {<<Ev.m, Ev.a>>} ELSE dlTo
    /\ UNCHANGED <<bad, zombies, probes, delivered, lastDrv, requeued, stash, states, phase, tellAt, firstFail, awaiting>>
OnQBegin ==
    /\ (Ev.e = "QBegin")
    /\ states' = <<>> /\ phase' = Ev.s
    /\ UNCHANGED <<bad, zombies, probes, delivered, dl, lastDrv, requeued, stash, dlTo, tellAt, firstFail, awaiting>>
OnAState ==
    /\ (Ev.e = "AState")
    /\ states' = Put(states, Ev.a, <<Ev.s, Ev.v, Ev.m>>)
    /\ UNCHANGED <<bad, zombies, probes, delivered, dl, lastDrv, requeued, stash, phase, dlTo, tellAt, firstFail, awaiting>>
OnQEnd ==
    /\ (Ev.e = "QEnd")
    /\ LET stuck == {a \in DOMAIN states : states[a][1] = "running" /\ states[a][2] = 1}
           half  == {a \in DOMAIN states : states[a][1] = "killing"}
           mail  == {a \in DOMAIN states : states[a][1] \in {"running", "gone", "killed"} /\ states[a][3] > 0}
           unanswered == IF phase # "probed" THEN {}
                         ELSE {m \in DOMAIN probes :
                                 LET a == probes[m] s == Get(states, a, <<"gone", 0, 0>>)[1] IN
                                   \/ (s = "running" /\ m \notin delivered)
                                   \/ (s = "gone" /\ m \notin dl /\ m \notin delivered)}
           \* mail that was sent before the first failure of the run (so it was queued behind, or delivered before, whatever
           \* failed) to an actor that is still running at quiescence (never terminated, not a zombie) was dead-lettered
           wrongly == {p \in dlTo : /\ p[2] \in DOMAIN states /\ states[p[2]][1] = "running" /\ p[2] \notin zombies
                                     /\ p[1] \in DOMAIN tellAt /\ firstFail > 0 /\ tellAt[p[1]] < firstFail}
           \* a zombie is an actor whose OWN restart hook failed; the failure of a sibling's hook is not a reason
           unjust == {a \in DOMAIN states : states[a][1] = "zombie" /\ a \notin zombies}
       IN bad' = IF unjust # {} THEN Flag("ZombieOnlyAfterItsOwnHookFailed")
                  ELSE IF stuck # {} THEN Flag("NobodyStaysPaused")
                  ELSE IF wrongly # {} THEN Flag("QueuedMailSurvivesRestartOrResume")
                  ELSE IF half # {} THEN Flag("NobodyHalfStopped")
                  ELSE IF mail # {} THEN Flag("QueuedMailSurvives")
                  ELSE IF unanswered # {} THEN Flag("ProbeAnswered")
                  ELSE bad
    /\ UNCHANGED <<zombies, probes, delivered, dl, lastDrv, requeued, stash, states, phase, dlTo, tellAt, firstFail, awaiting>>
OnStuck ==
    /\ (Ev.e = "Stuck")
    /\ bad' = Flag("NobodySpins")
    /\ UNCHANGED <<zombies, probes, delivered, dl, lastDrv, requeued, stash, states, phase, dlTo, tellAt, firstFail, awaiting>>
OnReset == Ev.e = "Reset" /\ FreshNext /\ UNCHANGED bad
\* awaiting: actors that have failed (while not already stopping: v = 0) and have not been resumed, restarted or killed since.
\* Such an actor is suspended: it handles no user message until a decision lets it continue
OnFail == /\ Ev.e = "Fail" /\ firstFail' = (IF firstFail = 0 THEN l ELSE firstFail)
          /\ awaiting' = IF Ev.v = 0 THEN awaiting \cup {Ev.a} ELSE awaiting
          /\ UNCHANGED <<bad, zombies, probes, delivered, dl, lastDrv, requeued, stash, states, phase, dlTo, tellAt>>
\* (a one-for-all decision applies to every child of the supervisor, also to one whose own failure is still to be decided:
\* the monitor does not know the tree, so such a consultation clears everybody)
\* After Restart or Stop the failed incarnation handles nothing more (the restart hooks / its OnKill come next); Resume and
\* the graceful variants let it continue; after Escalate the monitor gives up (the final decision names the supervisor)
OnConsult == /\ Ev.e = "Consult"
             /\ awaiting' = (IF Ev.d \in {"restart", "stop"} THEN awaiting ELSE IF Ev.s = "ofa" THEN {} ELSE awaiting \ {Ev.p})
             /\ UNCHANGED <<bad, zombies, probes, delivered, dl, lastDrv, requeued, stash, states, phase, dlTo, tellAt, firstFail>>
OnOther == Ev.e \notin {"Consult", "Fail", "Tell", "Hook", "Deliv", "Stashed", "Unstashed", "DL", "QBegin", "AState", "QEnd", "Stuck", "Reset"} /\ UNCHANGED <<bad, zombies, probes, delivered, dl, lastDrv, requeued, stash, states, phase, dlTo, tellAt, firstFail, awaiting>>
Next == l <= Len(TLog) /\ l' = l + 1 /\ (OnConsult \/ OnTell \/ OnHook \/ OnDeliv \/ OnStashed \/ OnUnstashed \/ OnDL \/ OnQBegin \/ OnAState \/ OnQEnd \/ OnStuck \/ OnReset \/ OnFail \/ OnOther)
Spec == Init /\ [][Next]_vars

Ok == bad = ""
Accepted == TLCGet("stats").diameter - 1 = Len(TLog)
=============================================================================
