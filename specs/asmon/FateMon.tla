------------------------------ MODULE FateMon ------------------------------
(* C03: every user message sent to a local actor ends processed, stashed or  *)
(* dead-lettered exactly once; nothing happens to messages sent after Stop. *)
EXTENDS Integers, Sequences, FiniteSets, TLC, Json
VARIABLES l, bad, sent, tgt, kind, delivered, dl, stash, requeued, zombies, stopped, qstash, qphase, launched, calm, okAtTell

(***************************************************************************)
(* Trace alphabet (one JSON object per line, totally ordered by the turn   *)
(* controller; recorded by the scripted behaviours, the driver and an      *)
(* event-stream observer actor of the real system):                        *)
(*  Spawn a p | Tell a p(from) m s(op) | KillCall a p v(poison) | Turn a | *)
(*  Deliv a k m p i(instance) s | Fail a k m | Consult a p d s(strategy) n |*)
(*  Hook a k v(ok) | Stashed a m n | Unstashed a n v | Watch a p |         *)
(*  Sub a s | Unsub a s | UnsubAll a | Pub a m s | DL k m a |              *)
(*  EvKilled a | EvRestarted a | EvFailed a | EvLaunched a |               *)
(*  QBegin s | AState a s v(paused) n(stash) m(user queue) | QEnd |        *)
(*  Find a v | Stopped v n | End | Reset                                   *)
(***************************************************************************)
TLog == ndJsonDeserialize("trace.ndjson")
Ev == TLog[l]
Get(f, k, d) == IF k \in DOMAIN f THEN f[k] ELSE d
Put(f, k, v) == [x \in DOMAIN f \cup {k} |-> IF x = k THEN v ELSE f[x]]
Flag(rule) == IF bad = "" THEN rule ELSE bad
Range(s) == {s[i] : i \in 1..Len(s)}
vars == <<l, bad, sent, tgt, kind, delivered, dl, stash, requeued, zombies, stopped, qstash, qphase, launched, calm, okAtTell>>
Fresh == sent = {} /\ tgt = <<>> /\ kind = <<>> /\ delivered = {} /\ dl = {} /\ stash = <<>> /\ requeued = {} /\ zombies = {} /\ stopped = FALSE /\ qstash = <<>> /\ qphase = "" /\ launched = {} /\ calm = TRUE /\ okAtTell = {}
FreshNext == sent' = {} /\ tgt' = <<>> /\ kind' = <<>> /\ delivered' = {} /\ dl' = {} /\ stash' = <<>> /\ requeued' = {} /\ zombies' = {} /\ stopped' = FALSE /\ qstash' = <<>> /\ qphase' = "" /\ launched' = {} /\ calm' = TRUE /\ okAtTell' = {}
Init == l = 1 /\ bad = "" /\ Fresh
OnTell ==
    /\ (Ev.e = "Tell")
    /\ sent' = sent \cup {Ev.m} /\ tgt' = Put(tgt, Ev.m, Ev.a) /\ kind' = Put(kind, Ev.m, Ev.s)
    \* the target has been launched and nothing has been killed or has failed so far: it is certainly running
    /\ okAtTell' = IF calm /\ Ev.a \in launched /\ ~stopped THEN okAtTell \cup {Ev.m} ELSE okAtTell
    /\ UNCHANGED <<bad, delivered, dl, stash, requeued, zombies, stopped, qstash, qphase, launched, calm>>
OnDeliv ==
    /\ (Ev.e = "Deliv")
    /\ launched' = IF Ev.k = "launch" THEN launched \cup {Ev.a} ELSE launched
    /\ IF Ev.k # "user" THEN UNCHANGED <<delivered, requeued, bad>>
       ELSE /\ delivered' = delivered \cup {Ev.m}
            /\ requeued' = requeued \ {Ev.m}
            /\ bad' = IF stopped /\ Get(kind, Ev.m, "") = "afterstop" THEN Flag("WorkAfterStop")
                       ELSE IF Ev.m \notin sent THEN Flag("DeliveredButNeverSent")
                       ELSE IF Ev.m \in dl THEN Flag("DeliveredAndDeadLettered")
                       ELSE IF Ev.m \in delivered /\ Ev.m \notin requeued THEN Flag("DeliveredTwice")
                       ELSE bad
    /\ UNCHANGED <<sent, tgt, kind, dl, stash, zombies, stopped, qstash, qphase, calm, okAtTell>>
OnStashed ==
    /\ (Ev.e = "Stashed")
    /\ stash' = Put(stash, Ev.a, Append(Get(stash, Ev.a, <<>>), Ev.m))
    /\ UNCHANGED <<bad, sent, tgt, kind, delivered, dl, requeued, zombies, stopped, qstash, qphase, launched, calm, okAtTell>>
OnUnstashed ==
    /\ (Ev.e = "Unstashed")
    /\ LET s == Get(stash, Ev.a, <<>>) n == IF Ev.n <= Len(s) THEN Ev.n ELSE Len(s) IN
         /\ requeued' = requeued \cup {s[i] : i \in 1..n}
         /\ stash' = Put(stash, Ev.a, SubSeq(s, n + 1, Len(s)))
    /\ UNCHANGED <<bad, sent, tgt, kind, delivered, dl, zombies, stopped, qstash, qphase, launched, calm, okAtTell>>
OnDL ==
    /\ (Ev.e = "DL")
    /\ IF Ev.k # "user" THEN UNCHANGED <<dl, bad>>
       ELSE /\ dl' = dl \cup {Ev.m}
            /\ bad' = IF stopped /\ Get(kind, Ev.m, "") = "afterstop" THEN Flag("WorkAfterStop")
                       ELSE IF Ev.m \in dl THEN Flag("DeadLetteredTwice")
                       ELSE IF calm /\ Ev.m \in okAtTell THEN Flag("RunningTargetProcesses")
                       ELSE IF Ev.m \in delivered /\ Ev.m \notin requeued THEN Flag("DeliveredAndDeadLettered")
                       ELSE bad
    /\ UNCHANGED <<sent, tgt, kind, delivered, stash, requeued, zombies, stopped, qstash, qphase, launched, calm, okAtTell>>
OnHook ==
    /\ (Ev.e = "Hook")
    /\ zombies' = IF Ev.v = 0 /\ Ev.k \in {"restarted", "prelaunch"} THEN zombies \cup {Ev.a} ELSE zombies
    /\ UNCHANGED <<bad, sent, tgt, kind, delivered, dl, stash, requeued, stopped, qstash, qphase, launched, calm, okAtTell>>
OnQBegin ==
    /\ (Ev.e = "QBegin")
    /\ qstash' = <<>> /\ qphase' = Ev.s
    /\ UNCHANGED <<bad, sent, tgt, kind, delivered, dl, stash, requeued, zombies, stopped, launched, calm, okAtTell>>
OnAState ==
    /\ (Ev.e = "AState")
    /\ qstash' = Put(qstash, Ev.a, <<Ev.n, Ev.s>>)
    /\ zombies' = IF Ev.s = "zombie" THEN zombies \cup {Ev.a} ELSE zombies
    /\ UNCHANGED <<bad, sent, tgt, kind, delivered, dl, stash, requeued, stopped, qphase, launched, calm, okAtTell>>
OnQEnd ==
    /\ (Ev.e = "QEnd")
    /\ LET pending == {m \in sent : /\ Get(kind, m, "") # "afterstop"
                                      /\ m \notin delivered /\ m \notin dl
                                      /\ Get(tgt, m, "") \notin zombies}
           \* a stash entry counts as a fate only while StashCount of the live actor accounts for it
           \* (a running actor's StashCount must be exactly what was stashed and not yet unstashed - a restart keeps the
           \* stash; the stash of an actor that is gone went with it)
           stashOk == \A a \in DOMAIN qstash : \/ qstash[a][1] = Len(Get(stash, a, <<>>))
                                                 \/ (qstash[a][1] = 0 /\ qstash[a][2] # "running")
       IN bad' = IF pending # {} THEN Flag("NoFate") ELSE IF ~stashOk THEN Flag("StashCount") ELSE bad
    /\ UNCHANGED <<sent, tgt, kind, delivered, dl, stash, requeued, zombies, stopped, qstash, qphase, launched, calm, okAtTell>>
OnStopped ==
    /\ (Ev.e = "Stopped")
    /\ stopped' = TRUE
    /\ UNCHANGED <<bad, sent, tgt, kind, delivered, dl, stash, requeued, zombies, qstash, qphase, launched, calm, okAtTell>>
OnKillCall_Fail ==
    /\ (Ev.e = "KillCall" \/ Ev.e = "Fail")
    /\ calm' = FALSE
    /\ UNCHANGED <<bad, sent, tgt, kind, delivered, dl, stash, requeued, zombies, stopped, qstash, qphase, launched, okAtTell>>
OnReset == Ev.e = "Reset" /\ FreshNext /\ UNCHANGED bad
OnOther == Ev.e \notin {"KillCall", "Fail", "Tell", "Deliv", "Stashed", "Unstashed", "DL", "Hook", "QBegin", "AState", "QEnd", "Stopped", "Reset"} /\ UNCHANGED <<bad, sent, tgt, kind, delivered, dl, stash, requeued, zombies, stopped, qstash, qphase, launched, calm, okAtTell>>
Next == l <= Len(TLog) /\ l' = l + 1 /\ (OnKillCall_Fail \/ OnTell \/ OnDeliv \/ OnStashed \/ OnUnstashed \/ OnDL \/ OnHook \/ OnQBegin \/ OnAState \/ OnQEnd \/ OnStopped \/ OnReset \/ OnOther)
Spec == Init /\ [][Next]_vars

Ok == bad = ""
Accepted == TLCGet("stats").diameter - 1 = Len(TLog)
=============================================================================
