------------------------------ MODULE KillMon ------------------------------
(* C06: a kill terminates the whole subtree, children first, each reported    *)
(* once; parent (and watchers) get exactly one OnKilled; the path is released. *)
EXTENDS Integers, Sequences, FiniteSets, TLC, Json
VARIABLES l, bad, parent, spawned, killedEv, notified, killAimed, states, zombies, tainted, lateTicks, selfKilled

(***************************************************************************)
(* Trace alphabet (one JSON object per line, totally ordered by the turn   *)
(* controller; recorded by the scripted behaviours, the driver and an      *)
(* event-stream observer actor of the real system):                        *)
(*  Spawn a p | Tell a p(from) m s(op) | KillCall a p v(poison) | Turn a | *)
(*  Deliv a k m p i(instance) s | Fail a k m | Consult a p d s(strategy) n |*)
(*  Hook a k v(ok) | Stashed a m n | Unstashed a n v | Watch a p |         *)
(*  Sub a s | Unsub a s | UnsubAll a | Pub a m s | DL k m a |              *)
(*  EvKilled a | EvRestarted a | EvFailed a | EvLaunched a |               *)
(*  QBegin s | AState a s v(paused) n(stash) m(user queue) | QEnd |        *)
(*  Find a v | Stopped v n | End | Reset                                   *)
(***************************************************************************)
TLog == ndJsonDeserialize("trace.ndjson")
Ev == TLog[l]
Get(f, k, d) == IF k \in DOMAIN f THEN f[k] ELSE d
Put(f, k, v) == [x \in DOMAIN f \cup {k} |-> IF x = k THEN v ELSE f[x]]
Flag(rule) == IF bad = "" THEN rule ELSE bad
Range(s) == {s[i] : i \in 1..Len(s)}
vars == <<l, bad, parent, spawned, killedEv, notified, killAimed, states, zombies, tainted, lateTicks, selfKilled>>
Fresh == parent = <<>> /\ spawned = {} /\ killedEv = {} /\ notified = <<>> /\ killAimed = {} /\ states = <<>> /\ zombies = {} /\ tainted = FALSE /\ lateTicks = <<>> /\ selfKilled = {}
FreshNext == parent' = <<>> /\ spawned' = {} /\ killedEv' = {} /\ notified' = <<>> /\ killAimed' = {} /\ states' = <<>> /\ zombies' = {} /\ tainted' = FALSE /\ lateTicks' = <<>> /\ selfKilled' = {}
Init == l = 1 /\ bad = "" /\ Fresh
OnSpawn ==
    /\ (Ev.e = "Spawn")
    /\ parent' = Put(parent, Ev.a, Ev.p) /\ spawned' = spawned \cup {Ev.a}
    /\ UNCHANGED <<bad, killedEv, notified, killAimed, states, zombies, tainted, lateTicks, selfKilled>>
OnKillCall ==
    /\ (Ev.e = "KillCall")
    /\ killAimed' = killAimed \cup {Ev.a}
    /\ tainted' = TRUE
    /\ UNCHANGED <<bad, parent, spawned, killedEv, notified, states, zombies, lateTicks, selfKilled>>
OnEvKilled ==
    /\ (Ev.e = "EvKilled")
    /\ killedEv' = killedEv \cup {Ev.a}
    /\ LET RECURSIVE Anc(_) Anc(x) == IF x \notin DOMAIN parent \/ parent[x] = "root" THEN {} ELSE {parent[x]} \cup Anc(parent[x])
           desc == {d \in spawned : Ev.a \in Anc(d)}
       IN bad' = IF Ev.a \in killedEv THEN Flag("KilledEventOnce")
                  ELSE IF desc \ killedEv # {} THEN Flag("ChildrenFirst")
                  ELSE bad
    /\ UNCHANGED <<parent, spawned, notified, killAimed, states, zombies, tainted, lateTicks, selfKilled>>
\* selfKilled: actors whose current incarnation has handled the OnKilled that names itself (the last thing it sees).
\* Whoever is told "p has terminated" (parent, watcher) is told so only after that - a zombie handles nothing
OnDeliv ==
    /\ (Ev.e = "Deliv")
    /\ selfKilled' = IF Ev.k = "killed" THEN selfKilled \cup {Ev.a} ELSE IF Ev.k = "launch" THEN selfKilled \ {Ev.a} ELSE selfKilled
    /\ IF Ev.k # "childkilled" THEN UNCHANGED <<notified, bad>>
       ELSE LET key == <<Ev.a, Ev.p>> IN
            /\ notified' = Put(notified, key, Get(notified, key, 0) + 1)
            /\ bad' = IF Get(notified, key, 0) >= 1 THEN Flag("OnKilledOnce")
                       ELSE IF Ev.p \in spawned /\ Ev.p \notin selfKilled /\ Ev.p \notin zombies THEN Flag("ReportedTerminatedOnlyAfterItsOwnOnKilled")
                       ELSE bad
    /\ UNCHANGED <<parent, spawned, killedEv, killAimed, states, zombies, tainted, lateTicks>>
OnHook ==
    /\ (Ev.e = "Hook")
    /\ zombies' = IF Ev.v = 0 /\ Ev.k \in {"restarted", "prelaunch"} THEN zombies \cup {Ev.a} ELSE zombies
    /\ UNCHANGED <<bad, parent, spawned, killedEv, notified, killAimed, states, tainted, lateTicks, selfKilled>>
OnQBegin ==
    /\ (Ev.e = "QBegin")
    /\ states' = <<>>
    /\ UNCHANGED <<bad, parent, spawned, killedEv, notified, killAimed, zombies, tainted, lateTicks, selfKilled>>
OnAState ==
    /\ (Ev.e = "AState")
    /\ states' = Put(states, Ev.a, Ev.s)
    /\ bad' = IF Ev.s = "gone" /\ Ev.k # "0/0" THEN Flag("NoSubscriptionsLeft") ELSE bad
    /\ UNCHANGED <<parent, spawned, killedEv, notified, killAimed, zombies, tainted, lateTicks, selfKilled>>
\* a Watch issued while nothing has been killed or has failed yet is certainly registered before the target can die
OnWatch ==
    /\ (Ev.e = "Watch")
    /\ notified' = IF ~tainted THEN Put(notified, <<"w", Ev.p, Ev.a>>, 1) ELSE notified
    /\ UNCHANGED <<bad, parent, spawned, killedEv, killAimed, states, zombies, tainted, lateTicks, selfKilled>>
OnUnwatch ==
    /\ (Ev.e = "Unwatch")
    /\ notified' = [key \in DOMAIN notified \ {<<"w", Ev.p, Ev.a>>} |-> notified[key]]
    /\ UNCHANGED <<bad, parent, spawned, killedEv, killAimed, states, zombies, tainted, lateTicks, selfKilled>>
OnFail ==
    /\ (Ev.e = "Fail")
    /\ tainted' = TRUE
    /\ UNCHANGED <<bad, parent, spawned, killedEv, notified, killAimed, states, zombies, lateTicks, selfKilled>>
OnQEnd ==
    /\ (Ev.e = "QEnd")
    /\ LET RECURSIVE Anc(_) Anc(x) == IF x \notin DOMAIN parent \/ parent[x] = "root" THEN {} ELSE {parent[x]} \cup Anc(parent[x])
           subtree(x) == {x} \cup {d \in spawned : x \in Anc(d)}
           doomed == UNION {subtree(x) : x \in killAimed}
           \* a terminated actor's parent has been told exactly once (unless the parent is a zombie or the root)
           untold == {c \in killedEv : /\ Get(parent, c, "root") # "root"
                                        /\ Get(parent, c, "root") \notin zombies
                                        /\ Get(notified, <<parent[c], c>>, 0) # 1}
           \* safely registered watchers of a terminated actor that are still alive have been told exactly once
           unwatched == {key \in DOMAIN notified : /\ Len(key) = 3 /\ key[1] = "w" /\ key[3] \in killedEv
                                                     /\ key[2] \notin killedEv /\ key[2] \notin zombies
                                                     /\ Get(notified, <<key[2], key[3]>>, 0) # 1}
           \* somebody was told that x had terminated, but x is alive and no termination was ever published
           phantom == {key \in DOMAIN notified : /\ Len(key) = 2 /\ notified[key] >= 1 /\ key[2] \in spawned
                                                   /\ key[2] \notin killedEv /\ Get(states, key[2], "gone") = "running"}
       IN bad' = IF phantom # {} THEN Flag("OnlyTerminatedActorsAreReportedTerminated")
                  ELSE IF unwatched # {} THEN Flag("WatcherNotifiedOnce")
                  ELSE IF \E x \in doomed : Get(states, x, "gone") # "gone" THEN Flag("WholeSubtreeGone")
                  ELSE IF \E x \in killedEv : Get(states, x, "gone") # "gone" THEN Flag("PathReleased")
                  ELSE IF untold # {} THEN Flag("ParentNotifiedOnce")
                  ELSE bad
    /\ UNCHANGED <<parent, spawned, killedEv, notified, killAimed, states, zombies, tainted, lateTicks, selfKilled>>
OnFind ==
    /\ (Ev.e = "Find")
    /\ bad' = IF Ev.v = 1 /\ Ev.a \in killedEv THEN Flag("PathReleased") ELSE bad
    /\ UNCHANGED <<parent, spawned, killedEv, notified, killAimed, states, zombies, tainted, lateTicks, selfKilled>>
OnReset == Ev.e = "Reset" /\ FreshNext /\ UNCHANGED bad
(* SchedFire a: the job function of a's own Loop job has been entered.  One firing may be under way when a terminates; *)
(* more means the job outlived its actor ("its scheduled jobs are gone").  (Ticks that were queued in a's mailbox when  *)
(* it died are dead-lettered afterwards: that is the backlog, not the job.)                                              *)
OnLateTick == /\ Ev.e = "SchedFire"
              /\ LET n == IF Ev.a \in killedEv THEN Get(lateTicks, Ev.a, 0) + 1 ELSE Get(lateTicks, Ev.a, 0) IN
                   /\ lateTicks' = Put(lateTicks, Ev.a, n)
                   /\ bad' = IF n > 2 THEN Flag("ScheduledJobsGone") ELSE bad
              /\ UNCHANGED <<parent, spawned, killedEv, notified, killAimed, states, zombies, tainted, selfKilled>>
OnOther == (Ev.e \notin {"Spawn", "KillCall", "EvKilled", "Deliv", "Hook", "QBegin", "AState", "QEnd", "Find", "Watch", "Unwatch", "Fail", "Reset", "SchedFire"}) /\ UNCHANGED <<bad, parent, spawned, killedEv, notified, killAimed, states, zombies, tainted, lateTicks, selfKilled>>
Next == l <= Len(TLog) /\ l' = l + 1 /\ (OnWatch \/ OnUnwatch \/ OnFail \/ OnSpawn \/ OnKillCall \/ OnEvKilled \/ OnDeliv \/ OnHook \/ OnQBegin \/ OnAState \/ OnQEnd \/ OnFind \/ OnReset \/ OnLateTick \/ OnOther)
Spec == Init /\ [][Next]_vars

Ok == bad = ""
Accepted == TLCGet("stats").diameter - 1 = Len(TLog)
=============================================================================
