---------------------------- MODULE SuperviseMon ----------------------------
(* C08: the parent's strategy is consulted exactly once per failure; the      *)
(* decided directive is applied to the failing child (one-for-one) or to all  *)
(* children of the supervisor (one-for-all) and to nobody else; Escalate      *)
(* reaches the grandparent (the system default Stop at the top).              *)
(* The effect rules are evaluated on traces with exactly one failure and no   *)
(* kill call (where "because of that failure" is unambiguous); the            *)
(* consultation counting applies to every trace.                              *)
EXTENDS Integers, Sequences, FiniteSets, TLC, Json
VARIABLES l, bad, parent, spawnedAt, fails, consults, cons, killedEv, restarted, kills, hookFailed, failMsg, delivCount, instAtFail, instNow, phase, killing, failsLive, nonResume, probes
TLog == ndJsonDeserialize("trace.ndjson")
Ev == TLog[l]
Get(f, k, d) == IF k \in DOMAIN f THEN f[k] ELSE d
Put(f, k, v) == [x \in DOMAIN f \cup {k} |-> IF x = k THEN v ELSE f[x]]
Flag(rule) == IF bad = "" THEN rule ELSE bad
vars == <<l, bad, parent, spawnedAt, fails, consults, cons, killedEv, restarted, kills, hookFailed, failMsg, delivCount, instAtFail, instNow, phase, killing, failsLive, nonResume, probes>>

Init == /\ l = 1 /\ bad = "" /\ parent = <<>> /\ spawnedAt = <<>> /\ fails = <<>> /\ consults = <<>> /\ cons = <<>>
        /\ killedEv = <<>> /\ restarted = {} /\ kills = 0 /\ hookFailed = FALSE /\ failMsg = <<>> /\ delivCount = <<>>
        /\ instAtFail = <<>> /\ instNow = <<>> /\ phase = "" /\ killing = {} /\ failsLive = <<>> /\ nonResume = {} /\ probes = {}

RECURSIVE Anc(_, _)
Anc(par, x) == IF x \notin DOMAIN par \/ par[x] = "root" THEN {} ELSE {par[x]} \cup Anc(par, par[x])
Desc(par, S) == {d \in DOMAIN par : Anc(par, d) \cap S # {}}
U == <<bad, parent, spawnedAt, fails, consults, cons, killedEv, restarted, kills, hookFailed, failMsg, delivCount, instAtFail, instNow, phase, killing, failsLive, nonResume, probes>>

OnReset == /\ Ev.e = "Reset"
           /\ parent' = <<>> /\ spawnedAt' = <<>> /\ fails' = <<>> /\ consults' = <<>> /\ cons' = <<>>
           /\ killedEv' = <<>> /\ restarted' = {} /\ kills' = 0 /\ hookFailed' = FALSE /\ failMsg' = <<>> /\ delivCount' = <<>>
           /\ instAtFail' = <<>> /\ instNow' = <<>> /\ phase' = "" /\ killing' = {} /\ failsLive' = <<>> /\ nonResume' = {} /\ probes' = {} /\ UNCHANGED bad
OnSpawn == /\ Ev.e = "Spawn" /\ parent' = Put(parent, Ev.a, Ev.p) /\ spawnedAt' = Put(spawnedAt, Ev.a, l)
           /\ UNCHANGED <<bad, fails, consults, cons, killedEv, restarted, kills, hookFailed, failMsg, delivCount, instAtFail, instNow, phase, killing, failsLive, nonResume, probes>>
OnFail == /\ Ev.e = "Fail"
          /\ fails' = Put(fails, Ev.a, Get(fails, Ev.a, 0) + 1)
          /\ failMsg' = Put(failMsg, Ev.a, Ev.m)
          /\ instAtFail' = Put(instAtFail, Ev.a, Get(instNow, Ev.a, 0))
          \* a failure of an actor that has already received its OnKill is not a matter for supervision
          /\ failsLive' = IF Ev.a \in killing THEN failsLive ELSE Put(failsLive, Ev.a, Get(failsLive, Ev.a, 0) + 1)
          /\ UNCHANGED <<bad, parent, spawnedAt, consults, cons, killedEv, restarted, kills, hookFailed, delivCount, instNow, phase, killing, nonResume, probes>>
OnConsult ==
    /\ Ev.e = "Consult"
    /\ LET key == <<Ev.a, Ev.p>> IN
       /\ LET c1 == Put(consults, key, Get(consults, key, 0) + 1)
              ek == <<Ev.a, "*esc">>
          IN consults' = IF Ev.d = "escalate" THEN Put(c1, ek, Get(c1, ek, 0) + 1) ELSE c1
       \* remember the consultation: supervisor, failing, decision, strategy, children alive at that moment
       /\ cons' = Put(cons, Ev.a, [failing |-> Ev.p, d |-> Ev.d, strat |-> Ev.s, n |-> Ev.n,
                                   kids |-> {c \in DOMAIN parent : parent[c] = Ev.a /\ c \notin DOMAIN killedEv}])
       /\ bad' = IF Get(parent, Ev.p, "") # Ev.a THEN Flag("ConsultedByParentOnly")
                  ELSE IF Get(consults, key, 0) + 1 > Get(failsLive, Ev.p, 0) + Get(consults, <<Ev.p, "*esc">>, 0)
                       THEN Flag(IF Get(fails, Ev.p, 0) > Get(failsLive, Ev.p, 0) THEN "NoSupervisionWhileStopping" ELSE "ConsultedAtMostOncePerFailure")
                  ELSE bad
       \* an Escalate decision makes the supervisor itself the failing actor one level up
    /\ nonResume' = IF Ev.d \notin {"resume", "escalate"} THEN nonResume \cup {Ev.a} ELSE nonResume
    /\ UNCHANGED <<parent, spawnedAt, fails, killedEv, restarted, kills, hookFailed, failMsg, delivCount, instAtFail, instNow, phase, killing, failsLive, probes>>
OnEsc == FALSE
OnEvKilled == /\ Ev.e = "EvKilled" /\ killedEv' = Put(killedEv, Ev.a, l)
              /\ UNCHANGED <<bad, parent, spawnedAt, fails, consults, cons, restarted, kills, hookFailed, failMsg, delivCount, instAtFail, instNow, phase, killing, failsLive, nonResume, probes>>
OnHook == /\ Ev.e = "Hook"
          /\ restarted' = IF Ev.k = "restarted" THEN restarted \cup {Ev.a} ELSE restarted
          /\ hookFailed' = (hookFailed \/ Ev.v = 0)
          /\ UNCHANGED <<bad, parent, spawnedAt, fails, consults, cons, killedEv, kills, failMsg, delivCount, instAtFail, instNow, phase, killing, failsLive, nonResume, probes>>
OnKillCall == /\ Ev.e = "KillCall" /\ kills' = kills + 1
              /\ UNCHANGED <<bad, parent, spawnedAt, fails, consults, cons, killedEv, restarted, hookFailed, failMsg, delivCount, instAtFail, instNow, phase, killing, failsLive, nonResume, probes>>
OnDeliv == /\ Ev.e = "Deliv"
           /\ instNow' = Put(instNow, Ev.a, Ev.i)
           /\ delivCount' = IF Ev.k = "user" THEN Put(delivCount, <<Ev.a, Ev.m>>, Get(delivCount, <<Ev.a, Ev.m>>, 0) + 1) ELSE delivCount
           /\ killing' = IF Ev.k = "kill" THEN killing \cup {Ev.a} ELSE IF Ev.k = "launch" THEN killing \ {Ev.a} ELSE killing
           /\ UNCHANGED <<bad, parent, spawnedAt, fails, consults, cons, killedEv, restarted, kills, hookFailed, failMsg, instAtFail, phase, failsLive, nonResume, probes>>
OnQBegin == /\ Ev.e = "QBegin" /\ phase' = Ev.s
            /\ UNCHANGED <<bad, parent, spawnedAt, fails, consults, cons, killedEv, restarted, kills, hookFailed, failMsg, delivCount, instAtFail, instNow, killing, failsLive, nonResume, probes>>

TotalFails == LET RECURSIVE Sum(_) Sum(S) == IF S = {} THEN 0 ELSE LET x == CHOOSE x \in S : TRUE IN fails[x] + Sum(S \ {x}) IN Sum(DOMAIN fails)

\* effect of the directive decided by supervisor s for its consultation c (single-failure traces)
EffectOK(s, c) ==
    LET targets == IF c.strat = "ofo" THEN {c.failing} ELSE c.kids
        below   == Desc(parent, targets)
        dead    == DOMAIN killedEv
    IN CASE c.d \in {"restart", "grestart"} ->
              IF restarted # targets THEN "RestartTargetsExactly"
              ELSE IF dead \ below # {} THEN "RestartKillsNobodyElse"
              ELSE IF c.failing \in DOMAIN instAtFail /\ Get(instNow, c.failing, 0) <= instAtFail[c.failing] THEN "RestartResetsStateWithFreshInstance"
              ELSE ""
         [] c.d \in {"stop", "gstop"} ->
              IF restarted # {} THEN "StopRestartsNobody"
              ELSE IF dead # targets \cup below THEN "StopTargetsExactly"
              ELSE ""
         [] c.d = "resume" ->
              IF restarted # {} \/ dead # {} THEN "ResumeTouchesNobody"
              ELSE IF Get(delivCount, <<c.failing, Get(failMsg, c.failing, 0)>>, 1) > 1 THEN "FailingMessageNotRedelivered"
              ELSE IF c.failing \in DOMAIN instAtFail /\ Get(instNow, c.failing, 0) # instAtFail[c.failing] THEN "ResumeKeepsInstance"
              ELSE ""
         [] OTHER -> ""

OnQEnd ==
    /\ Ev.e = "QEnd"
    /\ LET single == TotalFails = 1 /\ kills = 0 /\ ~hookFailed /\ phase = "probed"
           x == CHOOSE x \in DOMAIN fails : TRUE
           s == Get(parent, x, "root")
           \* every failure whose supervisor is an ordinary (non-root) live actor has been consulted about exactly once
           unconsulted == {y \in DOMAIN fails : /\ Get(parent, y, "root") # "root"
                                                /\ Get(parent, y, "root") \notin DOMAIN killedEv
                                                /\ y \notin DOMAIN killedEv
                                                /\ Get(consults, <<parent[y], y>>, 0) < Get(failsLive, y, 0)}
           r == IF ~single THEN ""
                ELSE IF s = "root" THEN (IF x \notin DOMAIN killedEv THEN "TopIsStop" ELSE "")
                ELSE IF s \notin DOMAIN cons THEN "ConsultedOnce"
                ELSE IF cons[s].d = "escalate"
                     THEN LET g == Get(parent, s, "root") IN
                            IF g = "root" THEN (IF s \notin DOMAIN killedEv THEN "EscalateEndsAtDefaultStop" ELSE "")
                            ELSE IF g \notin DOMAIN cons \/ cons[g].failing # s THEN "EscalateReachesGrandparent"
                            ELSE IF cons[g].d = "escalate" THEN "" ELSE EffectOK(g, cons[g])
                     ELSE EffectOK(s, cons[s])
           \* after the one failure has been dealt with, every actor that is still alive answers its probe (nobody was left
           \* suspended by the round: the failing actor, its one-for-all siblings, the supervisors of an escalation chain)
           silent == {pr \in probes : pr[2] \notin DOMAIN killedEv /\ Get(delivCount, <<pr[2], pr[1]>>, 0) = 0}
           \* every escalation by a supervisor that stays alive under a grandparent that only ever resumes was put to that grandparent
           escalators == {sv \in DOMAIN parent : Get(consults, <<sv, "*esc">>, 0) > 0}
           dropped == {sv \in escalators : /\ parent[sv] # "root" /\ parent[sv] \notin DOMAIN killedEv /\ sv \notin DOMAIN killedEv
                                            /\ sv \notin restarted /\ parent[sv] \notin nonResume /\ sv \notin nonResume
                                            /\ Get(consults, <<parent[sv], sv>>, 0) < Get(failsLive, sv, 0) + consults[<<sv, "*esc">>]}
       IN bad' = IF bad # "" THEN bad
                  ELSE IF phase = "probed" /\ unconsulted # {} THEN "ConsultedOnce"
                  ELSE IF phase = "probed" /\ kills = 0 /\ ~hookFailed /\ dropped # {} THEN "EveryEscalationReachesGrandparent"
                  ELSE IF phase = "probed" /\ single /\ silent # {} THEN "EveryoneAliveContinuesAfterTheDecision"
                  ELSE r
    /\ UNCHANGED <<parent, spawnedAt, fails, consults, cons, killedEv, restarted, kills, hookFailed, failMsg, delivCount, instAtFail, instNow, phase, killing, failsLive, nonResume, probes>>
OnTell == /\ Ev.e = "Tell"
          /\ probes' = IF Ev.s = "probe" THEN probes \cup {<<Ev.m, Ev.a>>} ELSE probes
          /\ UNCHANGED <<bad, parent, spawnedAt, fails, consults, cons, killedEv, restarted, kills, hookFailed, failMsg, delivCount, instAtFail, instNow, phase, killing, failsLive, nonResume>>
OnOther == /\ Ev.e \notin {"Tell", "Reset", "Spawn", "Fail", "Consult", "EvKilled", "Hook", "KillCall", "Deliv", "QBegin", "QEnd"}
           /\ UNCHANGED U
Next == l <= Len(TLog) /\ l' = l + 1 /\ (OnReset \/ OnSpawn \/ OnFail \/ OnConsult \/ OnEvKilled \/ OnHook \/ OnKillCall \/ OnDeliv \/ OnQBegin \/ OnQEnd \/ OnTell \/ OnOther)
Spec == Init /\ [][Next]_vars
Ok == bad = ""
Accepted == TLCGet("stats").diameter - 1 = Len(TLog)
=============================================================================
